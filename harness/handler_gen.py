"""Shared by C06 / C15 / C19: dataset generator (arrays, structures - also one structure nested in a structure -,
grids, flat sequences; integer-valued numeric data and ASCII strings), its S-expression for the Lean model, the real pydap dataset, structured constraint generator (valid
CEs with the numpy-computed expectation), fault injection, a request runner on webob, and small independent
parsers for DDS text, ASCII bodies and the XDR payload of `.dods`."""
import re
import struct
import warnings

import zlib

import numpy as np

from common import hexb

warnings.filterwarnings("ignore")

DTYPES = {"i4": "Int32", "i2": "Int16", "u2": "UInt16", "u4": "UInt32", "f4": "Float32", "f8": "Float64", "U": "String",
          "u1": "Byte"}
NUMERIC = [k for k in DTYPES if k != "U"]     # "u1" (Byte) included: packed on the wire, padded to 4n
STR_ALPHABET = "abcxyz019 _.-"     # no comma / quote / newline: the harness's ASCII reader splits sequence rows on ", "


def hx(s):
    return hexb(s.encode("ascii"))


# ------------------------------------------------------------------------------------------------ datasets
def gen_string(rng):
    return "".join(rng.choice(STR_ALPHABET) for _ in range(rng.choice([0, 1, 1, 2, 3, 3, 4, 5, 8]))) if rng.random() < 0.8 \
        else rng.choice(["a", "ab", "b", "", "abc"])


def np_dtype(dt):
    return "U8" if dt == "U" else dt


def val_sexp(v):
    return hx(v) if isinstance(v, str) else str(v)


def gen_values(rng, dt, n):
    if dt == "U":
        return [gen_string(rng) for _ in range(n)]
    if dt == "u1":
        return [rng.choice([0, 1, 127, 128, 200, 255, rng.randint(0, 255), rng.randint(128, 255), rng.randint(0, 9)]) for _ in range(n)]
    lo, hi = (0, 9999) if dt[0] == "u" else (-9999, 9999)
    return [rng.choice([0, 1, lo, hi, rng.randint(lo, hi), rng.randint(-9, 9) if lo < 0 else rng.randint(0, 9)])
            for _ in range(n)]


def gen_dtype(rng, strings=True):
    r = rng.random()
    if r < 0.2:
        return "u1"
    return "U" if strings and r < 0.4 else rng.choice(NUMERIC)


# element counts 0..8 (multiples of four and the others) for Byte arrays: the XDR padding depends on count % 4
BYTE_SHAPES = [[0], [1], [2], [3], [4], [4], [5], [6], [7], [8], [8], [2, 2], [2, 4], [4, 2], [1, 4], [2, 3], [3, 3], [2, 2, 2], [2, 0],
               [1, 2, 2], [12]]


def gen_base(rng, name, max_rank=3, rank=None, dims=None, strings=True, dt=None):
    dt = dt or gen_dtype(rng, strings)
    if rank is None:
        rank = rng.choice([0, 1, 1, 2, 2, 3][: 2 + 2 * max_rank]) if max_rank else 0
        rank = min(rank, max_rank)
    shape = [rng.randint(1, 4) if rank > 1 else rng.randint(1, 8) for _ in range(rank)]
    if dt == "u1" and rank and rng.random() < 0.7:
        shape = rng.choice([s_ for s_ in BYTE_SHAPES if len(s_) == rank])
    elif rank and rng.random() < 0.04:
        shape[rng.randrange(rank)] = 0          # an empty array
    n = int(np.prod(shape)) if shape else 1
    if dims is None and rank and rng.random() < 0.5:
        dims = ["d%s%d" % (name, i) for i in range(rank)]
    return {"k": "b", "name": name, "dt": dt, "shape": shape, "dims": dims or [], "data": gen_values(rng, dt, n)}


def gen_dataset(rng, with_seq=True, ambiguous=False, strings=True, nested=True):
    """spec: {"name", "vars": [...]}; `strings`: String arrays / scalars / columns; `nested`: a structure member of the
    structure (one level)"""
    vars_ = []
    top = ["a", "b", "c"]
    rng.shuffle(top)
    for nm in top[: rng.randint(1, 3)]:
        vars_.append(gen_base(rng, nm, strings=strings))
    if rng.random() < 0.8:
        ms = [gen_base(rng, nm, max_rank=2, strings=strings) for nm in ["p", "q", "r"][: rng.randint(1, 3)]]
        if nested and rng.random() < 0.5:
            inner = [gen_base(rng, nm, max_rank=2, strings=strings) for nm in ["e", "h", "r" if ambiguous else "k"][: rng.randint(1, 3)]]
            ms.insert(rng.randint(0, len(ms)), {"k": "st", "name": "in", "members": inner})
        vars_.append({"k": "st", "name": "st", "members": ms})
    if rng.random() < 0.8:
        rank = rng.randint(1, 3)
        arr = gen_base(rng, "v", rank=rank, dims=["x", "y", "z"][:rank], strings=strings)
        maps = []
        for d, n in zip(arr["dims"], arr["shape"]):
            m = gen_base(rng, d, rank=1, dims=[d], strings=False)
            m["shape"] = [n]
            m["data"] = sorted(gen_values(rng, m["dt"], n))
            maps.append(m)
        vars_.append({"k": "g", "name": "g", "array": arr, "maps": maps})
    if with_seq and rng.random() < 0.85:
        cols = [(nm, gen_dtype(rng, strings)) for nm in ["i", "j", "f"][: rng.randint(1, 3)]]
        if ambiguous and rng.random() < 0.5:
            cols.append(("p", "i4"))
        rows = [[gen_values(rng, dt, 1)[0] if dt == "U" else
                 gen_values(rng, dt, 1)[0] % 50 if rng.random() < 0.7 else gen_values(rng, dt, 1)[0] for (_, dt) in cols]
                for _ in range(rng.choice([1, 2, 3, 5, 8]))]
        vars_.append({"k": "sq", "name": "s", "cols": cols, "rows": rows})
    rng.shuffle(vars_)
    if rng.random() < 0.4:
        # a Byte array directly followed by another variable: what comes after the padding is read at the right offset
        at = rng.randint(0, len(vars_))
        vars_[at:at] = [gen_base(rng, "u", rank=rng.choice([1, 1, 1, 2]), dt="u1"),
                        gen_base(rng, "w", max_rank=1, strings=False, dt=rng.choice(["i4", "i2", "f8", "u1"]))]
    return {"name": rng.choice(["d", "d", "data", "a1"]), "vars": vars_}


def held_as_bytes(b):
    """every third String array is held as numpy dtype S (what files and pydap's own parsers deliver); a function of the case"""
    return b["dt"] == "U" and zlib.crc32(repr((b["name"], b["data"][:4])).encode()) % 3 == 0


def base_sexp(b):
    return "(b %s %s (%s) (%s) (%s)%s)" % (hx(b["name"]), hx(DTYPES[b["dt"]]), " ".join(map(str, b["shape"])),
                                           " ".join(hx(d) for d in b["dims"]), " ".join(map(val_sexp, b["data"])),
                                           " S" if held_as_bytes(b) else "")


def member_sexp(m):
    if m["k"] == "st":
        return "(st %s (%s))" % (hx(m["name"]), " ".join(base_sexp(b) for b in m["members"]))
    return base_sexp(m)


def var_sexp(v):
    if v["k"] == "b":
        return base_sexp(v)
    if v["k"] == "st":
        return "(st %s (%s))" % (hx(v["name"]), " ".join(member_sexp(m) for m in v["members"]))
    if v["k"] == "g":
        return "(g %s %s (%s))" % (hx(v["name"]), base_sexp(v["array"]), " ".join(base_sexp(m) for m in v["maps"]))
    return "(sq %s (%s) (%s))" % (hx(v["name"]), " ".join("(%s %s)" % (hx(n), hx(DTYPES[t])) for n, t in v["cols"]),
                                  " ".join("(%s)" % " ".join(map(val_sexp, r)) for r in v["rows"]))


def ds_sexp(spec):
    return "(ds %s (%s))" % (hx(spec["name"]), " ".join(var_sexp(v) for v in spec["vars"]))


def as_array(b):
    dt = np_dtype(b["dt"])
    if held_as_bytes(b):
        dt = "S8"       # the same strings held as bytes (what files and pydap's own parsers deliver); a function of the case
    a = np.array(b["data"], dtype=dt).reshape(b["shape"]) if b["shape"] else np.array(b["data"][0], dtype=dt)
    if b["dt"] != "U" and a.dtype.itemsize > 1 and zlib.crc32(repr((b["name"], b["shape"], b["data"][:3])).encode()) % 4 == 1:
        # the same values held big-endian (what netCDF-3 files, .dods files and pydap's own client deliver): a function
        # of the case, bit-exact (byteswap + relabel, no cast)
        a = a.byteswap().view(a.dtype.newbyteorder(">"))
    return a


def build(spec, lazy=False):
    """`lazy`: sequences with at least one record are served from a lazy row stream that already carries a record
    range (`IterData(rows_with_a_leading_extra_row, seq)[1:]`): same declared content, other backend"""
    from pydap.model import BaseType, DatasetType, GridType, SequenceType, StructureType

    def mk(b):
        data = as_array(b)
        return BaseType(b["name"], data, dims=tuple(b["dims"])) if b["dims"] else BaseType(b["name"], data)

    ds = DatasetType(spec["name"])
    for v in spec["vars"]:
        if v["k"] == "b":
            ds[v["name"]] = mk(v)
        elif v["k"] == "st":
            st = StructureType(v["name"])
            for m in v["members"]:
                if m["k"] == "st":
                    inner = StructureType(m["name"])
                    for b in m["members"]:
                        inner[b["name"]] = mk(b)
                    st[m["name"]] = inner
                else:
                    st[m["name"]] = mk(m)
            ds[v["name"]] = st
        elif v["k"] == "g":
            g = GridType(v["name"])
            g[v["array"]["name"]] = mk(v["array"])
            for m in v["maps"]:
                g[m["name"]] = mk(m)
            ds[v["name"]] = g
        else:
            s = SequenceType(v["name"])
            for n, t in v["cols"]:
                s[n] = BaseType(n)
            if lazy and v["rows"]:
                from pydap.handlers.lib import IterData
                typed = [tuple(np.dtype(np_dtype(t)).type(x) for x, (n, t) in zip(r, v["cols"])) for r in v["rows"]]
                # lazy == "ranged": the stream already carries a record range (IterData applies slices after filters,
                # so such a dataset is only asked selection-free constraints)
                s.data = IterData([typed[0]] + typed, s)[1:] if lazy == "ranged" else IterData(typed, s)
            else:
                # every third table holds its String columns as bytes (dtype S), as the SequenceType docstring does
                as_bytes = zlib.crc32(repr((v["name"], v["cols"], v["rows"][:2])).encode()) % 3 == 0
                s.data = np.array([tuple(r) for r in v["rows"]],
                                  dtype=[(n, "S8" if (t == "U" and as_bytes) else np_dtype(t)) for n, t in v["cols"]]).view(np.recarray)
            ds[v["name"]] = s
    return ds


# ------------------------------------------------------------------------------------------------ several datasets, one process
def fresh_pydap():
    """forget every imported pydap module: the next import builds pydap's module-level state anew, as a new server
    process would (numpy, webob stay).  A history of requests starts here, so that it can be replayed on its own."""
    import sys
    for m in [m for m in sys.modules if m == "pydap" or m.startswith("pydap.")]:
        del sys.modules[m]


def gen_csv_spec(rng, stem):
    """a CSV file as the CSV handler declares it: dataset <file name, quoted>, one Sequence `sequence`, unquoted cells are
    Float64 and quoted cells String (csv.QUOTE_NONNUMERIC); at least one record"""
    cols = [(nm, rng.choice(["f8", "f8", "U"])) for nm in ["i", "j", "f"][: rng.randint(1, 3)]]
    rows = [[gen_values(rng, dt, 1)[0] if dt == "U" else rng.choice([rng.randint(-60, 60), rng.randint(0, 9), gen_values(rng, "i4", 1)[0]])
             for (_, dt) in cols] for _ in range(rng.choice([1, 2, 3, 5, 8]))]
    return {"name": stem + "%2Ecsv", "vars": [{"k": "sq", "name": "sequence", "cols": cols, "rows": rows}]}


def write_csv(spec, directory):
    import csv
    import os
    path = os.path.join(directory, spec["name"].replace("%2E", "."))
    sq = spec["vars"][0]
    with open(path, "w", newline="") as f:
        w = csv.writer(f, quoting=csv.QUOTE_NONNUMERIC)
        w.writerow([n for n, _ in sq["cols"]])
        for r in sq["rows"]:
            w.writerow(r)
    return path


BACKENDS = ["mem", "lazy", "ranged", "csv"]


def gen_family(rng):
    """[(key, backend, spec)]: 2..4 datasets for handlers living in one process.  In-memory and lazy datasets carry the same
    dataset name and draw their variables from the same small pool of names, each with its own types, shapes and record
    counts (ids such as s.i, a, st.p, g.v recur with other types); CSV files are all served as Sequence `sequence`."""
    k = rng.choice([2, 2, 3, 4])
    out = []
    if rng.random() < 0.35:
        for i in range(k):
            out.append(("h%d" % i, "csv", gen_csv_spec(rng, "abct"[i])))
        return out
    name = rng.choice(["d", "data", "a1"])
    for i in range(k):
        for _ in range(50):
            spec = gen_dataset(rng)
            if any(v["k"] == "sq" and v["rows"] for v in spec["vars"]):
                break
        spec["name"] = name
        out.append(("h%d" % i, rng.choice(["mem", "lazy", "lazy", "ranged"]), spec))
    return out


def build_app(backend, spec, directory=None, wrap=None):
    """the WSGI application serving `spec` from `backend`"""
    if backend == "csv":
        from pydap.handlers.csv import CSVHandler
        return CSVHandler(write_csv(spec, directory))
    from pydap.handlers.lib import BaseHandler
    return BaseHandler(build(spec, lazy={"mem": False, "lazy": "plain", "ranged": "ranged"}[backend]))


def request_path(backend, spec, ext):
    return "/%s.%s" % (spec["name"].replace("%2E", ".") if backend == "csv" else "d", ext)


# ------------------------------------------------------------------------------------------------ valid CEs
def gen_hs(rng, shape):
    """valid hyperslab: text and the python slices.  Valid = what check_hyperslab accepts: at most one index per axis
    (axes not mentioned are whole), start inside the axis, last index >= start (a last index beyond the extent is
    clipped, as the client sends it), stride >= 1"""
    text, sl = "", []
    axes = shape if rng.random() < 0.85 else shape[: rng.randint(1, len(shape))]
    for n in axes:
        a = rng.randint(0, n - 1) if n else 0          # an axis of length 0: only index 0 names it (the whole, empty, axis)
        b = rng.randint(a, n - 1) if n and rng.random() < 0.85 else rng.choice([n, n + 1, 99])
        k = rng.choice([1, 1, 2, 3])
        form = rng.randint(0, 2)
        if form == 0:
            text += "[%d]" % a
            sl.append(slice(a, a + 1, 1))
        elif form == 1:
            text += "[%d:%d]" % (a, b)
            sl.append(slice(a, b + 1, 1))
        else:
            text += "[%d:%d:%d]" % (a, k, b)
            sl.append(slice(a, b + 1, k))
    return text, tuple(sl)


# ------------------------------------------------------------------------------------------------ a variable named twice
def accepts(shape, sl):
    """what check_hyperslab accepts against `shape` (own statement of the rule)"""
    return len(sl) <= len(shape) and all(
        0 <= s.start and (s.start < n or (n == 0 and s.start == 0)) and s.start < s.stop and s.step >= 1 for s, n in zip(sl, shape))


def compose_windows(shape, hs_list):
    """the part of the underlying array an array shows after the hyperslabs `hs_list` were applied one after the other
    the way numpy.lib.Arrayterator.__getitem__ composes them (offsets add up unscaled, strides multiply, the stop is
    the smaller of the two) - written from that rule, not by calling numpy.  Returns the slice tuple on the SOURCE
    array, or None when some hyperslab is rejected against the shape left by the earlier ones."""
    win = [(0, n, 1) for n in shape]
    for sl in hs_list:
        shown = [len(range(a, z, k)) for a, z, k in win]
        if not accepts(shown, sl):
            return None
        win = [(a + sl[i].start, min(z, a + sl[i].stop), k * sl[i].step) if i < len(sl) else (a, z, k)
               for i, (a, z, k) in enumerate(win)]
    return tuple(slice(a, z, k) for a, z, k in win)


def hs_text(sl):
    return "".join("[%d:%d:%d]" % (s.start, s.step, s.stop - 1) if s.step != 1 else
                   ("[%d]" % s.start if s.stop == s.start + 1 else "[%d:%d]" % (s.start, s.stop - 1)) for s in sl)


def gen_hs_any(rng, shape, wide=False):
    """a hyperslab accepted against `shape` (strides 1..3; `wide`: prefer one that leaves several elements)"""
    sl = []
    axes = shape if rng.random() < 0.8 else shape[: rng.randint(1, len(shape))]
    for n in axes:
        if n == 0:
            sl.append(slice(0, rng.choice([1, 2]), rng.choice([1, 2])))
            continue
        a = rng.randint(0, (n - 1) // 3 if wide else n - 1)
        b = rng.choice([n - 1, n, n + 2]) if wide or rng.random() < 0.3 else rng.randint(a, n - 1)
        k = rng.choice([1, 2, 2, 3])
        sl.append(slice(a, a + 1, 1) if (not wide and rng.random() < 0.25) else slice(a, max(b, a) + 1, k))
    return tuple(sl)


def gen_repeated_ce(rng, spec, valid=True):
    """the same array / grid / grid array / structure member named two or three times with hyperslabs of ANY stride.
    Returns (query, expected) - `expected` as gen_valid_ce gives it, from `compose_windows` - or None when the dataset
    has nothing to slice.  `valid=False`: the last hyperslab does not fit what the earlier ones left (expected None)."""
    cands = []
    for v in spec["vars"]:
        if v["k"] == "b" and v["shape"]:
            cands.append(("b", v, v, [v["name"]]))
        elif v["k"] == "g" and v["array"]["shape"]:
            cands.append(("g", v, v["array"], [v["name"]]))
            cands.append(("gm", v, v["array"], [v["name"], v["array"]["name"]]))
            # the whole grid with a hyperslab, then one of its members again (it is already there)
            cands += [("gw", v, v["array"], [v["name"]])] * (4 if len(v["array"]["shape"]) > 1 else 1)
        elif v["k"] == "st":
            cands += [("m", v, m, [v["name"], m["name"]]) for m in v["members"] if m["k"] != "st" and m["shape"]]
    if not cands:
        return None
    kind, v, b, path = rng.choice(cands)
    shape = list(b["shape"])
    unit = rng.random() < 0.4      # all but the last hyperslab with stride 1: the composition is numpy's x[s1][s2]

    def unit_strides(sl):
        return tuple(slice(s.start, s.stop, 1) for s in sl) if unit else sl

    hs = [unit_strides(gen_hs_any(rng, shape, wide=True))]
    more = rng.choice([1, 1, 1, 2])
    for i in range(more):
        src = compose_windows(shape, hs)
        shown = [len(range(*s.indices(n))) for s, n in zip(src, shape)]
        nxt = gen_hs_any(rng, shown)
        hs.append(nxt if i == more - 1 else unit_strides(nxt))
    if kind == "gw":
        hs = hs[:1]
        if rng.random() < 0.5:
            # the last element of every axis: where a map paired with another axis' index shows
            hs = [tuple(slice(n - 1, n, 1) if n else slice(0, 1, 1) for n in shape)]
        # (naming the LAST map again never mattered: prefer the array and the maps before it)
        member = rng.choice(([v["array"]] + v["maps"][:-1]) * 3 + v["maps"][-1:])["name"]
        q = "%s%s,%s.%s" % (v["name"], hs_text(hs[0]), v["name"], member)
        if rng.random() < 0.3:
            q += ",%s.%s" % (v["name"], rng.choice([v["array"]] + v["maps"])["name"])
        src = compose_windows(shape, hs)
        return q, [("g", v["name"], [leaf(path + [b["name"]], b, src)] +
                    [leaf(path + [m["name"]], m, (src[i],) if i < len(src) else None) for i, m in enumerate(v["maps"])])]
    if not valid:
        src = compose_windows(shape, hs[:-1])
        shown = [len(range(*s.indices(n))) for s, n in zip(src, shape)]
        bad = list(hs[-1])
        i = rng.randrange(len(bad)) if bad else 0
        bad[i] = slice(shown[i] + rng.choice([0, 1, 5]), shown[i] + 9, rng.choice([1, 2]))
        hs[-1] = tuple(bad)
    ref = ".".join(path)
    q = ",".join(ref + hs_text(sl) for sl in hs)
    src = compose_windows(shape, hs)
    if src is None:
        return q, None
    if kind == "b":
        expected = [("b", leaf(path, b, src))]
    elif kind == "g":
        expected = [("g", v["name"], [leaf(path + [b["name"]], b, src)] +
                     [leaf(path + [m["name"]], m, (src[i],) if i < len(src) else None) for i, m in enumerate(v["maps"])])]
    else:
        expected = [("st", v["name"], [leaf(path, b, src)])]
    return q, expected


def leaf(idpath, b, sl=None):
    arr = as_array(b)
    if sl:
        arr = arr[sl]
    return {"id": ".".join(idpath), "type": DTYPES[b["dt"]], "shape": list(arr.shape),
            "values": [(x.decode("ascii") if isinstance(x, bytes) else str(x)) if b["dt"] == "U" else int(x) for x in arr.reshape(-1)]}


def gen_valid_ce(rng, spec, allow_sel=True):
    """returns (query text, expected) where expected = ordered list of top-level entries:
       ("b", leaf) | ("st", name, [leaf]) | ("g", name, [leaf]) | ("sq", name, [(col, type)], rows)"""
    by_name = {v["name"]: v for v in spec["vars"]}
    member_names = []
    for v in spec["vars"]:
        if v["k"] == "st":
            member_names += [m["name"] for m in v["members"]]
            for m in v["members"]:
                if m["k"] == "st":
                    member_names += [b["name"] for b in m["members"]]
        elif v["k"] == "g":
            member_names += [v["array"]["name"]] + [m["name"] for m in v["maps"]]
        elif v["k"] == "sq":
            member_names += [c[0] for c in v["cols"]]
    if rng.random() < 0.12:
        chosen = []
    else:
        names = [v["name"] for v in spec["vars"]]
        rng.shuffle(names)
        chosen = names[: rng.randint(1, len(names))]
    items, expected, sel_txt = [], [], []
    moved = []
    seqsel = {}
    # selections first (they act on the rows whatever the projection)
    for v in spec["vars"]:
        if v["k"] == "sq" and allow_sel and rng.random() < 0.5:
            conds = []
            for _ in range(rng.randint(1, 2)):
                ci = rng.randrange(len(v["cols"]))
                op = rng.choice(["<", "<=", ">", ">=", "=", "!="])
                is_str = v["cols"][ci][1] == "U"
                like = [j for j, c in enumerate(v["cols"]) if (c[1] == "U") == is_str]
                if rng.random() < 0.8 or len(like) < 2:
                    if is_str:
                        # a double-quoted literal; only characters that travel unescaped in a query string
                        pool = [r_[ci] for r_ in v["rows"] if re.fullmatch(r"[a-z0-9_.\-]*", r_[ci])] + ["a", "b", "", "abc", "x1"]
                        rhs = rng.choice(pool)
                        sel_txt.append('%s.%s%s"%s"' % (v["name"], v["cols"][ci][0], op, rhs))
                    else:
                        rhs = rng.choice([0, 1, 5, 20, 49, -3, rng.randint(-60, 60)])
                        sel_txt.append("%s.%s%s%d" % (v["name"], v["cols"][ci][0], op, rhs))
                    conds.append((ci, op, ("lit", rhs)))
                else:
                    cj = rng.choice(like)
                    conds.append((ci, op, ("col", cj)))
                    sel_txt.append("%s.%s%s%s.%s" % (v["name"], v["cols"][ci][0], op, v["name"], v["cols"][cj][0]))
            seqsel[v["name"]] = conds

    def rows_of(v):
        import operator
        ops = {"<": operator.lt, "<=": operator.le, ">": operator.gt, ">=": operator.ge, "=": operator.eq, "!=": operator.ne}
        rows = v["rows"]
        for ci, op, rhs in seqsel.get(v["name"], []):
            rows = [r for r in rows if ops[op](r[ci], rhs[1] if rhs[0] == "lit" else r[rhs[1]])]
        return rows

    def full_member(parent, m):
        if m["k"] == "st":
            return ("st", parent + "." + m["name"], [leaf([parent, m["name"], b["name"]], b) for b in m["members"]])
        return leaf([parent, m["name"]], m)

    def full(v):
        if v["k"] == "b":
            return ("b", leaf([v["name"]], v))
        if v["k"] == "st":
            return ("st", v["name"], [full_member(v["name"], m) for m in v["members"]])
        if v["k"] == "g":
            return ("g", v["name"], [leaf([v["name"], m["name"]], m) for m in [v["array"]] + v["maps"]])
        return ("sq", v["name"], [(n, DTYPES[t]) for n, t in v["cols"]], rows_of(v))

    if not chosen:
        expected = [full(v) for v in spec["vars"]]
    for nm in chosen:
        v = by_name[nm]
        r = rng.random()
        if v["k"] == "b":
            if v["shape"] and r < 0.6:
                t, sl = gen_hs(rng, v["shape"])
                items.append(nm + t)
                expected.append(("b", leaf([nm], v, sl)))
            else:
                items.append(nm)
                expected.append(full(v))
        elif v["k"] == "st":
            if r < 0.4:
                items.append(nm)
                expected.append(full(v))
            else:
                # references to members, and to members of the nested structure, in any order: a structure appears in
                # the output where it is first referred to, members are appended to it in the order of the request
                refs = []          # (path below nm, base or nested structure)
                for m in v["members"]:
                    if m["k"] == "st":
                        if rng.random() < 0.3:
                            refs.append(([m["name"]], m))
                        else:
                            bs = list(m["members"])
                            rng.shuffle(bs)
                            refs += [([m["name"], b["name"]], b) for b in bs[: rng.randint(1, len(bs))]]
                    else:
                        refs.append(([m["name"]], m))
                rng.shuffle(refs)
                refs = refs[: rng.randint(1, len(refs))]
                leaves = []
                nested_at = {}
                for path, m in refs:
                    short = member_names.count(path[-1]) == 1 and path[-1] not in by_name and path[-1] != spec["name"] \
                        and len(refs) == 1 and rng.random() < 0.3
                    ref = path[-1] if short else ".".join([nm] + path)
                    if m["k"] == "st":
                        items.append(ref)
                        leaves.append(full_member(nm, m))
                        continue
                    if m["shape"] and rng.random() < 0.6:
                        t, sl = gen_hs(rng, m["shape"])
                        items.append(ref + t)
                        lf = leaf([nm] + path, m, sl)
                    else:
                        items.append(ref)
                        lf = leaf([nm] + path, m)
                    if len(path) == 2:
                        if path[0] not in nested_at:
                            nested_at[path[0]] = ("st", nm + "." + path[0], [])
                            leaves.append(nested_at[path[0]])
                        nested_at[path[0]][2].append(lf)
                    else:
                        leaves.append(lf)
                expected.append(("st", nm, leaves))
        elif v["k"] == "g":
            if r < 0.3:
                items.append(nm)
                expected.append(full(v))
            elif r < 0.65:
                t, sl = gen_hs(rng, v["array"]["shape"])
                items.append(nm + t)
                moved.append(nm)
                expected.append(("g", nm, [leaf([nm, v["array"]["name"]], v["array"], sl)]
                                 + [leaf([nm, m["name"]], m, (s,)) for m, s in zip(v["maps"], sl)]
                                 + [leaf([nm, m["name"]], m) for m in v["maps"][len(sl):]]))
            else:
                ms = [v["array"]] + v["maps"]
                m = rng.choice(ms)
                if rng.random() < 0.6:
                    t, sl = gen_hs(rng, m["shape"])
                    items.append("%s.%s%s" % (nm, m["name"], t))
                    expected.append(("st", nm, [leaf([nm, m["name"]], m, sl)]))
                else:
                    items.append("%s.%s" % (nm, m["name"]))
                    expected.append(("st", nm, [leaf([nm, m["name"]], m)]))
        else:
            rows = rows_of(v)
            if r < 0.35:
                items.append(nm)
                expected.append(("sq", nm, [(n, DTYPES[t]) for n, t in v["cols"]], rows))
            elif r < 0.6:
                a = rng.randint(0, 3)
                b = rng.randint(a, a + 4)
                k = rng.choice([1, 1, 2])
                moved.append(nm)
                items.append("%s[%d:%d:%d]" % (nm, a, k, b) if k > 1 or rng.random() < 0.5 else "%s[%d:%d]" % (nm, a, b))
                expected.append(("sq", nm, [(n, DTYPES[t]) for n, t in v["cols"]], rows[a:b + 1:k]))
            else:
                idx = list(range(len(v["cols"])))
                rng.shuffle(idx)
                idx = idx[: rng.randint(1, len(idx))]
                for i in idx:
                    items.append("%s.%s" % (nm, v["cols"][i][0]))
                expected.append(("sq", nm, [(v["cols"][i][0], DTYPES[v["cols"][i][1]]) for i in idx],
                                 [[r_[i] for i in idx] for r_ in rows]))
    # second loop of apply_projection: a sliced grid / sequence is re-set in its parent, i.e. moved to the end
    for e in [e for e in expected if e[0] in ("g", "sq") and e[1] in moved]:
        expected.remove(e)
        expected.append(e)
    q = ",".join(items)
    if sel_txt:
        q = q + "&" + "&".join(sel_txt) if q else "&".join(sel_txt)
    return q, expected


def expected_decl(expected):
    """names, order, types, shapes as a flat comparable structure"""
    out = []
    for e in expected:
        if e[0] == "b":
            out.append(("b", e[1]["id"], e[1]["type"], tuple(e[1]["shape"])))
        elif e[0] in ("st", "g"):
            out.append((e[0], e[1], tuple(
                ("st", l[1], tuple((x["id"], x["type"], tuple(x["shape"])) for x in l[2])) if isinstance(l, tuple)
                else (l["id"], l["type"], tuple(l["shape"])) for l in e[2])))
        else:
            out.append(("sq", e[1], tuple(("%s.%s" % (e[1], n), t, ()) for n, t in e[2])))
    return out


def decl_leaves(decl):
    """(id, type, shape) of every base variable of a declaration (expected_decl / parse_dds), in wire order"""
    out = []

    def members(ms):
        for m in ms:
            if m[0] == "st":
                members(m[2])
            else:
                out.append(tuple(m))
    for e in decl:
        if e[0] == "b":
            out.append(tuple(e[1:]))
        else:
            members(e[2])
    return out


def expected_values(expected):
    out = []
    for e in expected:
        if e[0] == "b":
            out += e[1]["values"]
        elif e[0] in ("st", "g"):
            for l in e[2]:
                if isinstance(l, tuple):
                    for x in l[2]:
                        out += x["values"]
                else:
                    out += l["values"]
        else:
            for r in e[3]:
                out += list(r)
    return out


# ------------------------------------------------------------------------------------------------ faults
FAULT_KINDS = ["unknown-var", "non-numeric", "over-long", "negative", "inverted", "out-of-range", "unbalanced",
               "unknown-function", "operand-type", "operand-not-literal", "bad-operator", "function+fault", "nested-path",
               "percent", "dap4", "byte-mutation", "too-many-index", "repeated-item"]

# operands that are not Python literals: ast.literal_eval raises SyntaxError (not ValueError) on most of them
NOT_LITERALS = ["(", ")", "1%202", "=5", ">5", "<1", "[", "]", "'", '"', "1+", "0x", "1e", "--", "1,2", "()", "[1,2", "{", "*",
                "1..2", "09", "1_", "lambda:1", "a%20b", "'x", "\\", "@", "$", "?", ";", "1;2", ":", "...", "1if", "not", "-"]


def inject_fault(rng, spec, q, kind):
    names = [v["name"] for v in spec["vars"]]
    arrays = [v for v in spec["vars"] if v["k"] == "b" and v["shape"]]
    seqs = [v for v in spec["vars"] if v["k"] == "sq"]
    a = rng.choice(arrays)["name"] if arrays else "a"
    s = seqs[0] if seqs else None
    sc = "%s.%s" % (s["name"], s["cols"][0][0]) if s else "s.i"
    sn = s["name"] if s else "s"

    def with_item(item):
        r = rng.random()
        if r < 0.4 or not q:
            return item
        proj, _, sel = q.partition("&")
        if r < 0.7:
            return ",".join([x for x in [proj, item] if x]) + (("&" + sel) if sel else "")
        return ",".join([x for x in [item, proj] if x]) + (("&" + sel) if sel else "")

    def with_sel(c):
        return (sn + "&" + c) if rng.random() < 0.7 else ((q + "&" + c) if q and "&" not in q and "=" not in q and "<" not in q and ">" not in q else c)

    if kind == "unknown-var":
        return with_item(rng.choice(["zz", "st.zz", "zz.p", "g.zz", sn + ".zz", "zz[0]", "a.b.c", names[0] + "x", spec["name"], "st.p.q", "."]))
    if kind == "non-numeric":
        return with_item(a + rng.choice(["[x]", "[1:x]", "[1.5]", "[0:1:x]", "[ ]", "[:]", "[1:]", "[0x1]", "[1e1]", "[--1]", "[1][y]",
                                         # tokens outside ASCII (percent-escaped): error messages echo them
                                         "[%C3%A9]", "[0:%E2%82%AC]", "[%C3%A9%C3%A9:1]"]))
    if kind == "over-long":
        return with_item(a + rng.choice(["[1:2:3:4]", "[0:1:2:3:4]", "[0][1:2:3:4]", "[1:1:1:1]"]))
    if kind == "too-many-index":
        return with_item(a + "[0][0][0][0][0]"[: 3 * rng.randint(2, 5)])
    if kind == "negative":
        # also on the sequence: a lazy row stream (itertools.islice) takes no negative index
        return with_item(rng.choice([a, a, sn]) + rng.choice(["[-1]", "[-3:2]", "[0:-1]", "[0:-1:3]", "[-2:-1]"]))
    if kind == "inverted":
        return with_item(a + rng.choice(["[5:1]", "[3:2]", "[4:2:1]", "[1:0]"]))
    if kind == "out-of-range":
        return with_item(rng.choice([a, sn, "g"]) + rng.choice(["[0:99]", "[50]", "[99:100]", "[0:1:999]", "[7:20]", "[0:0:3]"]))
    if kind == "unbalanced":
        return with_item(rng.choice([a + "[1", a + "1]", a + "[[1]", a + "[1]]", "mean(" + a, a + ")", "((" + a, a + "[", "]", a + "[1][",
                                     "mean(" + a + ",0))", ")(", a + "[(]"]))
    if kind == "unknown-function":
        return rng.choice([with_item("foo(" + a + ")"), with_sel("foo(" + sc + ")>1"), with_item("(" + a + ")"), with_item("("),
                           with_item("mean()"), with_item("bar(1,2)"), with_sel("nofun(1)")])
    if kind == "operand-not-literal":
        # `s.i>(`, `s.i>1 2`, `s.i==5` (operand `=5`), `s.i<>5` (operand `>5`), also beside a good clause
        lit = rng.choice(NOT_LITERALS)
        op = rng.choice([">", "<", "=", "!=", ">=", "<="])
        return with_sel(sc + op + lit) if rng.random() < 0.8 else with_sel(sc + op + "1") + "&" + sc + op + lit
    if kind == "function+fault":
        # a function call (projection or selection position) combined with a faulty clause or a faulty argument
        call = rng.choice(["mean(%s,0)" % a, "mean(%s)" % a, "mean(g,0)", "bounds(0,1,0,1,0,1)", "foo(%s)" % a, "mean(mean(%s,0),0)" % a])
        faulty_sel = sc + rng.choice(["><1", ">(", "==5", "<>5", ">1%202", ">abc", "=~1", ">", '>"x"', ">>1"])
        faulty_item = rng.choice([a + "[x]", a + "[1:2:3:4]", "zz", a + "[99]", a + "[1", "st.zz", a + "[-1]"])
        faulty_arg = rng.choice(["mean(%s[x],0)" % a, "mean(%s[99],0)" % a, "mean(zz,0)", "mean(%s,9)" % a, "mean(%s,x)" % a, "mean(%s,0" % a,
                                 "mean(,)", "mean((,0)", "mean(%s,0)(1)" % a, "bounds(0,1,0,1)", "bounds(a,b,c,d,e,f)", "mean(%s,0)[0]" % a])
        r = rng.random()
        if r < 0.3:
            return call + "&" + faulty_sel
        if r < 0.5:
            return ",".join(rng.sample([call, faulty_item], 2))
        if r < 0.7:
            return faulty_arg + rng.choice(["", "&" + faulty_sel, "," + a])
        if r < 0.85:
            return sn + "&" + call + "&" + faulty_sel
        return call + "," + faulty_item + "&" + faulty_sel
    if kind == "nested-path":
        # paths through the nested structure that do not exist / slice a structure / go through a base variable
        return with_item(rng.choice(["st.in.zz", "st.in[0]", "st[0].in", "st.in.e.x", "st.zz.e", "in.zz", "st.in.e[9][9][9]", "st.in[0].e",
                                     "st.p.e", "in[0]", "st.in.", "st..e", "st.in.e[99]", "g.v.x", "s.i.j", "st.in.h[0:1:0]", "zz.in.e"]))
    if kind == "operand-type":
        bad = sc + rng.choice(['>"x"', ">abc", ">1.5", "=" + a, ">", "=[1]", "<" + sn, '="1"', ">None", ">1e400"])
        if s and s["rows"] and rng.random() < 0.5:
            # an earlier, well-typed clause that the FIRST record does not pass, then the ill-typed one (and the reverse
            # order): a lazy sequence has to notice the second clause although the first record never reaches it
            ci = rng.randrange(len(s["cols"]))
            v0 = s["rows"][0][ci]
            lit = '"%s"' % v0 if s["cols"][ci][1] == "U" else str(v0)
            # (some record must pass the first clause: on an EMPTY intermediate selection numpy still evaluates the
            #  ill-typed comparison and raises, the row-wise handler model does not - an error-ordering corner the
            #  model does not carry)
            if re.fullmatch(r'[A-Za-z0-9_.\-"]*', lit) and any(r_[ci] != v0 for r_ in s["rows"]):
                good = "%s.%s!=%s" % (sn, s["cols"][ci][0], lit)
                return sn + "&" + (good + "&" + bad if rng.random() < 0.7 else bad + "&" + good)
        return with_sel(bad)
    if kind == "bad-operator":
        return with_sel(sc + rng.choice([">>1", "=~1", "~1", "><1", "=!1", "==1", "=<1", "<>1", "!1", "=>1", "!==1", "<=>1"]))
    if kind == "percent":
        base = q or a
        r = rng.random()
        if r < 0.4:
            return "".join("%%%02X" % ord(ch) if rng.random() < 0.3 else ch for ch in base)
        return base + rng.choice(["%ZZ", "%", "%5", "%5b1%5d", "%2", "%%", "%26", "%2C" + a, "%3E1", "%41", "%7e"])
    if kind == "repeated-item":
        # the same variable named twice or three times with a hyperslab, any strides: each further one is applied to what
        # the earlier ones left (numpy's Arrayterator composes them; valid when it still fits, an error when it does
        # not; either way a complete answer)
        r = gen_repeated_ce(rng, spec, valid=rng.random() < 0.6)
        if r is None:
            return with_item("a[0],a[0]")
        return with_item(r[0])
    if kind == "dap4":
        return "dap4.ce=" + rng.choice([q, "/" + a, a, ""])
    # byte-level mutation of a valid CE
    base = list(q or a)
    for _ in range(rng.randint(1, 3)):
        r = rng.random()
        pos = rng.randrange(len(base) + 1)
        ch = rng.choice("[]():,.&<>=!~%-+0129axs\"'_*|\\;")
        if r < 0.4 and base:
            base[min(pos, len(base) - 1)] = ch
        elif r < 0.75:
            base.insert(pos, ch)
        elif base:
            del base[min(pos, len(base) - 1)]
    return "".join(base)


PATHS_OK = ["/d.%s"]
EXT_MODELLED = ["dds", "das", "dods", "ascii", "asc"]


def gen_path(rng):
    """(path, class)"""
    r = rng.random()
    if r < 0.62:
        return rng.choice(["/d.%s", "/x/y.z/d.%s", "/.%s", "/d.nc.%s", "/a1.%s"]) % rng.choice(EXT_MODELLED), "known-ext"
    if r < 0.72:
        return rng.choice(["/d.%s", "/x/d.%s"]) % rng.choice(["dmr", "html", "ver"]), "other-ext"
    if r < 0.86:
        return rng.choice(["/d", "/", "/dds", "/x/y/d", "/ddds", "/d-dds", "/a/b/"]), "no-ext"
    return rng.choice(["/d.foo", "/d.", "/d.DDS", "/d.dds.gz", "/d.dods/", "/d.dds/x", "/d.nc", "/d.d ds".replace(" ", "_"), "/d.asci",
                       "/d..", "/d.das1"]), "unknown-ext"


# ------------------------------------------------------------------------------------------------ running
KIND_OF_DESC = {"dods_dds": "dds", "dods_das": "das", "dods_data": "dods", "dods_ascii": "ascii"}
CTYPE_OF_EXT = {"dds": "text/plain", "das": "text/plain", "ascii": "text/plain", "asc": "text/plain",
                "dods": "application/octet-stream", "html": "text/html", "dmr": "text/plain", "ver": None}
ERR_RE = re.compile(r"\AError \{\n    code = (-?\d+);\n    message = (.*);\n\}\Z", re.S)


def run_request(app, path, query):
    """webob Request.blank(path?query).get_response(app); exception / status / headers / body read to the end"""
    from webob import Request

    out = {"exc": None, "status": None, "ctype": None, "cdesc": None, "body": None, "body_exc": None, "sent": True, "clen": None}
    try:
        req = Request.blank(path + ("?" + query if query is not None else ""))
    except Exception as e:  # the harness could not even build the request
        out["sent"] = False
        out["exc"] = type(e).__name__
        return out
    if req.path != path or req.query_string != (query or ""):
        out["sent"] = False
        return out
    try:
        res = req.get_response(app)
    except Exception as e:
        out["exc"] = type(e).__name__
        out["exc_msg"] = str(e)[:200]
        return out
    out["status"] = res.status_int
    out["ctype"] = res.content_type
    out["cdesc"] = res.headers.get("Content-description")
    out["clen"] = res.headers.get("Content-Length")      # as announced by the response object (before webob fills it in)
    try:
        out["body"] = res.body
    except Exception as e:
        out["body_exc"] = type(e).__name__
        out["body_exc_msg"] = str(e)[:200]
    return out


def ext_of(path):
    return path.rsplit(".", 1)[1] if "." in path else None


# ------------------------------------------------------------------------------------------------ parsers
DDS_BASE = re.compile(r"^\s*(Byte|Int16|UInt16|Int32|UInt32|Float32|Float64|String|Url) ([^\[\];\s]+)((?:\[[^\]]*\])*);$")


def parse_dds(text):
    """harness's own DDS reader: returns (dataset name, entries, rest-of-text) where entries mirror expected_decl:
    ("b", id, type, shape) | (kind, name, members) with member = (id, type, shape) | ("st", id, (bases...))"""
    lines = text.split("\n")
    if lines[0] != "Dataset {":
        raise ValueError("no Dataset line: %r" % lines[0])
    pos = [1]

    def base(line, prefix):
        m = DDS_BASE.match(line)
        if not m:
            raise ValueError("bad declaration line %r" % line)
        shape = tuple(int(x.split("=")[-1].strip()) for x in re.findall(r"\[([^\]]*)\]", m.group(3)))
        return (prefix + m.group(2), m.group(1), shape)

    def block(prefix, depth):
        """members up to the closing line of the enclosing constructor; returns (members, name of the constructor)"""
        out = []
        while True:
            line = lines[pos[0]]
            st = line.strip()
            if st.startswith("} "):
                if len(line) - len(line.lstrip(" ")) != 4 * depth:
                    raise ValueError("closing line %r at the wrong indentation" % line)
                pos[0] += 1
                return out, st[2:-1]
            if st in ("Array:", "Maps:"):
                pos[0] += 1
                continue
            if st in ("Structure {", "Sequence {", "Grid {"):
                kind = {"Structure {": "st", "Sequence {": "sq", "Grid {": "g"}[st]
                pos[0] += 1
                # the members' ids need the constructor's name, which is on its closing line: read with a placeholder
                mark = "\0%d\0" % pos[0]
                members, name = block(prefix + mark + ".", depth + 1)
                fix = lambda e: tuple(fix(x) for x in e) if isinstance(e, tuple) else (e.replace(mark, name) if isinstance(e, str) else e)
                out.append((kind, prefix + name, tuple(fix(m_) for m_ in members)))
            else:
                out.append(("b",) + base(line, prefix))
                pos[0] += 1

    def strip(m):
        # inside a constructor a base is (id, type, shape) - its id is dotted, never a constructor tag
        return m[1:] if m[0] == "b" else (m[0], m[1], tuple(strip(x) for x in m[2]))

    members, name = block("", 0)
    entries = [m if m[0] == "b" else (m[0], m[1], tuple(strip(x) for x in m[2])) for m in members]
    return name, entries, "\n".join(lines[pos[0]:])


XDR_FMT = {"Byte": (">B", 1), "Int16": (">i", 4), "UInt16": (">I", 4), "Int32": (">i", 4), "UInt32": (">I", 4), "Float32": (">f", 4),
           "Float64": (">d", 8)}


class WireString(str):
    """a String value read from the data response; `.raw` = the bytes of its XDR field (length word, bytes, padding)"""
    raw = b""


def decode_dods_values(decl, payload):
    """values of the data response in wire order, by the harness's own XDR reader"""
    pos = 0
    vals = []

    def read(ty):
        nonlocal pos
        if ty in ("String", "Url"):
            (n,) = struct.unpack_from(">I", payload, pos)
            padded = n + (-n % 4)
            raw = payload[pos:pos + 4 + padded]
            if len(raw) != 4 + padded:
                raise ValueError("string field runs past the end of the data response")
            if raw[4 + n:] != b"\0" * (padded - n):
                raise ValueError("string padding is not zero")
            v = WireString(raw[4:4 + n].decode("ascii"))
            v.raw = raw
            pos += 4 + padded
            return v
        fmt, n = XDR_FMT[ty]
        if pos + n > len(payload):
            raise ValueError("%s value runs past the end of the data response" % ty)
        (v,) = struct.unpack_from(fmt, payload, pos)
        pos += n
        return v

    def zero_pad(n, what):
        """`n` bytes were just read as packed Bytes: skip the zero padding up to a multiple of four"""
        nonlocal pos
        k = -n % 4
        if payload[pos:pos + k] != b"\0" * k:
            raise ValueError("%s: the %d padding byte(s) after %d Byte value(s) are %r" % (what, k, n, payload[pos:pos + k]))
        pos += k

    def rd_base(ty, shape):
        nonlocal pos
        n = 1
        if shape:
            n = int(np.prod(shape))
            words = 1 if ty in ("String", "Url") else 2
            ns = struct.unpack_from(">" + "I" * words, payload, pos)
            pos += 4 * words
            if any(x != n for x in ns):
                raise ValueError("array length words %r differ from the declared %d" % (ns, n))
        for _ in range(n):
            vals.append(read(ty))
        if ty == "Byte":        # packed: one byte per value, zeros up to 4n after the last (a scalar: 1 + 3)
            zero_pad(n, "Byte %s" % ("array" if shape else "scalar"))

    def rd_members(ms):
        for m in ms:
            if is_nested(m):
                rd_members(m[2])
            else:
                rd_base(m[1], m[2])

    for e in decl:
        if e[0] == "b":
            rd_base(e[2], e[3])
        elif e[0] in ("st", "g"):
            rd_members(e[2])
        else:
            while True:
                marker = payload[pos:pos + 4]
                pos += 4
                if marker == b"\xa5\x00\x00\x00":
                    break
                if marker != b"\x5a\x00\x00\x00":
                    raise ValueError("bad sequence marker %r" % marker)
                for (_, ty, _s) in e[2]:
                    vals.append(read(ty))
                    if ty == "Byte":
                        zero_pad(1, "Byte column")
    if pos != len(payload):
        raise ValueError("%d trailing bytes in the data response" % (len(payload) - pos))
    return vals


def is_nested(m):
    """a structure among the members of a structure (the ids of bases inside a constructor are dotted)"""
    return m[0] == "st"


def parse_ascii_data(decl, text):
    """the ASCII data section read back against the declaration: list of (id, index tuple or None, printed value)"""
    lines = text.split("\n")
    i = 0
    out = []

    def rd_base(id_, shape):
        nonlocal i
        if lines[i] != id_:
            raise ValueError("expected id line %r, got %r" % (id_, lines[i]))
        i += 1
        if not shape:
            out.append((id_, None, lines[i]))
            i += 1
        else:
            for ix in np.ndindex(*shape):
                want = "".join("[%d]" % k for k in ix) + " "
                if not lines[i].startswith(want):
                    raise ValueError("expected index %r, got line %r" % (want, lines[i]))
                out.append((id_, ix, lines[i][len(want):]))
                i += 1
        if shape:  # index lines end with a newline, the enclosing structure adds one more; a scalar has none of its own
            if lines[i] != "":
                raise ValueError("expected blank line after %s, got %r" % (id_, lines[i]))
            i += 1

    def rd_members(name, ms):
        nonlocal i
        for m in ms:
            if is_nested(m):
                rd_members(m[1], m[2])
            else:
                rd_base(m[0], m[2])
        if lines[i] != "":
            raise ValueError("expected blank line after %s" % name)
        i += 1

    for e in decl:
        if e[0] == "b":
            rd_base(e[1], e[3])
        elif e[0] in ("st", "g"):
            rd_members(e[1], e[2])
        else:
            hdr = ", ".join(c[0] for c in e[2])
            if lines[i] != hdr:
                raise ValueError("expected sequence header %r, got %r" % (hdr, lines[i]))
            i += 1
            while lines[i] != "":
                cells = lines[i].split(", ")
                if len(cells) != len(e[2]):
                    raise ValueError("row %r has %d cells for %d columns" % (lines[i], len(cells), len(e[2])))
                for c, v in zip(e[2], cells):
                    out.append((c[0], "row", v))
                i += 1
            i += 1
    if [l for l in lines[i:] if l != ""]:
        raise ValueError("unread ASCII lines: %r" % lines[i:i + 3])
    return out


def wire_text(vals):
    """the decoded values in the model's notation: numbers in decimal, strings as `s` + hex of the XDR field"""
    return " ".join("s" + v.raw.hex() if isinstance(v, WireString) else
                    str(int(v)) if float(v).is_integer() else repr(v) for v in vals)


def printed(v):
    """what the ASCII response must print for a decoded value"""
    return '"%s"' % v if isinstance(v, str) else fmt6g(v)


def fmt6g(v):
    return "%.6g" % v
