"""Apply each patch to a scratch copy of the repository (never to /repo itself), run the named checks with
VERIF_REPO pointing at the copy, and report which are caught.  Usage:
   /venv/bin/python harness/selftest.py [--tests] [--tier quick] [--checks C03,C02] patch.diff [patch2.diff ...]
A patch's default check list is the directory name it lives in (mutants/C03/x.diff -> C03; seeded/<id>/patch.diff ->
meta.json "property").  Scratch copies live under /tmp and are removed afterwards."""
import argparse
import json
import os
import shutil
import subprocess
import sys
import tempfile

VERIF = os.path.dirname(os.path.dirname(os.path.abspath(__file__)))
REPO = os.environ.get("VERIF_REPO", "/repo")


def run(cmd, **kw):
    return subprocess.run(cmd, stdout=subprocess.PIPE, stderr=subprocess.STDOUT, text=True, **kw)


def checks_for(patch, override):
    if override:
        return override
    d = os.path.dirname(os.path.abspath(patch))
    meta = os.path.join(d, "meta.json")
    if os.path.exists(meta):
        m = json.load(open(meta))
        p = m.get("property")
        extra = m.get("also_checks", [])
        return ([p] if isinstance(p, str) else list(p)) + extra
    return [os.path.basename(d)]


def main():
    ap = argparse.ArgumentParser()
    ap.add_argument("--tests", action="store_true", help="also run the repository test-suite on the mutant")
    ap.add_argument("--tier", default="quick")
    ap.add_argument("--checks", default="")
    ap.add_argument("--seed", default="0")
    ap.add_argument("patches", nargs="+")
    a = ap.parse_args()
    override = [c for c in a.checks.split(",") if c]
    results = []
    for patch in a.patches:
        tmp = tempfile.mkdtemp(prefix="mut-", dir="/tmp")
        try:
            r = run(["git", "-C", REPO, "worktree", "add", "--detach", "-q", os.path.join(tmp, "repo"), "HEAD"])
            if r.returncode != 0:
                print(r.stdout)
                continue
            wt = os.path.join(tmp, "repo")
            r = run(["git", "-C", wt, "apply", os.path.abspath(patch)])
            if r.returncode != 0:
                results.append((patch, "PATCH-DOES-NOT-APPLY", r.stdout.strip()[:200]))
                continue
            row = {}
            if a.tests:
                t = run(["/venv/bin/python", "-m", "pytest", "-q", "-p", "no:cacheprovider", "--timeout=900",
                         "--continue-on-collection-errors"], cwd=wt)
                last = [l for l in t.stdout.splitlines() if "passed" in l or "failed" in l][-1:]
                row["tests"] = last[0] if last else "?"
            for c in checks_for(patch, override):
                env = dict(os.environ, VERIF_REPO=wt, VERIF_SEED=a.seed)
                # the evidence file must keep describing the run against the real tree: save and restore it
                ev = os.path.join(VERIF, "evidence", c + ".json")
                saved = open(ev).read() if os.path.exists(ev) else None
                p = run([os.path.join(VERIF, "check"), c, "--tier", a.tier], env=env, cwd=VERIF)
                if saved is not None:
                    with open(ev, "w") as f:
                        f.write(saved)
                vio = [l for l in p.stdout.splitlines() if l.startswith("VIOLATION")]
                row[c] = "rc=%d %s" % (p.returncode, vio[0] if vio else "")
                if vio and "replay=" in vio[0]:
                    rp = vio[0].split("replay=")[1].split()[0]
                    try:
                        f = json.load(open(os.path.join(VERIF, rp))).get("failure")
                        if f:
                            # the replay must fail on the changed tree and pass on the real one
                            rm = run([os.path.join(VERIF, "check"), c, "--replay", rp], env=env, cwd=VERIF)
                            rc_ = run([os.path.join(VERIF, "check"), c, "--replay", rp],
                                      env=dict(os.environ, VERIF_REPO=REPO), cwd=VERIF)
                            row[c] += " [replay: mutant %s, clean %s]" % (
                                "fails" if rm.returncode == 1 else "DOES-NOT-FAIL(rc=%d)" % rm.returncode,
                                "holds" if rc_.returncode == 0 else "DOES-NOT-HOLD(rc=%d)" % rc_.returncode)
                            row[c] += " | " + f["what"] + " " + json.dumps(f["case"])[:160]
                    except Exception:
                        pass
            results.append((patch, row))
        finally:
            run(["git", "-C", REPO, "worktree", "remove", "--force", os.path.join(tmp, "repo")])
            shutil.rmtree(tmp, ignore_errors=True)
    for r in results:
        print(r[0])
        if isinstance(r[1], dict):
            for k, v in r[1].items():
                print("   %-6s %s" % (k, v))
        else:
            print("   ", r[1:])
    # the evidence files were rewritten against scratch trees: restore them by re-running on the real tree is the
    # caller's job (evidence must come from /repo)


if __name__ == "__main__":
    main()
