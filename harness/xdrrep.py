"""C01/C05: the same value held in different REPRESENTATIONS by the source (numpy dtype char and byte order, item
width, memory layout: C / Fortran / strided / reversed / offset / transposed views, `str` vs `bytes` strings, the
scalar forms) and the real memory of those arrays as a term of the Lean model (`Xdr.NpArr`, PydapModel/XdrSrc.lean)."""
import ctypes
import struct

import numpy as np

import common  # noqa: F401
import xdrlib as X
from common import hexb

try:
    from numpy.lib.array_utils import byte_bounds
except Exception:  # numpy < 2
    byte_bounds = np.byte_bounds

# dtype chars a value of each DAP2 type can be held in (the DDS then declares that very type)
CHARS = {"Byte": ["B", "?"], "Int16": ["h", "b"], "UInt16": ["H"], "Int32": ["i", "l", "q"],
         "UInt32": ["I", "L", "Q"], "Float32": ["f"], "Float64": ["d"], "String": ["S", "U"]}
LAYOUTS = ["C", "F", "strided", "strided0", "rev", "rev0", "offset", "T", "wide"]
SCALAR_FORMS = ["0d", "0d-view", "npscalar", "pyscalar", "pybytes"]


def chars_for(ty, vals):
    out = []
    for c in CHARS[ty]:
        if c == "?" and not all(v in (0, 1) for v in vals):
            continue
        if c == "b" and not all(-128 <= v <= 127 for v in vals):
            continue
        out.append(c)
    return out


def logical(ty, shape, vals, char, order, width_extra=0):
    """a C-contiguous array of dtype (char, order) holding `vals` (ints / bit patterns / bytes) in logical order"""
    if ty == "String":
        w = max([len(v) for v in vals] + [1]) + width_extra
        if char == "S":
            a = np.array(list(vals), dtype="S%d" % w)
        else:
            a = np.array([v.decode("ascii") for v in vals], dtype="%sU%d" % (order, w))
        return a.reshape(shape)
    if ty == "Float32":
        a = np.frombuffer(b"".join(struct.pack(order + "I", v) for v in vals), order + "f4").copy()
    elif ty == "Float64":
        a = np.frombuffer(b"".join(struct.pack(order + "Q", v) for v in vals), order + "f8").copy()
    elif char == "?":
        a = np.array([bool(v) for v in vals], dtype="?")
    else:
        dt = np.dtype(char)
        if dt.itemsize > 1:
            dt = dt.newbyteorder(order)
        a = np.array(list(vals), dtype=dt)
    return a.reshape(shape)


def junk(rng, shape, dtype):
    """memory that is NOT the values: a reader that takes the wrong items is seen"""
    n = int(np.prod(shape)) if len(shape) else 1
    if dtype.kind in "SU":
        return np.full(shape, "#", dtype=dtype)
    raw = bytes(rng.getrandbits(8) for _ in range(n * dtype.itemsize))
    if dtype.kind == "b":
        raw = bytes(b & 1 for b in raw)
    return np.frombuffer(raw, dtype).copy().reshape(shape)


def relayout(rng, a, layout):
    """the same logical array in another memory layout (None when the layout does not apply to this shape)"""
    sh = a.shape
    if layout == "C":
        return np.ascontiguousarray(a)
    if a.ndim == 0:
        return None
    if layout == "F":
        return np.asfortranarray(a) if a.ndim > 1 else None
    if layout == "strided":
        k = rng.choice([2, 3])
        big = junk(rng, sh[:-1] + (k * sh[-1],), a.dtype)
        v = big[..., ::k]
    elif layout == "strided0":
        k = rng.choice([2, 3])
        big = junk(rng, (k * sh[0],) + sh[1:], a.dtype)
        v = big[::k]
    elif layout == "rev":
        big = junk(rng, sh, a.dtype)
        v = big[..., ::-1]
    elif layout == "rev0":
        big = junk(rng, sh, a.dtype)
        v = big[::-1]
    elif layout == "offset":
        big = junk(rng, (sh[0] + 3,) + sh[1:], a.dtype)
        v = big[2:2 + sh[0]]
    elif layout == "T":
        if a.ndim < 2:
            return None
        big = junk(rng, sh[::-1], a.dtype)
        v = big.T
    else:
        return None
    v[...] = a
    return v


def representations(rng, ty, shape, vals, budget=6):
    """[(label, object to give to BaseType)] for the value (ty, shape, vals); shape () = scalar, vals = [v]"""
    out = []
    chars = chars_for(ty, vals)
    combos = []
    for c in chars:
        for order in "<>":
            if order == ">" and (c in "Bb?S"):
                continue
            if shape:
                for lay in LAYOUTS:
                    combos.append((c, order, lay))
            else:
                for form in SCALAR_FORMS:
                    combos.append((c, order, form))
    rng.shuffle(combos)
    # always the plain native one first
    combos.sort(key=lambda x: 0 if (x[0] == chars[0] and x[1] == "<" and x[2] in ("C", "0d")) else 1)
    for c, order, lay in combos:
        if len(out) >= budget:
            break
        if lay == "wide":
            if ty != "String":
                continue
            a = logical(ty, shape, vals, c, order, width_extra=rng.choice([1, 3]))
        else:
            a = logical(ty, shape, vals, c, order)
        if shape:
            obj = a if lay == "wide" else relayout(rng, a, lay)
        elif lay == "0d":
            obj = a
        elif lay == "0d-view":
            big = junk(rng, (4,), a.dtype)
            big[2] = a
            obj = big[2:3].reshape(())
        elif lay == "npscalar":
            if order == ">":
                continue
            obj = a[()]
        elif lay == "pyscalar":
            if order == ">":
                continue
            if ty == "String":
                if c != "U":
                    continue
                obj = vals[0].decode("ascii")
            elif c == "?":
                obj = bool(vals[0])
            elif c == "l":
                obj = int(vals[0])
            elif c == "d":
                obj = float(a[()])
                if struct.pack("<d", obj) != struct.pack("<Q", vals[0]):
                    continue        # a NaN payload a Python float does not carry over
            else:
                continue
        elif lay == "pybytes":
            if ty != "String" or c != "S":
                continue
            obj = bytes(vals[0])
        else:
            obj = None
        if obj is None:
            continue
        out.append(("%s%s/%s" % (order if c not in "Bb?S" else "|", c, lay), obj))
    return out


def arr_sexp(a):
    """the real memory of numpy array `a` as the model's NpArr term"""
    a = np.asarray(a)
    lo, hi = byte_bounds(a)
    ptr = a.__array_interface__["data"][0]
    buf = ctypes.string_at(lo, hi - lo) if hi > lo else b""
    dt = a.dtype
    chars = dt.itemsize if dt.char == "S" else dt.itemsize // 4 if dt.char == "U" else 0
    big = 1 if dt.byteorder == ">" else 0
    return "(%s %d %d (%s) (%s) %d %s)" % (dt.char, big, chars, " ".join(str(n) for n in a.shape),
                                            " ".join(str(s) for s in a.strides), ptr - lo, hexb(buf))


def data_line(ty, shape, vals):
    t = ("b", ty, tuple(shape), "v", False)
    return "%s %s" % (ty, X.data_sexp(t, vals if shape else vals[0]))


def serve_obj(obj, ce=""):
    """GET /d.dods of a dataset whose only variable holds `obj`; returns (BaseType.data as held, status, dds, xdr | None)"""
    from pydap.handlers.lib import BaseHandler
    from pydap.model import BaseType, DatasetType

    ds = DatasetType("d")
    ds["v"] = BaseType("v", obj)
    held = ds["v"].data
    r = X.get(BaseHandler(ds), "/d.dods" + (("?" + ce) if ce else ""))
    try:
        raw = r.body
    except AssertionError:
        # webob refuses a body whose length differs from the announced Content-Length: take the bytes as they come from
        # the application (the body is judged against the reference bytes; the announced length is C06's concern)
        from webob import Request
        chunks = []
        req = Request.blank("/d.dods" + (("?" + ce) if ce else ""))
        app_iter = BaseHandler(ds)(req.environ, lambda status, headers, exc_info=None: chunks.append)
        raw = b"".join(app_iter)
    if not raw.startswith(b"Dataset {") or b"Data:\n" not in raw:
        return held, r.status_int, raw[:200], None
    dds, xdr = X.split_body(raw)
    return held, r.status_int, dds, xdr


def client_read(obj):
    """the value the pydap client delivers for that variable (in-process application)"""
    from pydap.client import open_url
    from pydap.handlers.lib import BaseHandler
    from pydap.model import BaseType, DatasetType

    ds = DatasetType("d")
    ds["v"] = BaseType("v", obj)
    c = open_url("http://localhost:8001/d", application=BaseHandler(ds))
    return c["v"].data[:]


# ---------------------------------------------------------------------------------------------------
# cells of sequence records
def cell_forms(rng, ty, v, int8=False):
    """[(label, python object, model cell, big-endian?)] — the forms a record of an IterData source can hold value v in"""
    out = []
    if ty == "String":
        s = v.decode("ascii")
        cps = "(u%s)" % "".join(" %d" % c for c in v)
        out.append(("str", s, cps, 0))
        out.append(("np.str_", np.str_(s), cps, 0))
        out.append(("np.bytes_", np.bytes_(v), cps, 0))       # iterdata() decodes a numpy.bytes_ to str
        out.append(("bytes", bytes(v), "(b %s)" % hexb(v), 0))
        out.append(("0d:U", np.array(s), cps, 0))                # a 0-d array holding the string
        out.append(("0d:S", np.array(bytes(v)), "(b %s)" % hexb(v), 0))
        return out
    for c in chars_for(ty, [v]):
        if int8 and c != "b":
            continue
        for order in "<>":
            if order == ">" and c in "Bb?":
                continue
            a = logical(ty, (), [v], c, order)
            out.append(("0d:%s%s" % (order, c), a, "(n %s %d)" % (c, v), int(order == ">")))
            if order == "<":
                out.append(("np:%s" % c, a[()], "(n %s %d)" % (c, v), 0))
        if c == "l":
            out.append(("int", int(v), "(n l %d)" % v, 0))
        if c == "?":
            out.append(("bool", bool(v), "(n ? %d)" % v, 0))
        if c == "d":
            f = float(logical(ty, (), [v], c, "<")[()])
            if struct.pack("<d", f) == struct.pack("<Q", v):
                out.append(("float", f, "(n d %d)" % v, 0))
    return out
