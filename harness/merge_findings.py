"""fold known_findings.d/*.json into known_findings.json (optionally rewriting commit hashes: old=new ...)"""
import json, os, sys
V = os.path.dirname(os.path.dirname(os.path.abspath(__file__)))
main = json.load(open(os.path.join(V, "known_findings.json")))
ren = dict(a.split("=") for a in sys.argv[1:])
d = os.path.join(V, "known_findings.d")
for fn in sorted(os.listdir(d)) if os.path.isdir(d) else []:
    frag = json.load(open(os.path.join(d, fn)))
    for f in frag.get("findings", []):
        if not any(g.get("key") == f.get("key") and g.get("property") == f.get("property") for g in main["findings"]):
            main["findings"].append(f)
    for key in frag.get("retired", []):     # findings repaired since: drop them from the open list
        main["findings"] = [g for g in main["findings"] if g.get("key") != key]
    for line in frag.get("fixed", []):
        for o, n in ren.items():
            line = line.replace(o, n)
        if line not in main["fixed"]:
            main["fixed"].append(line)
    os.remove(os.path.join(d, fn))
json.dump(main, open(os.path.join(V, "known_findings.json"), "w"), indent=1)
