"""Independent DAP4 reference: abstract dataset specs, an XML (DMR) renderer, a DAP4 data-response
encoder (any byte order, any chunk partition) and a small WSGI reference server (numpy slicing).

Nothing in this module imports pydap.  It follows the DAP4 specification (volume 1):
  * DMR: <Dataset>/<Group> contain <Dimension name size>, atomic variables <Int32 name> with
    <Dim name="/fq/name"/> or <Dim size="n"/>, <Map name="/fq/var"/>, <Attribute name type [value]> with
    <Value>text</Value> or <Value value="text"/> children;
  * data response: a sequence of chunks, each = 4-byte header (1 byte flags: bit0 last, bit1 error,
    bit2 little-endian; 3 bytes big-endian size) + payload; the first chunk holds the DMR text, the
    following chunks the serialised variables in the order they are declared in the DMR (depth first), each
    followed by its 4-byte CRC32 in the response byte order.

A spec is JSON-serialisable:
  group := {"name": str, "items": [item]}
  item  := {"k": "dim", "name": str, "size": int}
         | {"k": "var", "type": str, "name": str, "dims": [{"ref": "/fq/dim"} | {"size": int}],
            "attrs": [attr], "maps": [str]}
         | {"k": "group", "name": str, "items": [...]}
         | {"k": "attr", ...attr}
  attr  := {"name": str, "type": str, "values": [[syntax, text]]}   syntax in inline|text|valattr
"""
import re
import zlib
from urllib.parse import unquote
from xml.sax.saxutils import quoteattr, escape

import numpy as np

NS = "http://xml.opendap.org/ns/DAP/4.0#"

NUMERIC = {
    "Int8": "i1", "UInt8": "u1", "Int16": "i2", "UInt16": "u2", "Int32": "i4", "UInt32": "u4",
    "Int64": "i8", "UInt64": "u8", "Float32": "f4", "Float64": "f8", "Byte": "u1", "Char": "u1",
}


# ---------------------------------------------------------------------------------------------
# spec helpers
def walk_vars(group, path=()):
    """declared atomic variables in document order: (path tuple of group names, var item)"""
    for it in group["items"]:
        if it["k"] == "var":
            yield path, it
        elif it["k"] == "group":
            for x in walk_vars(it, path + (it["name"],)):
                yield x


def walk_groups(group, path=()):
    for it in group["items"]:
        if it["k"] == "group":
            yield path + (it["name"],), it
            for x in walk_groups(it, path + (it["name"],)):
                yield x


def fqn(path, name):
    return "/" + "/".join(tuple(path) + (name,))


def dim_table(group, path=()):
    """fully qualified dimension name -> size"""
    out = {}
    for it in group["items"]:
        if it["k"] == "dim":
            out[fqn(path, it["name"])] = it["size"]
        elif it["k"] == "group":
            out.update(dim_table(it, path + (it["name"],)))
    return out


def var_shape(root, var):
    table = dim_table(root)
    return tuple(d["size"] if "size" in d else table[d["ref"]] for d in var["dims"])


def var_dim_names(var):
    """fully qualified names of the named dimensions of a variable, in order"""
    return [d["ref"] for d in var["dims"] if "ref" in d]


def max_depth(group, d=0):
    return max([d] + [max_depth(it, d + 1) for it in group["items"] if it["k"] == "group"])


# ---------------------------------------------------------------------------------------------
# DMR rendering (independent of pydap.responses.dmr)
def _attr_xml(a, ind):
    out = []
    inline = [t for (s, t) in a["values"] if s == "inline"]
    head = "%s<Attribute name=%s type=%s" % (ind, quoteattr(a["name"]), quoteattr(a["type"]))
    if inline:
        head += " value=%s" % quoteattr(inline[0])
    rest = [(s, t) for (s, t) in a["values"] if s != "inline"]
    if not rest:
        return [head + "/>"]
    out.append(head + ">")
    for s, t in rest:
        if s == "text":
            out.append("%s    <Value>%s</Value>" % (ind, escape(t)))
        else:
            out.append("%s    <Value value=%s/>" % (ind, quoteattr(t)))
    out.append("%s</Attribute>" % ind)
    return out


def _var_xml(v, ind):
    out = ["%s<%s name=%s>" % (ind, v["type"], quoteattr(v["name"]))]
    for d in v["dims"]:
        if "ref" in d:
            out.append("%s    <Dim name=%s/>" % (ind, quoteattr(d["ref"])))
        else:
            out.append("%s    <Dim size=\"%d\"/>" % (ind, d["size"]))
    for a in v.get("attrs", []):
        out += _attr_xml(a, ind + "    ")
    for m in v.get("maps", []):
        out.append("%s    <Map name=%s/>" % (ind, quoteattr(m)))
    out.append("%s</%s>" % (ind, v["type"]))
    return out


def _items_xml(items, ind):
    out = []
    for it in items:
        if it["k"] == "dim":
            out.append("%s<Dimension name=%s size=\"%d\"/>" % (ind, quoteattr(it["name"]), it["size"]))
        elif it["k"] == "var":
            out += _var_xml(it, ind)
        elif it["k"] == "attr":
            out += _attr_xml(it, ind)
        else:
            out.append("%s<Group name=%s>" % (ind, quoteattr(it["name"])))
            out += _items_xml(it["items"], ind + "    ")
            out.append("%s</Group>" % ind)
    return out


def render_dmr(root, xml_decl=True):
    lines = []
    if xml_decl:
        lines.append('<?xml version="1.0" encoding="ISO-8859-1"?>')
    lines.append('<Dataset xmlns="%s" dapVersion="4.0" dmrVersion="1.0" name=%s>' % (NS, quoteattr(root["name"])))
    lines += _items_xml(root["items"], "    ")
    lines.append("</Dataset>")
    return "\n".join(lines) + "\n"


# ---------------------------------------------------------------------------------------------
# data response
def chunk_header(size, last=False, error=False, little=True):
    assert 0 <= size < (1 << 24)
    flags = (1 if last else 0) | (2 if error else 0) | (4 if little else 0)
    return bytes([flags, (size >> 16) & 255, (size >> 8) & 255, size & 255])


def serialise(arrays, little=True):
    """variables back to back, each followed by its CRC32 in the response byte order"""
    bo = "<" if little else ">"
    out = bytearray()
    for a in arrays:
        a = np.asarray(a)
        raw = np.ascontiguousarray(a).astype(a.dtype.newbyteorder(bo)).tobytes()
        out += raw
        out += np.array(zlib.crc32(raw) & 0xFFFFFFFF, dtype=bo + "u4").tobytes()
    return bytes(out)


def chunked(payload, sizes, little=True):
    """split `payload` into chunks of the given sizes (must sum to len(payload); zero-sized chunks allowed);
    the last chunk carries the `last` flag"""
    assert sum(sizes) == len(payload)
    out = bytearray()
    pos = 0
    for i, n in enumerate(sizes):
        out += chunk_header(n, last=(i == len(sizes) - 1), little=little)
        out += payload[pos:pos + n]
        pos += n
    return bytes(out)


def encode_response(dmr_text, arrays, little=True, sizes=None):
    dmr = dmr_text.encode("ascii") + b"\r\n"
    body = serialise(arrays, little)
    if sizes is None:
        sizes = [len(body)]
    return chunk_header(len(dmr), last=False, little=little) + dmr + chunked(body, sizes, little)


def random_partition(rng, n, style=None):
    """adversarial chunk partitions of n bytes"""
    style = style or rng.choice(["one", "bytes", "small", "random", "zeros", "headsplit"])
    if style == "one" or n == 0:
        return [n]
    if style == "bytes" and n <= 600:
        return [1] * n
    if style == "small":
        k = rng.choice([2, 3, 4, 5, 7, 8])
        return [k] * (n // k) + ([n % k] if n % k else [])
    sizes = []
    left = n
    while left > 0:
        if style == "zeros" and rng.random() < 0.3:
            sizes.append(0)
            continue
        k = rng.randint(1, max(1, min(left, rng.choice([3, 4, 9, 64, left]))))
        sizes.append(k)
        left -= k
    if style == "zeros" and rng.random() < 0.5:
        sizes.append(0)
    return sizes


# ---------------------------------------------------------------------------------------------
# reference server
_HS = re.compile(r"\[([^\]]*)\]")


def parse_dap4_ce(ce):
    """`/g/v[a:s:b][i]...` -> (fq id, [slice,...]) with DAP4's inclusive last index"""
    m = re.match(r"^([^\[\]]+)((\[[^\]]*\])*)$", ce)
    if not m:
        raise ValueError(ce)
    name = m.group(1)
    slices = []
    for tok in _HS.findall(m.group(2)):
        parts = tok.split(":")
        if len(parts) == 1:
            i = int(parts[0])
            slices.append(slice(i, i + 1, 1))
        elif len(parts) == 2:
            slices.append(slice(int(parts[0]), int(parts[1]) + 1, 1))
        elif len(parts) == 3:
            slices.append(slice(int(parts[0]), int(parts[2]) + 1, int(parts[1])))
        else:
            raise ValueError(ce)
    return name, slices


class RefServer(object):
    """WSGI app: /<anything>.dmr -> the DMR; /<anything>.dap?dap4.ce=<id><hyperslab> -> data response holding
    the selected variable only (declared with anonymous dimensions of the selected extents, inside its
    groups).  `arrays` maps fully qualified variable names ("/g/v"; root: "/v") to numpy arrays."""

    def __init__(self, root, arrays, little=True, rng=None):
        self.root = root
        self.arrays = arrays
        self.little = little
        self.rng = rng
        self.requests = []
        self.overshoot = 0
        self.last = None

    def __call__(self, environ, start_response):
        path = environ.get("PATH_INFO", "")
        query = unquote(environ.get("QUERY_STRING", ""))
        self.requests.append((path, query))
        try:
            if path.endswith(".dmr"):
                body = render_dmr(self.root).encode("ascii")
                ctype = "application/vnd.opendap.dap4.dataset-metadata+xml"
            elif path.endswith(".dap"):
                body = self.dap(query)
                ctype = "application/vnd.opendap.dap4.data"
            else:
                raise KeyError(path)
        except Exception as e:  # reference server: report, never hide
            body = ("reference server error: %r" % (e,)).encode("ascii", "replace")
            start_response("400 Bad Request", [("Content-Type", "text/plain"), ("Content-Length", str(len(body)))])
            return [body]
        start_response("200 OK", [("Content-Type", ctype), ("Content-Length", str(len(body)))])
        return [body]

    def dap(self, query):
        if not query.startswith("dap4.ce="):
            raise ValueError("no dap4.ce: %r" % query)
        name, slices = parse_dap4_ce(query[len("dap4.ce="):])
        key = name if name.startswith("/") else "/" + name
        arr = self.arrays[key]
        if len(slices) > arr.ndim:
            raise ValueError("too many hyperslabs")
        for s, n in zip(slices, arr.shape):
            if s.start < 0 or s.step < 1 or s.start >= n or s.start >= s.stop:
                raise ValueError("hyperslab out of range: %r for extent %d" % (s, n))
            if s.stop > n:
                # pydap's fix_slice may leave `stop` beyond the extent for strided slices (`x[1::3]` on 2
                # elements is requested as [1:3:2]); numpy slicing clips, so does this server; counted
                self.overshoot += 1
        sel = arr[tuple(slices)]
        parts = [p for p in key.split("/") if p]
        decl = None
        for path, v in walk_vars(self.root):
            if fqn(path, v["name"]) == key:
                decl = v
        var = {"k": "var", "type": decl["type"], "name": parts[-1], "dims": [{"size": int(n)} for n in sel.shape],
               "attrs": [], "maps": []}
        node = var
        for g in reversed(parts[:-1]):
            node = {"k": "group", "name": g, "items": [node]}
        root = {"name": self.root["name"], "items": [node]}
        body = serialise([sel], self.little)
        sizes = random_partition(self.rng, len(body)) if self.rng is not None else [len(body)]
        # what was sent, for the end-to-end correspondence: DMR chunk, chunk sizes of the body, checksum word
        self.last = {"dmr": render_dmr(root), "sizes": list(sizes),
                     "crc": int(zlib.crc32(np.ascontiguousarray(sel).astype(
                         sel.dtype.newbyteorder("<" if self.little else ">")).tobytes()) & 0xFFFFFFFF)}
        return encode_response(render_dmr(root), [sel], self.little, sizes)
