"""Generators shared by the C10 and C11 checks: abstract DAP4 dataset specs (see refdap4.py), the arrays
served for them, ElementTree → S-expression for the Lean driver, canonical dumps of parsed datasets."""
import re
from xml.etree import ElementTree as ET

import numpy as np

from . import refdap4 as R

NUM_TYPES = ["Int8", "UInt8", "Int16", "UInt16", "Int32", "UInt32", "Int64", "UInt64", "Float32", "Float64"]
NAMES = ["x", "y", "t", "a", "b", "lat", "v1", "T_2", "zz", "time"]
GROUP_NAMES = ["g", "h", "G1", "sub", "data_01"]
ATTR_TYPES = NUM_TYPES + ["Byte", "String"]
FLOAT_TEXTS = [repr(float(x)) for x in ("0.0", "1.5", "-2.25", "1e20", "inf", "-inf", "nan", "3e-05", "-0.0", "6.02e23")]


def hexs(s):
    return "x" + s.encode("utf-8").hex()


def gen_attr(rng, used, types=ATTR_TYPES, messy_ints=True):
    name = rng.choice([n for n in ["units", "scale", "valid", "n", "code", "long_name", "flag"] if n not in used])
    used.add(name)
    ty = rng.choice(types)
    nvals = rng.choice([0, 1, 1, 1, 2, 3])
    vals = []
    for i in range(nvals):
        if ty == "String":
            text = rng.choice(["m", "deg C", "a b", "1", "x_y", "K"])
        elif ty.startswith("Float"):
            text = rng.choice(FLOAT_TEXTS)
        else:
            lo, hi = (0, 200) if ty[0] in "UB" else (-100, 100)
            # the declared type's own range, with its extremes and the first integers a double cannot hold
            bits = {"Byte": 8, "Int8": 8, "UInt8": 8, "Int16": 16, "UInt16": 16, "Int32": 32, "UInt32": 32,
                    "Int64": 64, "UInt64": 64}.get(ty, 8)
            tlo, thi = (0, 2 ** bits - 1) if ty[0] in "UB" else (-2 ** (bits - 1), 2 ** (bits - 1) - 1)
            wide = [tlo, thi, thi - 1, tlo + 1, rng.randint(tlo, thi)]
            if thi > 2 ** 53:
                wide += [2 ** 53 + 1, thi - 1024 + 1]
            n = rng.choice([0, 1, rng.randint(lo, hi)]) if rng.random() < 0.6 else rng.choice(wide)
            text = str(n)
            if messy_ints and rng.random() < 0.25:
                text = rng.choice(["%03d" % abs(n) if n >= 0 else str(n), "+%d" % abs(n), " %d " % n, "0%d" % abs(n)])
        syntax = rng.choice(["inline", "text", "valattr"]) if i == 0 else rng.choice(["text", "valattr"])
        vals.append([syntax, text])
    return {"k": "attr", "name": name, "type": ty, "values": vals}


QUOTED_NAMES = ["a.b", "lat.1", "v.x.y"]     # variable names that pydap stores quoted (`.` -> %2E)
# names that DAP quoting changes: blank, brackets, `&`, `.`, a literal `%`, non-ASCII (2- and 3-byte UTF-8)
QUOTED_ASCII = ["a.b", "lat.1", "a b", "t[0]", "x&y", "p%q", "v.x y"]
QUOTED_UNICODE = ["t\u00ebmp", "\u65e5\u672c"]
QUOTED_GROUPS = ["g h", "g.1", "h[2]", "gr\u00fc"]
QUOTED_DIMS = ["x y", "d.1", "n[i]"]


def dap_quote(name):
    """the stored form of a name, written from the DAP specification (independent of pydap.lib._quote):
    the UTF-8 bytes outside `A-Za-z0-9_!~*'"-/%` become %XX (upper-case hex); `/` separates path components"""
    out = []
    for b in name.encode("utf-8"):
        c = chr(b)
        if c.isascii() and (c.isalnum() or c in "_!~*'\"-/%"):
            out.append(c)
        else:
            out.append("%%%02X" % b)
    return "".join(out)


def dap_unquote(name):
    from urllib.parse import unquote
    return unquote(name)


def gen_spec(rng, max_depth=3, groups=True, mixed=True, attrs=True, types=NUM_TYPES, maxvars=4, rank_max=3,
             var_names=None, group_names=None, dim_names=None):
    """abstract dataset: dims at any level, same short names in different groups, named/anonymous/mixed Dims;
    `var_names`: alphabet of variable names (default NAMES)"""
    var_names = var_names or NAMES
    group_names = group_names or GROUP_NAMES
    dim_names = dim_names or NAMES
    all_dims = []   # fq names declared so far (any scope)
    all_vars = []

    def group(path, depth, visible):
        items = []
        used_dims, used_names = set(), set()
        visible = list(visible)
        n_dims = rng.choice([0, 1, 2, 2, 3]) if depth == 0 else rng.choice([0, 1, 2])
        for _ in range(n_dims):
            name = rng.choice(dim_names)
            if name in used_dims:
                continue
            used_dims.add(name)
            items.append({"k": "dim", "name": name, "size": rng.choice([1, 2, 2, 3, 4])})
            visible.append(R.fqn(path, name))
            all_dims.append(R.fqn(path, name))
        body = []
        for _ in range(rng.randint(0 if depth else 1, maxvars)):
            name = rng.choice(var_names)
            if name in used_names:
                continue
            used_names.add(name)
            rank = rng.choice([0, 1, 1, 2, 2, 3][: 3 + rank_max])
            style = rng.choice(["named", "named", "anon", "mixed"] if mixed else ["named", "named", "anon"])
            dims = []
            for _ in range(rank):
                pool = visible if rng.random() < 0.9 or not all_dims else all_dims
                use_named = pool and (style == "named" or (style == "mixed" and rng.random() < 0.5))
                if use_named:
                    dims.append({"ref": rng.choice(pool)})
                else:
                    dims.append({"size": rng.choice([1, 2, 3, 4])})
            v = {"k": "var", "type": rng.choice(types), "name": name, "dims": dims, "attrs": [], "maps": []}
            if attrs:
                used = set()
                for _ in range(rng.choice([0, 0, 1, 2])):
                    a = gen_attr(rng, used)
                    v["attrs"].append(a)
                if all_vars and rng.random() < 0.3:
                    v["maps"] = [rng.choice(all_vars) for _ in range(rng.randint(1, 2))]
            all_vars.append(R.fqn(path, name))
            body.append(v)
        if groups and depth < max_depth:
            for _ in range(rng.choice([0, 1, 1, 2]) if depth == 0 else rng.choice([0, 0, 1, 2])):
                name = rng.choice(group_names)
                if name in used_names:
                    continue
                used_names.add(name)
                body.append(group(path + (name,), depth + 1, visible))
                body[-1]["k"] = "group"
        if attrs:
            used = set()
            for _ in range(rng.choice([0, 0, 1])):
                body.append(gen_attr(rng, used))
        rng.shuffle(body)
        # dimensions usually first, sometimes interleaved
        if rng.random() < 0.3:
            items = items + body
            rng.shuffle(items)
        else:
            items = items + body
        return {"name": path[-1] if path else "ds", "items": items}

    root = group((), 0, [])
    root["name"] = rng.choice(["ds", "test_01", "d"])
    return root


def has_mixed(root):
    for _, v in R.walk_vars(root):
        kinds = {("ref" in d) for d in v["dims"]}
        if len(kinds) == 2:
            return True
    return False


def gen_arrays(rng, root):
    """fq name -> numpy array (native byte order) with edge values of the type"""
    out = {}
    for path, v in R.walk_vars(root):
        dt = np.dtype(R.NUMERIC[v["type"]])
        shape = R.var_shape(root, v)
        n = int(np.prod(shape, dtype=np.int64)) if shape else 1
        if dt.kind == "f":
            pool = [0.0, -0.0, 1.0, -1.5, np.inf, -np.inf, np.nan, np.finfo(dt).max, np.finfo(dt).tiny, 1e-40, 3.14159]
            vals = np.array([rng.choice(pool) if rng.random() < 0.5 else rng.uniform(-1e6, 1e6) for _ in range(n)],
                            dtype=dt)
        else:
            info = np.iinfo(dt)
            pool = [0, 1, info.min, info.max, info.max - 1, 255 & info.max, 256 & info.max]
            vals = np.array([rng.choice(pool) if rng.random() < 0.5 else rng.randint(int(info.min), int(info.max))
                             for _ in range(n)], dtype=dt)
        out[R.fqn(path, v["name"])] = vals.reshape(shape)
    return out


# ---------------------------------------------------------------------------------------------
def et_of_dmr(text):
    """what DMRParser hands to the parser functions: namespace dropped, ElementTree (trusted)"""
    return ET.fromstring(re.sub(' xmlns="[^"]+"', "", text, count=1))


def xnode_sexp(node):
    attrs = " ".join("(%s %s)" % (hexs(k), hexs(v)) for k, v in node.attrib.items())
    text = "none" if node.text is None else hexs(node.text)
    kids = " ".join(xnode_sexp(c) for c in node)
    return "(n %s (%s) %s (%s))" % (hexs(node.tag), attrs, text, kids)


def is_ascii(text):
    try:
        text.encode("ascii")
        return True
    except UnicodeError:
        return False


# ---------------------------------------------------------------------------------------------
# canonical dump of a parsed dataset (same grammar as Driver/Dmr.lean `recStr`)
HIDDEN = ("path", "Maps", "checksum")


def scalar_str(v):
    if v is None:
        return "none"
    if isinstance(v, bool):
        return "(b %s)" % v
    if isinstance(v, (int, np.integer)):
        return "(i %d)" % int(v)
    if isinstance(v, (float, np.floating)):
        return "(f %s)" % hexs(repr(float(v)))
    if isinstance(v, str):
        return "(s %s)" % hexs(v)
    return "(other %s)" % hexs(repr(v))


def attr_str(v):
    if isinstance(v, (list, tuple)):
        return "(m" + "".join(" " + scalar_str(x) for x in v) + ")"
    return scalar_str(v)


def var_key(var):
    # `var.path` lives on the DummyData and is gone once data is set: then the attribute is all there is.  Before
    # that the DummyData is asked, because a root variable may *declare* an attribute named path (C11)
    data = getattr(var, "data", None)
    path = data.path if hasattr(data, "path") else var.attributes.get("path")
    return (path + "/" + var.name) if path is not None else var.name


def own_keys(var):
    """the entries pydap itself keeps in the attributes dict of a variable parsed from a DMR (no data decoded yet):
    `Maps` (createVariable always sets it) and, for a member of a group, `path`"""
    return ("Maps",) + (("path",) if var.path is not None else ())


def rec_str(var, hidden=None):
    """`hidden`: keys of var.attributes that are not reported as attributes (default HIDDEN; C11 passes
    own_keys(var): exactly pydap's own entries, so that a *declared* attribute named path/checksum is seen)"""
    hidden = HIDDEN if hidden is None else hidden
    path = "none" if var.path is None else hexs(var.path)
    dt = np.dtype(var.dtype)
    maps = var.attributes.get("Maps", ())
    attrs = " ".join("(%s %s)" % (hexs(k), attr_str(v)) for k, v in var.attributes.items() if k not in hidden)
    return "(%s %s %s %s (%s) (%s) (%s) (%s))" % (
        hexs(var_key(var)), hexs(var.name), path, dt.kind + str(dt.itemsize),
        " ".join(hexs(d) for d in var.dims), " ".join(str(int(n)) for n in var.shape),
        " ".join("none" if m is None else hexs(m) for m in maps), attrs)


def be_hex(data, dtype=None):
    a = np.asarray(data)
    dt = np.dtype(dtype if dtype is not None else a.dtype)
    return "x" + np.ascontiguousarray(a).astype(dt.newbyteorder(">")).tobytes().hex()


def same_bits(a, b):
    """value equality as bit patterns (NaN payloads included), shapes and item kind/size included"""
    a, b = np.asarray(a), np.asarray(b)
    if a.shape != b.shape or a.dtype.kind != b.dtype.kind or a.dtype.itemsize != b.dtype.itemsize:
        return False
    return be_hex(a) == be_hex(b)


# expected attribute value from the spec (independent of pydap)
def expected_attr(a):
    ty = a["type"]
    vals = []
    for _, text in a["values"]:
        if ty == "String":
            vals.append(text)
        elif ty.startswith("Float"):
            vals.append(float(text))
        else:
            vals.append(int(text))
    if not vals:
        return None
    return vals[0] if len(vals) == 1 else vals


def attr_equal(got, exp):
    if isinstance(exp, list):
        return isinstance(got, list) and len(got) == len(exp) and all(attr_equal(g, e) for g, e in zip(got, exp))
    if exp is None:
        return got is None
    if isinstance(exp, float):
        return isinstance(got, float) and repr(got) == repr(exp)
    return type(got) is type(exp) and got == exp


# ---------------------------------------------------------------------------------------------
# abstract spec -> S-expression for the Lean spec model (PydapModel/DmrSpec.lean, Driver/DmrSpec.lean)
INT_ATTR_TYPES = ("Int8", "UInt8", "Int16", "UInt16", "Int32", "UInt32", "Int64", "UInt64", "Byte", "Char")


def _sval(ty, text):
    if ty in INT_ATTR_TYPES:
        return "(i %s %d)" % (hexs(text), int(text))
    if ty.startswith("Float"):
        return "(f %s)" % hexs(text)
    return "(s %s)" % hexs(text)


def attr_sexp(a):
    inline = [t for (s, t) in a["values"] if s == "inline"]
    rest = [(s, t) for (s, t) in a["values"] if s != "inline"]
    return "(attr %s %s %s (%s))" % (
        hexs(a["name"]), hexs(a["type"]), _sval(a["type"], inline[0]) if inline else "none",
        " ".join("(%s %s)" % ("t" if s == "text" else "v", _sval(a["type"], t)) for s, t in rest))


def items_sexp(items, table):
    out = []
    for it in items:
        if it["k"] == "dim":
            out.append("(dim %s %d)" % (hexs(it["name"]), it["size"]))
        elif it["k"] == "var":
            dims = " ".join("(r %s %d)" % (hexs(d["ref"]), table[d["ref"]]) if "ref" in d else "(a %d)" % d["size"]
                            for d in it["dims"])
            out.append("(var %s %s (%s) (%s) (%s))" % (
                hexs(it["type"]), hexs(it["name"]), dims, " ".join(attr_sexp(a) for a in it.get("attrs", [])),
                " ".join(hexs(m) for m in it.get("maps", []))))
        elif it["k"] == "attr":
            out.append(attr_sexp(it))
        else:
            out.append("(group %s (%s))" % (hexs(it["name"]), items_sexp(it["items"], table)))
    return " ".join(out)


def spec_sexp(spec):
    return "(%s)" % items_sexp(spec["items"], R.dim_table(spec))


def norm_tree_sexp(node, top=True):
    """ElementTree's tree as the Lean rendering writes it: the text of container elements (indentation) is not
    part of the model (the parser reads `.text` of <Value> only); of <Dataset>'s attributes only `name` unless
    `top` is False"""
    items = [(k, v) for k, v in node.attrib.items() if (not top or k == "name")]
    attrs = " ".join("(%s %s)" % (hexs(k), hexs(v)) for k, v in items)
    text = hexs(node.text) if (node.tag == "Value" and node.text is not None) else "none"
    kids = " ".join(norm_tree_sexp(c, False) for c in node)
    return "(n %s (%s) %s (%s))" % (hexs(node.tag), attrs, text, kids)


def layout_tags(spec):
    """where variables stand relative to sibling groups, per depth: var-before-group, var-between-groups,
    var-after-group"""
    tags = set()

    def rec(g, depth):
        kinds = [it["k"] for it in g["items"] if it["k"] in ("var", "group")]
        for i, k in enumerate(kinds):
            if k != "var":
                continue
            before = "group" in kinds[:i]
            after = "group" in kinds[i + 1:]
            if before and after:
                tags.add("depth%d:var-between-groups" % depth)
            elif before:
                tags.add("depth%d:var-after-group" % depth)
            elif after:
                tags.add("depth%d:var-before-group" % depth)
        for it in g["items"]:
            if it["k"] == "group":
                rec(it, depth + 1)
    rec(spec, 0)
    return sorted(tags)
