"""Shared by C05 and C01: generators over the DAP2 value domain, construction of pydap datasets,
S-expressions of the line protocol, an independent Python reference encoder (the oracle's codec),
canonicalisation of what the client returns, transports."""
import gzip
import io
import os
import struct
import tempfile

import numpy as np

import common  # noqa: F401  (puts $VERIF_REPO/src first on sys.path)
from common import hexb

TYPES = ["Byte", "Int16", "UInt16", "Int32", "UInt32", "Float32", "Float64", "String"]
# numpy dtype the *source* holds for each DAP2 type ("Int16b": int8 data, carried as Int16)
SRC_DTYPE = {"Byte": "u1", "Int16": "<i2", "Int16b": "i1", "UInt16": "<u2", "Int32": "<i4", "UInt32": "<u4",
             "Float32": "<f4", "Float64": "<f8"}
PARSER = {"Byte": ("u", 1), "Int16": ("i", 2), "UInt16": ("u", 2), "Int32": ("i", 4), "UInt32": ("u", 4),
          "Float32": ("f", 4), "Float64": ("f", 8), "String": ("S", None)}
RANGE = {"Byte": (0, 255), "Int16": (-32768, 32767), "UInt16": (0, 65535), "Int32": (-2 ** 31, 2 ** 31 - 1),
         "UInt32": (0, 2 ** 32 - 1)}
F32_EDGE = [0x00000000, 0x80000000, 0x3F800000, 0x7F800000, 0xFF800000, 0x7FC00000, 0x7FC12345, 0xFFC00001,
            0x00000001, 0x007FFFFF, 0x7F7FFFFF, 0xFF7FFFFF, 0x00800000, 0x40490FDB]
F64_EDGE = [0x0, 0x8000000000000000, 0x3FF0000000000000, 0x7FF0000000000000, 0xFFF0000000000000,
            0x7FF8000000000000, 0x7FF8000000012345, 0xFFF8000000000001, 0x1, 0x000FFFFFFFFFFFFF,
            0x7FEFFFFFFFFFFFFF, 0xFFEFFFFFFFFFFFFF, 0x0010000000000000, 0x400921FB54442D18]
PRINTABLE = bytes(range(32, 127))


# ---------------------------------------------------------------------------------------------------
# model-level terms.  tmpl: ("b", ty, shape, name, int8?) | ("st", name, [tmpl]) | ("gr", name, [tmpl]) |
#                           ("sq", name, [tmpl], backend)      data: value | [values] | [data] | [[data]]
def gen_value(rng, ty, int8=False):
    if ty == "String":
        r = rng.random()
        # lengths 1..9 hit every `len mod 4`; the tail crosses the parser's placeholder width (lib.STRING = |S128)
        n = (0 if r < 0.15 else rng.randint(1, 9) if r < 0.85 else rng.randint(10, 40) if r < 0.95
             else rng.choice([127, 128, 129, 130, 131, 200, 260]))
        return bytes(rng.choice(PRINTABLE) for _ in range(n))
    if ty == "Float32":
        return rng.choice(F32_EDGE) if rng.random() < 0.5 else rng.getrandbits(32)
    if ty == "Float64":
        return rng.choice(F64_EDGE) if rng.random() < 0.5 else rng.getrandbits(64)
    lo, hi = (-128, 127) if int8 else RANGE[ty]
    r = rng.random()
    if r < 0.4:
        return rng.choice([lo, hi, 0, 1, max(lo, -1), hi - 1, lo + 1])
    return rng.randint(lo, hi)


def gen_base(rng, name, max_rank=3, scalar_only=False, types=TYPES):
    ty = rng.choice(types)
    rank = 0 if scalar_only else rng.choice([0, 0, 1, 1, 2, 3][: max_rank + 3])
    shape = tuple(rng.choice([0, 1, 1, 2, 3, 4, 5]) if rng.random() < 0.9 else rng.randint(6, 12)
                  for _ in range(rank))
    int8 = ty == "Int16" and rng.random() < 0.25
    return ("b", ty, shape, name, int8)


def gen_seq(rng, name, depth, backend=None, allow_inner=True):
    backend = backend or rng.choice(["numpy", "iter", "iter"])
    ncols = rng.randint(1, 4)
    cols = [gen_base(rng, "%s_c%d" % (name, i), scalar_only=True) for i in range(ncols)]
    if backend == "iter" and allow_inner and rng.random() < 0.45:
        # the property's domain: *one* optional inner sequence (a third level fails in IterData.dtype, see notes)
        inner = gen_seq(rng, name + "_in", depth + 1, backend="iter", allow_inner=False)
        cols.insert(rng.randint(0, len(cols)), inner)
    return ("sq", name, cols, backend)


def gen_tmpl_var(rng, name, depth):
    r = rng.random()
    if depth >= 3 or r < 0.45:
        return gen_base(rng, name)
    if r < 0.62:
        n = rng.randint(1, 3)
        return ("st", name, [gen_tmpl_var(rng, "%s_m%d" % (name, i), depth + 1) for i in range(n)])
    if r < 0.74:
        # a grid: numeric array + one 1-d map per axis
        ty = rng.choice([t for t in TYPES if t != "String"])
        rank = rng.randint(1, 3)
        shape = tuple(rng.randint(1, 4) for _ in range(rank))
        arr = ("b", ty, shape, name + "_a", False)
        maps = [("b", rng.choice(["Int32", "Float64", "Float32", "Int16", "Byte"]), (shape[i],),
                 "%s_x%d" % (name, i), False) for i in range(rank)]
        return ("gr", name, [arr] + maps)
    return gen_seq(rng, name, 0)


def gen_dataset(rng, nvars=None):
    n = nvars or rng.randint(1, 4)
    return ("st", "d", [gen_tmpl_var(rng, "v%d" % i, 1) for i in range(n)])


def gen_data(rng, t, nrows=None):
    k = t[0]
    if k == "b":
        _, ty, shape, _, int8 = t
        if not shape:
            return gen_value(rng, ty, int8)
        return [gen_value(rng, ty, int8) for _ in range(int(np.prod(shape)))]
    if k in ("st", "gr"):
        return [gen_data(rng, c) for c in t[2]]
    n = nrows if nrows is not None else rng.choice([0, 1, 1, 2, 3, 4])
    return [[gen_data(rng, c) for c in t[2]] for _ in range(n)]


LAST_KINDS = ["str0", "str4", "str8", "str5", "byte4", "byte8", "byte5", "zero-extent", "scalar", "sequence",
              "strarr-last0", "strarr-last4", "struct-last-str4", "grid-last-byte4", "only-str0", "only-byte4"]


def last_variable(rng, kind, name="z"):
    """(declaration, data) of a variable that is to be the LAST one of a dataset: what the decoder reads last
    decides whether its final `read` has length 0 (no padding due / empty body) or not"""
    pr = lambda n: bytes(rng.choice(PRINTABLE) for _ in range(n))
    kind = kind.replace("only-", "")
    if kind.startswith("strarr-last"):
        n = rng.randint(1, 3)
        vals = [gen_value(rng, "String") for _ in range(n - 1)] + [pr(int(kind[11:]) * rng.choice([1, 2]))]
        return ("b", "String", (n,), name, False), vals
    if kind.startswith("str") and kind[3:].isdigit():
        return ("b", "String", (), name, False), pr(int(kind[3:]))
    if kind.startswith("byte"):
        n = int(kind[4:])
        t = ("b", "Byte", (n,) if rng.random() < 0.6 else (n // 4, 4) if n % 4 == 0 else (1, n), name, False)
        return t, gen_data(rng, t)
    if kind == "zero-extent":
        ty = rng.choice(TYPES)
        t = ("b", ty, rng.choice([(0,), (3, 0), (0, 2), (2, 0, 2)]), name, False)
        return t, []
    if kind == "scalar":
        t = ("b", rng.choice([x for x in TYPES if x != "String"]), (), name, False)
        return t, gen_data(rng, t)
    if kind == "sequence":
        t = gen_seq(rng, name, 0)
        return t, gen_data(rng, t)
    if kind == "struct-last-str4":
        m, x = last_variable(rng, "str4", name + "_s")
        first = gen_base(rng, name + "_a")
        return ("st", name, [first, m]), [gen_data(rng, first), x]
    if kind == "grid-last-byte4":
        arr = ("b", "Int32", (4,), name + "_a", False)
        mp = ("b", "Byte", (4,), name + "_x0", False)
        return ("gr", name, [arr, mp]), [gen_data(rng, arr), gen_data(rng, mp)]
    raise ValueError(kind)


def last_variable_datasets(rng, reps):
    """datasets whose last variable is of each LAST_KINDS kind, after 0..2 arbitrary variables"""
    for kind in LAST_KINDS:
        for r in range(reps):
            npre = 0 if kind.startswith("only-") else rng.randint(0 if r else 1, 2)
            pre = [gen_tmpl_var(rng, "v%d" % i, 1) for i in range(npre)]
            lt, ld = last_variable(rng, kind)
            t = ("st", "d", pre + [lt])
            yield kind, t, [gen_data(rng, c) for c in pre] + [ld]


def has_seq(t):
    return t[0] == "sq" or (t[0] in ("st", "gr") and any(has_seq(c) for c in t[2]))


def walk_t(t):
    yield t
    if t[0] != "b":
        for c in t[2]:
            for x in walk_t(c):
                yield x


# ---------------------------------------------------------------------------------------------------
# S-expressions
def tmpl_sexp(t):
    if t[0] == "b":
        return "(b %s (%s))" % (t[1], " ".join(str(n) for n in t[2]))
    return "(%s %s)" % ("sq" if t[0] == "sq" else "st", " ".join(tmpl_sexp(c) for c in t[2]))


def val_sexp(ty, v):
    if ty == "String":
        return "(s %s)" % hexb(v)
    return "(n %d)" % v


def data_sexp(t, d):
    if t[0] == "b":
        if not t[2]:
            return "(sc %s)" % val_sexp(t[1], d)
        return "(ar%s)" % "".join(" " + val_sexp(t[1], v) for v in d)
    if t[0] in ("st", "gr"):
        return "(tu%s)" % "".join(" " + data_sexp(c, x) for c, x in zip(t[2], d))
    return "(ro%s)" % "".join(" (tu%s)" % "".join(" " + data_sexp(c, x) for c, x in zip(t[2], row)) for row in d)


# ---------------------------------------------------------------------------------------------------
# independent reference encoder (the oracle's codec; DAP2 rules, no pydap, no Lean)
def ref_val(ty, v):
    if ty == "String":
        return struct.pack(">I", len(v)) + v + b"\0" * (-len(v) % 4)
    if ty == "Float64":
        return struct.pack(">Q", v)
    if ty == "Float32":
        return struct.pack(">I", v)
    if ty == "Byte":
        return bytes([v])
    if ty in ("Int16", "Int32"):
        return struct.pack(">i", v)
    return struct.pack(">I", v)


def ref_enc(t, d):
    if t[0] == "b":
        ty, shape = t[1], t[2]
        if not shape:
            out = ref_val(ty, d)
            return out + b"\0\0\0" if ty == "Byte" else out
        n = struct.pack(">I", len(d))
        body = b"".join(ref_val(ty, v) for v in d)
        if ty == "String":
            return n + body
        if ty == "Byte":
            body += b"\0" * (-len(d) % 4)
        return n + n + body
    if t[0] in ("st", "gr"):
        return b"".join(ref_enc(c, x) for c, x in zip(t[2], d))
    out = b""
    for row in d:
        out += b"\x5a\0\0\0" + b"".join(ref_enc(c, x) for c, x in zip(t[2], row))
    return out + b"\xa5\0\0\0"


def ref_dds(t, indent=0, top=True):
    """reference DDS text written from the DAP2 grammar as pydap prints it (only used to feed
    reference-encoded responses to the client; the DDS round trip itself is C07's)"""
    pad = "    " * indent
    if top:
        return "Dataset {\n" + "".join(ref_dds(c, 1, False) for c in t[2]) + "} %s;\n" % t[1]
    if t[0] == "b":
        dims = "".join("[%d]" % n for n in t[2])
        return "%s%s %s%s;\n" % (pad, t[1], t[3], dims)
    if t[0] == "st":
        return "%sStructure {\n%s%s} %s;\n" % (pad, "".join(ref_dds(c, indent + 1, False) for c in t[2]), pad, t[1])
    if t[0] == "sq":
        return "%sSequence {\n%s%s} %s;\n" % (pad, "".join(ref_dds(c, indent + 1, False) for c in t[2]), pad, t[1])
    arr, maps = t[2][0], t[2][1:]
    dims = "".join("[%s = %d]" % (m[3], m[2][0]) for m in maps)
    a = "%s    %s %s%s;\n" % (pad + "    ", arr[1], arr[3], dims)
    ms = "".join("%s    %s %s[%s = %d];\n" % (pad + "    ", m[1], m[3], m[3], m[2][0]) for m in maps)
    return "%sGrid {\n%s    Array:\n%s%s    Maps:\n%s%s} %s;\n" % (pad, pad, a, pad, ms, pad, t[1])


# ---------------------------------------------------------------------------------------------------
# building the served dataset
def np_value(ty, v, int8=False):
    if ty == "String":
        return v.decode("ascii")
    if ty == "Float32":
        return np.frombuffer(struct.pack("<I", v), "<f4")[0]
    if ty == "Float64":
        return np.frombuffer(struct.pack("<Q", v), "<f8")[0]
    return np.dtype(SRC_DTYPE["Int16b" if int8 else ty]).type(v)


def source_rep(name, shape, vals):
    """how the SOURCE holds an array (same values, same DAP2 type): 0 native and contiguous, 1 big-endian, 2 a strided
    view of a larger buffer, 3 big-endian in Fortran order.  A function of the case, so a replay rebuilds the same source."""
    import zlib
    return zlib.crc32(repr((name, tuple(shape), list(vals)[:6])).encode()) % 4


def np_array(ty, shape, vals, int8=False, rep=0):
    if ty == "String":
        w = max([len(v) for v in vals] + [1])
        if rep in (1, 3):
            a = np.array(list(vals), dtype="S%d" % w)       # strings held as bytes (what files and parsers deliver)
        else:
            a = np.array([v.decode("ascii") for v in vals], dtype="U%d" % w)
    elif ty == "Float32":
        a = np.frombuffer(b"".join(struct.pack("<I", v) for v in vals), "<f4").copy()
    elif ty == "Float64":
        a = np.frombuffer(b"".join(struct.pack("<Q", v) for v in vals), "<f8").copy()
    else:
        a = np.array(vals, dtype=SRC_DTYPE["Int16b" if int8 else ty])
    a = a.reshape(shape)
    if ty != "String" and rep in (1, 3) and a.dtype.itemsize > 1:
        # bit-exact (astype would quieten signalling NaNs): swap the bytes and relabel the dtype
        a = a.byteswap().view(a.dtype.newbyteorder(">"))
    if rep == 2 and a.ndim:
        big = np.zeros(a.shape[:-1] + (2 * a.shape[-1],), dtype=a.dtype)
        big[..., ::2] = a
        a = big[..., ::2]
    if rep == 3 and a.ndim > 1:
        a = np.asfortranarray(a)
    return a


def iter_rows(t, rows):
    """records of an IterData source: numpy scalars / str / list of inner records"""
    out = []
    for row in rows:
        rec = []
        for c, x in zip(t[2], row):
            if c[0] == "sq":
                rec.append(iter_rows(c, x))
            else:
                rec.append(np_value(c[1], x, c[4]))
        out.append(tuple(rec))
    return out


def build_var(t, d):
    from pydap.handlers.lib import IterData
    from pydap.model import BaseType, GridType, SequenceType, StructureType

    if t[0] == "b":
        _, ty, shape, name, int8 = t
        if shape:
            return BaseType(name, np_array(ty, shape, d, int8, rep=source_rep(name, shape, d)))
        if ty == "String":
            return BaseType(name, np.array(d.decode("ascii")))
        return BaseType(name, np.array(np_value(ty, d, int8)))
    if t[0] == "st":
        s = StructureType(t[1])
        for c, x in zip(t[2], d):
            s[c[3] if c[0] == "b" else c[1]] = build_var(c, x)
        return s
    if t[0] == "gr":
        g = GridType(t[1])
        for i, (c, x) in enumerate(zip(t[2], d)):
            v = build_var(c, x)
            if i == 0:
                v.dims = tuple(m[3] for m in t[2][1:])
                v.dimensions = v.dims
            g[c[3]] = v
        return g
    seq = build_seq_template(t)
    if t[3] == "numpy":
        fields = []
        for c in t[2]:
            if c[1] == "String":
                w = max([len(row[i]) for row in d for i, cc in enumerate(t[2]) if cc is c] + [1])
                fields.append((c[3], "S%d" % w))
            else:
                dt = SRC_DTYPE["Int16b" if c[4] else c[1]]
                if source_rep(c[3], (len(d),), [row[0] for row in d][:0]) % 2 and np.dtype(dt).itemsize > 1:
                    dt = ">" + dt.lstrip("<")        # a record array whose fields are big-endian
                fields.append((c[3], dt))
        arr = np.zeros((len(d),), dtype=fields)
        for r, row in enumerate(d):
            for c, x in zip(t[2], row):
                if c[1] == "String":
                    arr[c[3]][r] = x
                elif c[1] == "Float32":
                    arr[c[3]][r] = np.frombuffer(struct.pack("<I", x), "<f4")[0]
                elif c[1] == "Float64":
                    arr[c[3]][r] = np.frombuffer(struct.pack("<Q", x), "<f8")[0]
                else:
                    arr[c[3]][r] = x
        seq.data = arr
    else:
        seq.data = IterData(iter_rows(t, d), seq)
    return seq


def build_seq_template(t):
    from pydap.model import BaseType, SequenceType

    seq = SequenceType(t[1])
    for c in t[2]:
        if c[0] == "sq":
            seq[c[1]] = build_seq_template(c)
        else:
            seq[c[3]] = BaseType(c[3])
    return seq


def build_dataset(t, d):
    from pydap.model import DatasetType

    ds = DatasetType(t[1])
    for c, x in zip(t[2], d):
        ds[c[3] if c[0] == "b" else c[1]] = build_var(c, x)
    return ds


# ---------------------------------------------------------------------------------------------------
# canonical value of what pydap hands back
def bits_of(ty, x):
    if ty == "Float32":
        return int.from_bytes(np.asarray(x, dtype=">f4").tobytes(), "big")
    if ty == "Float64":
        return int.from_bytes(np.asarray(x, dtype=">f8").tobytes(), "big")
    return int(x)


def as_bytes(x):
    if isinstance(x, bytes):
        return bytes(x)
    if isinstance(x, str):
        return x.encode("ascii")
    if hasattr(x, "tobytes") and getattr(x, "dtype", None) is not None and x.dtype.char == "S":
        return bytes(x.tobytes()).rstrip(b"\0") if False else bytes(x)
    return str(x).encode("ascii")


def type_ok(ty, dtype):
    """the dtype the client declares/returns carries DAP2 type `ty`"""
    k, w = PARSER[ty]
    if ty == "String":
        return dtype.kind in "SU"
    return dtype.kind == k and dtype.itemsize == w


def canon(t, x, problems=None):
    """client-side value -> model-level data (same shape as the generator's); type problems are appended"""
    if t[0] == "b":
        ty, shape = t[1], t[2]
        if not shape:
            if ty == "String":
                if isinstance(x, np.ndarray):
                    x = x[()] if x.shape == () else x.reshape(-1)[0]
                return as_bytes(x)
            if isinstance(x, np.ndarray):
                if problems is not None and not type_ok(ty, x.dtype):
                    problems.append("dtype %s for %s" % (x.dtype, ty))
                x = x[()] if x.shape == () else x.reshape(-1)[0]
            elif problems is not None and hasattr(x, "dtype") and not type_ok(ty, x.dtype):
                problems.append("dtype %s for %s" % (x.dtype, ty))
            return bits_of(ty, x)
        a = np.asarray(x)
        if problems is not None:
            if tuple(a.shape) != tuple(shape):
                problems.append("shape %s for %s" % (a.shape, shape))
            if not type_ok(ty, a.dtype):
                problems.append("dtype %s for %s" % (a.dtype, ty))
        flat = a.reshape(-1)
        if ty == "String":
            return [as_bytes(v) for v in flat]
        if ty in ("Float32", "Float64"):
            w = 4 if ty == "Float32" else 8
            raw = np.ascontiguousarray(flat.astype(">f%d" % w)).tobytes() if flat.dtype.itemsize != w or \
                flat.dtype.kind != "f" else np.ascontiguousarray(flat).astype(">f%d" % w).tobytes()
            return [int.from_bytes(raw[i * w:(i + 1) * w], "big") for i in range(len(flat))]
        return [int(v) for v in flat]
    if t[0] in ("st", "gr"):
        return [canon(c, v, problems) for c, v in zip(t[2], x)]
    rows = []
    for rec in x:
        if t[2] and len(t[2]) == 1 and not isinstance(rec, (tuple, list, np.void)):
            rec = (rec,)
        rows.append([canon(c, v, problems) for c, v in zip(t[2], tuple(rec))])
    return rows


# ---------------------------------------------------------------------------------------------------
# talking to pydap
def get(app, path, gz=False):
    from webob import Request

    req = Request.blank(path)
    if gz:
        req.headers["Accept-Encoding"] = "gzip"
    return req.get_response(app)


def split_body(raw):
    i = raw.find(b"Data:\n")
    return raw[:i], raw[i + 6:]


class CannedApp(object):
    """WSGI app that answers every .dods request with a fixed body and .dds/.das with fixed text"""

    def __init__(self, dds, dods_for, chunker=None):
        self.dds = dds
        self.dods_for = dods_for     # callable(query) -> bytes
        self.chunker = chunker       # callable(bytes) -> list of chunks (the app_iter of a .dods response)

    def __call__(self, environ, start_response):
        path = environ.get("PATH_INFO", "")
        q = environ.get("QUERY_STRING", "")
        if path.endswith(".dds"):
            body, ctype = self.dds.encode("ascii"), "text/plain"
        elif path.endswith(".das"):
            body, ctype = b"Attributes {\n}\n", "text/plain"
        else:
            body, ctype = self.dods_for(q), "application/octet-stream"
        start_response("200 OK", [("Content-Type", ctype), ("Content-Length", str(len(body))),
                                  ("XDODS-Server", "pydap/ref"), ("Content-Description", "dods_data")])
        if self.chunker is not None and not path.endswith((".dds", ".das")):
            return list(self.chunker(body))
        return [body]


def wsgi_session(app, gz=False, log=None):
    """requests.Session whose http:// traffic is dispatched to a WSGI app (optionally gzip-coded)"""
    import requests
    from requests.adapters import BaseAdapter
    from urllib3.response import HTTPResponse
    from urllib.parse import urlsplit

    class Adapter(BaseAdapter):
        def send(self, request, **kw):
            u = urlsplit(request.url)
            if log is not None:
                log.append(request.url)
            environ = {"REQUEST_METHOD": request.method, "PATH_INFO": requests.utils.unquote(u.path),
                       "QUERY_STRING": u.query, "SERVER_NAME": u.hostname or "localhost", "SERVER_PORT": "80",
                       "wsgi.url_scheme": "http", "wsgi.input": io.BytesIO(b""), "wsgi.errors": io.StringIO(),
                       "wsgi.version": (1, 0), "wsgi.multithread": False, "wsgi.multiprocess": False,
                       "wsgi.run_once": False, "SCRIPT_NAME": "", "SERVER_PROTOCOL": "HTTP/1.1",
                       "HTTP_HOST": u.netloc}
            status_headers = {}

            def start_response(status, headers, exc_info=None):
                status_headers["status"] = status
                status_headers["headers"] = headers

            chunks = list(app(environ, start_response))
            body = b"".join(chunks)
            headers = [(k, v) for k, v in status_headers["headers"] if k.lower() != "content-length"]
            if gz:
                body = gzip.compress(body)
                headers.append(("Content-Encoding", "gzip"))
            headers.append(("Content-Length", str(len(body))))
            raw = HTTPResponse(body=io.BytesIO(body), headers=headers,
                               status=int(status_headers["status"].split()[0]), preload_content=False,
                               decode_content=False)
            resp = requests.Response()
            resp.status_code = raw.status
            resp.headers = requests.structures.CaseInsensitiveDict(dict(headers))
            resp.raw = raw
            resp.url = request.url
            resp.request = request
            resp.encoding = None
            return resp

        def close(self):
            pass

    s = requests.Session()
    s.mount("http://", Adapter())
    s.mount("https://", Adapter())
    return s


def read_client_var(cvar, t):
    """everything the client delivers for one top-level variable, as raw Python objects"""
    if t[0] == "b":
        v = cvar.data[:] if t[2] else cvar.data[:]
        return v
    if t[0] == "sq":
        return list(materialise_rows(cvar.iterdata(), t))
    return [read_client_var(cvar[c[3] if c[0] == "b" else c[1]], c) for c in t[2]]


def materialise_rows(it, t):
    for rec in it:
        rec = tuple(rec)
        out = []
        for c, v in zip(t[2], rec):
            out.append(list(materialise_rows(iter(v), c)) if c[0] == "sq" else v)
        yield tuple(out)


def decoded_to_raw(values, t):
    """result of unpack_dap2_data (list per top-level variable) -> nested python objects for `canon`"""
    def one(c, v):
        if c[0] == "sq":
            return list(materialise_rows(iter(v), c))
        if c[0] in ("st", "gr"):
            return [one(cc, vv) for cc, vv in zip(c[2], v)]
        return v
    return [one(c, v) for c, v in zip(t[2], values)]


def save_dods(raw):
    fd, path = tempfile.mkstemp(suffix=".dods", prefix="verif-xdr-")
    with os.fdopen(fd, "wb") as f:
        f.write(raw)
    return path


# ---------------------------------------------------------------------------------------------------
# streaming paths: the same bytes delivered in pieces (StreamReader, open_dods_url, SequenceProxy.__iter__)
CHUNKINGS = ["whole", "bytes", "last1", "reads", "random"]


def chunk(blob, how, seed=0, reads=None):
    """`blob` cut into chunks (b"".join(result) == blob).  whole: one chunk; bytes: 1-byte chunks; last1: a
    boundary right before the last byte; reads: a boundary wherever the decoder's reads end (every read is
    answered by exactly one chunk, the buffer is empty after each) ; random: a seeded partition with empty chunks"""
    if how == "whole":
        return [blob]
    if how == "bytes":
        return [blob[i:i + 1] for i in range(len(blob))]
    if how == "last1":
        return [blob[:-1], blob[-1:]] if len(blob) > 1 else [blob]
    if how == "reads":
        out, pos = [], 0
        for n in reads or []:
            if n and pos + n <= len(blob):
                out.append(blob[pos:pos + n])
                pos += n
        if pos < len(blob):
            out.append(blob[pos:])
        return out
    import random
    r = random.Random(seed * 7919 + len(blob))
    out, pos = [], 0
    while pos < len(blob):
        k = r.choice([0, 1, 1, 2, 3, 4, 5, 8, 13, 64])
        out.append(blob[pos:pos + k])
        pos += k
    if r.random() < 0.3:
        out.append(b"")
    return out


class Rechunk(object):
    """WSGI middleware: re-delivers every response body in other chunks (what a proxy / the network does)"""

    def __init__(self, app, how, seed=0):
        self.app, self.how, self.seed = app, how, seed

    def __call__(self, environ, start_response):
        body = b"".join(self.app(environ, start_response))
        return chunk(body, self.how, self.seed)


class TracingBytesReader(object):
    """a strict reader that records the sizes asked for (harness-side; used to cut a stream at the read ends)"""

    def __init__(self, data):
        self.data, self.reads = data, []

    def read(self, n):
        n = int(n)
        self.reads.append(n)
        out = self.data[:n]
        if len(out) < n:
            raise EOFError("short")
        self.data = self.data[n:]
        return out


def read_decoded_var(v, t):
    """values of a dataset whose data is already decoded (open_dods_file, open_dods_url)"""
    if t[0] == "b":
        return v.data
    if t[0] == "sq":
        return list(materialise_rows(iter(v.data), t))
    return [read_decoded_var(v[c[3] if c[0] == "b" else c[1]], c) for c in t[2]]
