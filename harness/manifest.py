"""Writes MANIFEST.json from the table below (kept in one place so it stays valid)."""
import json
import os

VERIF = os.path.dirname(os.path.dirname(os.path.abspath(__file__)))

BASE = ("cd /repo && env -u PYDAP_VERIF /venv/bin/python -m pytest -ra -q -p no:cacheprovider --timeout=900 "
        "--continue-on-collection-errors")

NOTE = ("Trusted: Lean 4.33.0 kernel (axioms audited per theorem on every run: propext, Classical.choice, Quot.sound "
        "only; no native_decide/bv_decide/sorry), the table extractor harness/extract.py, the correspondence harness "
        "and driver; numpy/webob/requests/ElementTree/netCDF4 are modelled, not verified. ")

CHECKS = {}

NOT_YET = {}

_d = os.path.join(VERIF, "harness", "props")
for _fn in sorted(os.listdir(_d)):
    if _fn.endswith(".manifest.json"):
        with open(os.path.join(_d, _fn)) as _f:
            _e = json.load(_f)
        CHECKS[_e["property_id"]] = _e


def main():
    checks = []
    for pid in sorted(CHECKS):
        c = CHECKS[pid]
        checks.append({
            "property_id": pid,
            "quick_cmd": "./check %s --tier quick" % pid,
            "thorough_cmd": "./check %s --tier thorough" % pid,
            "evidence_file": "evidence/%s.json" % pid,
            "replay_cmd_template": "./check %s --replay {path}" % pid,
            "engine": "lean4-model",
            "level_claimed": {"category": c.get("category", "proof"), "text": c["text"],
                              "design_ref": "DESIGN.md section " + c["design"]},
            "level_note": NOTE + c["note"],
            "technique": c["technique"],
        })
    props = [json.loads(l)["id"] for l in open(os.path.join(VERIF, "properties.jsonl"))]
    na = [{"property_id": p, "reason": NOT_YET.get(p, "check not yet built (work in progress; the technique applies, "
                                                   "see DESIGN.md section 7)")}
          for p in props if p not in CHECKS]
    m = {
        "version": 1,
        "setup_cmd": "/venv/bin/python harness/extract.py --write && cd lean && lake build PydapModel Driver Proofs Props driver",
        "hooks": {"guard": "PYDAP_VERIF", "enable": "no source hooks: all instrumentation is installed from the "
                  "harness process (monkey-patched wrappers, sys.addaudithook, sys.settrace, requests adapters)",
                  "baseline_off_cmd": BASE, "source_commits": [], "add_only": True},
        "engines": [{"name": "lean4-model", "path": "lean/", "serves_properties": sorted(CHECKS),
                     "kind_free_text": "hand-written Lean 4 model + theorems (Props/), tables regenerated from source, "
                                       "differential correspondence through lean/Main.lean driven by harness/"}],
        "checks": checks,
        "not_applicable": na,
        "notes": "exit 2 = infrastructure failure/timeouts, never a violation. VERIF_REPO selects the tree under test "
                 "(default /repo). Fixed defects and open findings: known_findings.json.",
    }
    with open(os.path.join(VERIF, "MANIFEST.json"), "w") as f:
        json.dump(m, f, indent=1)


if __name__ == "__main__":
    main()
