"""Run every registered check (or the named ones) on the tree under test, several seeds, in parallel, and summarise.
   /venv/bin/python harness/runall.py [--tier quick] [--seeds 0,1,2] [--jobs 6] [C03 C05 ...]
Evidence files are validated against the schema after the runs."""
import argparse
import concurrent.futures as cf
import json
import os
import subprocess
import time

VERIF = os.path.dirname(os.path.dirname(os.path.abspath(__file__)))


def one(pid, tier, seed):
    t0 = time.time()
    env = dict(os.environ, VERIF_SEED=str(seed))
    p = subprocess.run([os.path.join(VERIF, "check"), pid, "--tier", tier], cwd=VERIF, env=env,
                       stdout=subprocess.PIPE, stderr=subprocess.STDOUT, text=True)
    lines = [l for l in p.stdout.splitlines() if l.startswith(("VIOLATION", "KNOWN-FINDING", "INFRA"))]
    return pid, seed, p.returncode, round(time.time() - t0, 1), lines, p.stdout[-1500:] if p.returncode not in (0,) else ""


def main():
    ap = argparse.ArgumentParser()
    ap.add_argument("--tier", default="quick")
    ap.add_argument("--seeds", default="0")
    ap.add_argument("--jobs", type=int, default=6)
    ap.add_argument("props", nargs="*")
    a = ap.parse_args()
    m = json.load(open(os.path.join(VERIF, "MANIFEST.json")))
    props = a.props or [c["property_id"] for c in m["checks"]]
    seeds = [int(s) for s in a.seeds.split(",")]
    bad = 0
    for seed in seeds:      # same property never runs twice at once (one evidence file per property)
        with cf.ThreadPoolExecutor(a.jobs) as ex:
            for pid, s, rc, dt, lines, tail in ex.map(lambda p: one(p, a.tier, seed), props):
                print("%s seed=%d rc=%d %5.1fs %s" % (pid, s, rc, dt, " | ".join(l[:150] for l in lines)))
                if rc != 0:
                    bad += 1
                    print("   " + tail.replace("\n", "\n   "))
    try:
        import jsonschema
        schema = json.load(open("/root/.vp/EVIDENCE.schema.json"))
        for pid in props:
            jsonschema.validate(json.load(open(os.path.join(VERIF, "evidence", pid + ".json"))), schema)
        print("evidence files valid")
    except ImportError:
        print("(jsonschema not importable here; run with python3-vt to validate evidence)")
    return 1 if bad else 0


if __name__ == "__main__":
    raise SystemExit(main())
