"""./check <id> [--tier quick|thorough] [--replay file]   exit 0 ok / 1 violation / 2 infrastructure"""
import argparse
import importlib
import json
import os
import sys
import traceback

sys.path.insert(0, os.path.dirname(os.path.abspath(__file__)))
import common  # noqa: E402


def main():
    ap = argparse.ArgumentParser()
    ap.add_argument("prop")
    ap.add_argument("--tier", default=os.environ.get("VERIF_TIER", "quick"), choices=["quick", "thorough"])
    ap.add_argument("--replay", default=None)
    a = ap.parse_args()
    try:
        seed = int(os.environ.get("VERIF_SEED", "0"))
    except ValueError:
        seed = 0
    mod = importlib.import_module("props.%s" % a.prop.lower())
    if a.replay:
        with open(a.replay) as f:
            payload = json.load(f)
        ok = mod.replay(payload)
        if ok and payload.get("kind") == "failing-input" and not os.environ.get("VERIF_HISTORY_REPLAY"):
            # The recorded case holds when it is run alone in a fresh process.  It may depend on what the process had done
            # before it (state kept across datasets or requests): repeat the run it came from — same seed, same tier,
            # hence the same cases in the same order — without touching the replay and evidence files.
            import subprocess
            print("the recorded case alone holds; repeating the run it came from (seed %s, tier %s)" % (
                payload.get("seed", 0), payload.get("tier", "quick")))
            env = dict(os.environ, VERIF_HISTORY_REPLAY="1", VERIF_SEED=str(payload.get("seed", 0)))
            here = os.path.dirname(os.path.dirname(os.path.abspath(__file__)))
            p = subprocess.run([os.path.join(here, "check"), a.prop, "--tier", payload.get("tier", "quick")], env=env,
                               stdout=subprocess.PIPE, stderr=subprocess.STDOUT, text=True)
            for line in p.stdout.splitlines():
                if line.startswith(("VIOLATION", "KNOWN-FINDING", "INFRASTRUCTURE")):
                    print("  (run) " + line)
            if p.returncode not in (0, 1):
                print("replay: the run could not be repeated (exit %d)" % p.returncode)
                return 2
            ok = p.returncode == 0
        print("replay: property %s on this tree" % ("HOLDS" if ok else "FAILS"))
        return 0 if ok else 1
    ctx = common.Ctx(a.prop, a.tier, seed, level=getattr(mod, "LEVEL", "proof"))
    try:
        return mod.run(ctx)
    except common.InfraError as e:
        print("INFRASTRUCTURE-ERROR property=%s %s" % (a.prop, e), file=sys.stderr)
        return 2
    except Exception as e:
        traceback.print_exc()
        # An exception raised INSIDE the implementation (innermost frames under $VERIF_REPO/src) that the harness did
        # not expect means the correspondence run could not be carried out on the code as it is now: the property is
        # no longer shown to hold.  Reported as the brief prescribes for a broken correspondence without a failing
        # input.  An exception raised by harness code itself stays an infrastructure error.
        repo_src = os.path.realpath(os.path.join(os.environ.get("VERIF_REPO", "/repo"), "src")) + os.sep
        frames = traceback.extract_tb(e.__traceback__)
        if frames and os.path.realpath(frames[-1].filename).startswith(repo_src):
            payload = {"property": a.prop, "kind": "no-failing-input-found", "seed": seed, "tier": a.tier,
                       "no_longer_checks": ["correspondence run of %s: the implementation raised %s where the harness "
                                            "expects none (%s:%d)" % (a.prop, type(e).__name__,
                                                                      frames[-1].filename[len(repo_src):], frames[-1].lineno)],
                       "traceback": traceback.format_exc()[-3000:]}
            path = ctx.write_replay(payload)
            try:
                ctx.write_evidence(1)
            except Exception:
                pass
            print("VIOLATION property=%s replay=%s no-failing-input-found" % (a.prop, path))
            return 1
        print("INFRASTRUCTURE-ERROR property=%s (unexpected exception in the harness)" % a.prop, file=sys.stderr)
        return 2


if __name__ == "__main__":
    sys.exit(main())
