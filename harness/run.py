"""./check <id> [--tier quick|thorough] [--replay file]   exit 0 ok / 1 violation / 2 infrastructure"""
import argparse
import importlib
import json
import os
import sys
import traceback

sys.path.insert(0, os.path.dirname(os.path.abspath(__file__)))
import common  # noqa: E402


def main():
    ap = argparse.ArgumentParser()
    ap.add_argument("prop")
    ap.add_argument("--tier", default=os.environ.get("VERIF_TIER", "quick"), choices=["quick", "thorough"])
    ap.add_argument("--replay", default=None)
    a = ap.parse_args()
    try:
        seed = int(os.environ.get("VERIF_SEED", "0"))
    except ValueError:
        seed = 0
    mod = importlib.import_module("props.%s" % a.prop.lower())
    if a.replay:
        with open(a.replay) as f:
            payload = json.load(f)
        ok = mod.replay(payload)
        print("replay: property %s on this tree" % ("HOLDS" if ok else "FAILS"))
        return 0 if ok else 1
    ctx = common.Ctx(a.prop, a.tier, seed, level=getattr(mod, "LEVEL", "proof"))
    try:
        return mod.run(ctx)
    except common.InfraError as e:
        print("INFRASTRUCTURE-ERROR property=%s %s" % (a.prop, e), file=sys.stderr)
        return 2
    except Exception:
        traceback.print_exc()
        print("INFRASTRUCTURE-ERROR property=%s (unexpected exception in the harness)" % a.prop, file=sys.stderr)
        return 2


if __name__ == "__main__":
    sys.exit(main())
