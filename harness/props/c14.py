"""C14 — deriving or reading never alters other client objects.  Proof: lean/Props/C14.lean (heap model
PydapModel/Proxy.lean).  Tie: every top-level proxy event of real client histories (≤ 8 user operations, all live
objects re-read after every operation) is replayed on the model; the observables of *all* live proxies after every
event (request ids / hyperslab / selection, decode columns, session) and the log of GETs must agree.
Oracle (independent of the model): url/columns/session of every earlier object unchanged, every re-read returns
what the first read returned, a derived object reads what a fresh client applying the same selection reads.
Round 2: BaseType / GridType objects are part of the traced heap (variable[index], grid[key] with output_grid on/off; the
GET log contains the map requests; data of every variable — proxy reference or received positions — snapshotted)."""
import common
from props import clientsim as cs

LEVEL = "proof"


def one_history(ctx, rng_label, n_ops, kind="plain", idx=0, ops=None, fresh=True, output_grid=False):
    rng = ctx.rng(rng_label)
    if ops is None:
        ops = cs.gen_history(rng, n_ops)
    case = {"session": kind, "ops": cs.ops_json(ops), "label": rng_label, "output_grid": output_grid}
    sim = cs.Sim(kind, output_grid=output_grid)
    hr = cs.HistoryRun(ctx, sim, ops, case).run()
    if fresh and not hr.failed:
        hr.fresh_equiv()
    kinds = sorted(set(o[0] if o[0] != "derive" else o[2][0] for o in ops))
    n_der = len([o for o in ops if o[0] == "derive"])
    n_grid = len([o for o in ops if o[0] in ("grid", "gsub", "gmap", "gvar")])
    ctx.count((kind, output_grid, repr(ops)), n_der > 0 or n_grid > 0,
              tag="%s:ops=%d:derivations=%d:gridreads=%d:output_grid=%s" % (kind, len(ops), min(n_der, 4), min(n_grid, 4),
                                                                           output_grid),
              sample={"ops": cs.ops_json(ops)[:4], "events": len(sim.tr.events)})
    for k in kinds:
        ctx.tags["op:" + k] += 1
    return sim, hr, case


def _fix_targets(ops):
    """after shuffling, make sequence derivations / reads refer to live objects that exist at that point"""
    out, live = [], 1
    for o in ops:
        if o[0] == "derive":
            o = ("derive", o[1] % live, o[2])
            live += 1
        elif o[0] == "read":
            o = ("read", o[1] % live)
        out.append(o)
    return out


FIXED = [
    [("derive", 0, ("cols", ["f", "i"])), ("read", 0), ("read", 1)],
    [("derive", 0, ("filt", "i", ">", 2)), ("derive", 1, ("cols", ["t"])), ("read", 2), ("read", 0), ("derive", 0, ("child", "t")),
     ("read", 3)],
    [("derive", 0, ("slice", 1, 4, None)), ("derive", 1, ("slice", None, None, 2)), ("derive", 2, ("child", "i")), ("read", 3),
     ("derive", 0, ("cols", ["t", "i"])), ("derive", 4, ("filt", "i", "<", 5)), ("read", 5), ("read", 1)],
    [("fn",), ("array", (0,)), ("grid", (Ellipsis, slice(0, 2))), ("dap4", (0,)), ("derive", 0, ("int", 2)), ("read", 1)],
    # C14_derived_reads_reference's whole alphabet in one chain: a condition, a column list, a condition on the
    # column-restricted proxy, a second column list (its order counts), a strided slice, a slice of it, the child,
    # a condition on the single column
    [("derive", 0, ("filt", "i", ">", 1)), ("derive", 1, ("cols", ["f", "i"])), ("derive", 2, ("filt", "f", "<", 4)),
     ("derive", 3, ("cols", ["i", "f"])), ("derive", 4, ("slice", 0, 6, 2)), ("derive", 5, ("slice", 1, 3, None)),
     ("derive", 6, ("child", "f")), ("derive", 7, ("colfilt", "i", "<=", 5)), ("read", 8)],
]


def explore(ctx, tier, search=False):
    cases = []
    dcases = []
    n = 60 if (tier == "quick" and not search) else 1500
    todo = [("fixed/%d" % i, ops) for i, ops in enumerate(FIXED)] + [("h/%d" % i, None) for i in range(n)]
    # slices of slices: a strided first range (ragged or not), then ranges of it that stop before, at and beyond its
    # last record, on the sequence itself, on one of its columns and on a filtered derivation
    for i in range(8 if (tier == "quick" and not search) else 120):
        r = ctx.rng("chain/%d" % i)
        first = ("slice", r.choice([None, 0, 1, 2]), r.choice([3, 4, 5, 6, 9, None]), r.choice([2, 2, 3]))
        ops = [("derive", 0, first)]
        via = r.choice(["seq", "col", "filt"])
        src = 1
        if via == "col":
            ops.append(("derive", 1, ("child", r.choice(["i", "f", "t"]))))
            src = 2
        elif via == "filt":
            ops.append(("derive", 1, ("filt", "i", ">", 0)))
            src = 2
        for _ in range(5):
            ops.append(("derive", src, ("slice", r.choice([None, 0, 1]), r.choice([1, 2, 3, 4, None]), r.choice([None, 1, 1, 2]))))
        todo.append(("chain/%d" % i, ops))
    for label, ops in todo:
        rng = ctx.rng(label + "/len")
        sim, hr, case = one_history(ctx, label, rng.randint(1, 8), ops=ops)
        cases.append((sim.model_line(), sim.impl_output(), case))
        dcases.extend(hr.derive_cases)
    # traced grid histories: the opened grid with output_grid on (the DAPHandler default: array *and* maps are
    # requested) and off, its maps read on their own, grids returned by earlier reads indexed again, mixed with
    # sequence derivations; every BaseType / GridType / proxy object is snapshotted after every event
    ng = 40 if (tier == "quick" and not search) else 1000
    for i in range(ng):
        label = "gh/%d" % i
        rng = ctx.rng(label)
        ops = cs.gen_grid_ops(rng, rng.randint(1, 6))
        if i % 4 == 3:
            # interleave a short sequence history, keeping its own operations in order (a derivation refers to the
            # columns of an earlier result, so the history must not be reordered)
            hist = cs.gen_history(rng, rng.randint(1, 3))
            merged, a, b = [], list(ops), list(hist)
            while a or b:
                if a and (not b or rng.random() < len(a) / (len(a) + len(b))):
                    merged.append(a.pop(0))
                else:
                    merged.append(b.pop(0))
            ops = merged
        sim, hr, case = one_history(ctx, label, 0, ops=ops, output_grid=(i % 3 != 2), fresh=False)
        cases.append((sim.model_line(), sim.impl_output(), case))
    ctx.correspond("proxy heap: observables of all live objects after every event + GET log", cases)
    # C14_derived_reads_reference: for every derived live object, the request text the model's derived proxy writes,
    # the by-name reference refSelection and the server model's answer to that text vs the real proxy's url, the
    # harness's ref_selection and the rows really read (distinct chains only)
    seen, uniq = set(), []
    for c in dcases:
        if c[0] not in seen:
            seen.add(c[0])
            uniq.append(c)
    for c in uniq:
        ctx.tags["derived-chain:len=%d" % min(len(c[2]["derived"]), 6)] += 1
    ctx.correspond("derived object: request text, by-name reference refSelection, rows served (client model ∘ server model of C04)",
                   uniq)


# ------------------------------------------------------------------------------------------------
# arrays and grids, maps included: oracle-only histories (the traced correspondence above opens the dataset with
# open_url's default output_grid=False and therefore never reads a map)
GSHAPE = (6, 8)


def _grid_dataset():
    import numpy as np
    from pydap.model import BaseType, DatasetType, GridType

    ds = DatasetType("ds")
    ds["a"] = BaseType("a", np.arange(48, dtype="i4").reshape(GSHAPE), dims=("x", "y"))
    g = GridType("g")
    g["g"] = BaseType("g", np.arange(48, dtype="i4").reshape(GSHAPE) + 500, dims=("x", "y"))
    g["x"] = BaseType("x", np.arange(6, dtype="i4") * 10, dims=("x",))
    g["y"] = BaseType("y", np.arange(8, dtype="i4") * 10 + 1000, dims=("y",))
    ds["g"] = g
    return ds


def _axis_index(rng, N):
    r = rng.random()
    if r < 0.15:
        return rng.randint(-N, N - 1)
    if r < 0.45:       # unbounded, possibly strided
        return slice(None, None, rng.choice([None, 1, 2, 3]))
    a = rng.choice([None, 0, 1, 2, -N, -2])
    b = rng.choice([None, N, N - 1, N + 2, -1, 3, 4])
    return slice(a, b, rng.choice([None, 1, 2, 3]))


def gen_grid_history(rng, n):
    ops = []
    for _ in range(n):
        target = rng.choice(["g", "g", "g", "a", "g.x", "g.y"])
        if target in ("g", "a"):
            r = rng.random()
            idx = [_axis_index(rng, GSHAPE[0]), _axis_index(rng, GSHAPE[1])]
            if r < 0.15:
                idx = idx[:1]
            elif r < 0.3:
                idx = [Ellipsis, idx[1]]
            elif r < 0.36:
                idx = [Ellipsis]
            idx = tuple(idx)
        else:
            idx = (_axis_index(rng, GSHAPE[0] if target == "g.x" else GSHAPE[1]),)
        ops.append((target, idx))
    return ops


def _keep1(src, idx):
    """numpy selection with integer-indexed axes kept as length-1 axes"""
    import numpy as np
    full = []
    real = [e for e in idx if e is not Ellipsis]
    if Ellipsis in idx:
        k = idx.index(Ellipsis)
        full = list(idx[:k]) + [slice(None)] * (src.ndim - len(real)) + list(idx[k + 1:])
    else:
        full = list(idx) + [slice(None)] * (src.ndim - len(real))
    full = [slice(e, e + 1 if e != -1 else None) if isinstance(e, int) else e for e in full]
    return np.asarray(src[tuple(full)]), full


def run_grid_history(ctx, ops, output_grid, case):
    """every read must equal numpy on the source, and re-reading every earlier operation must return what it
    returned the first time (a read leaves the opened objects unchanged)"""
    import numpy as np
    from pydap.client import open_url
    from pydap.handlers.lib import BaseHandler

    src = _grid_dataset()
    app = BaseHandler(_grid_dataset())
    ds = open_url("http://localhost:8001/ds", application=app, output_grid=output_grid)

    def do(op):
        target, idx = op
        if target == "a":
            exp, _ = _keep1(src["a"].data, idx)
            got = np.asarray(ds["a"][idx].data) if False else np.asarray(ds["a"][idx])
            return [got.tolist()], [exp.tolist()]
        if target in ("g.x", "g.y"):
            name = target[2:]
            exp, _ = _keep1(src["g"][name].data, idx)
            return [np.asarray(ds["g"][name][idx]).tolist()], [exp.tolist()]
        exp, full = _keep1(src["g"]["g"].data, idx)
        r = ds["g"][idx]
        if output_grid:
            got = [np.asarray(r["g"].data).tolist(), np.asarray(r["x"].data).tolist(), np.asarray(r["y"].data).tolist()]
            want = [exp.tolist(), np.asarray(src["g"]["x"].data[full[0]]).tolist(),
                    np.asarray(src["g"]["y"].data[full[1]]).tolist()]
        else:
            got, want = [np.asarray(r.data).tolist()], [exp.tolist()]
        return got, want

    first = []
    for n, op in enumerate(ops):
        # skip empty selections: the property speaks about selections of at least one element
        probe, _ = _keep1(src["a"].data if op[0] in ("a", "g") else src["g"][op[0][2:]].data, op[1])
        if probe.size == 0:
            first.append(None)
            continue
        try:
            got, want = do(op)
        except Exception as e:
            got, want = "escaped:%s:%s" % (type(e).__name__, str(e)[:60]), "values"
        if got != want:
            ctx.oracle_fail("array/grid read returns other elements (array or maps) than numpy selects", case, got, want,
                            size=10 * len(ops) + n)
            return False
        first.append(got)
        for m in range(n + 1):
            if first[m] is None:
                continue
            try:
                again, _ = do(ops[m])
            except Exception as e:
                again = "escaped:%s" % type(e).__name__
            if again != first[m]:
                ctx.oracle_fail("re-reading an earlier selection returns other data after later reads", 
                                dict(case, reread=m, after=n), again, first[m], size=10 * len(ops) + n)
                return False
    return True


def grid_pass(ctx, tier, search=False):
    n = 40 if (tier == "quick" and not search) else 800
    for i in range(n):
        rng = ctx.rng("grid/%d" % i)
        ops = gen_grid_history(rng, rng.randint(2, 6))
        og = bool(i % 2)
        case = {"kind": "gridhist", "output_grid": og, "ops": [[t, repr(ix)] for t, ix in ops]}
        run_grid_history(ctx, ops, og, case)
        ctx.count(("gridhist", og, repr(ops)), True, tag="gridhist:output_grid=%s" % og, sample=case if i < 2 else None)


def run(ctx):
    ctx.rule = ("seeded random histories of 1..8 user operations {seq[cols], seq[cond], seq[a:b(:k)], seq[int], seq[name], "
                "read, array[index], grid[index], DAP4 variable[index], server function call+read} applied to arbitrary "
                "earlier results of one opened dataset; traced grid histories (1..6 reads of the opened grid with output_grid on/off, "
                "of its maps, of grids returned by earlier reads and of their variables, mixed with sequence operations); plus array/grid/map read histories (2..6 reads, output_grid on/off, every "
                "earlier read repeated after every later one, compared with numpy); "
                "earlier results of one opened dataset, every live object re-read after every operation, plus fixed "
                "histories; a history is non-trivial when it contains a derivation; distinct by operation list")
    ctx.assumptions = ["requests (session → adapter dispatch) is modelled, not verified; the adapter answers from an "
                       "in-process pydap server", "name resolution is disabled: a request outside the session fails fast"]
    ctx.proof_phase()
    explore(ctx, ctx.tier)
    grid_pass(ctx, ctx.tier)

    def search(c):
        explore(c, "thorough", search=True)
        grid_pass(c, "thorough", search=True)
    return ctx.finish(search=search)


def replay(payload):
    f = payload.get("failure")
    if not f:
        print("nothing to replay: %s" % payload.get("no_longer_checks"))
        return False
    c = f["case"]
    ctx = common.Ctx("C14", "quick", 0)
    ctx.findings = []
    if c.get("kind") == "gridhist":
        ops = [(t, eval(ix, {"slice": slice, "Ellipsis": Ellipsis})) for t, ix in c["ops"]]
        ok = run_grid_history(ctx, ops, c["output_grid"], c)
        for fl in ctx.oracle_failures[:3]:
            print(fl["what"], "observed", fl["observed"], "expected", fl["expected"])
        return ok
    ops = cs.ops_unjson(c["ops"])
    # the check runs many histories in one process: open another dataset on the same URL with another session first,
    # so that state kept across datasets (class- or module-level) is in place as it was in the run
    try:
        pre = cs.Sim("plain", trace=False)
        pre.ds.functions.mean(pre.ds["a"], 0)["a"]
    except Exception:
        pass
    sim = cs.Sim(c.get("session", "plain"), output_grid=c.get("output_grid", False))
    hr = cs.HistoryRun(ctx, sim, ops, c).run()
    if not hr.failed:
        hr.fresh_equiv()
    for fl in ctx.oracle_failures[:3]:
        print(fl["what"], "observed", fl["observed"], "expected", fl["expected"])
    return not ctx.oracle_failures
