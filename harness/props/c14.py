"""C14 — deriving or reading never alters other client objects.  Proof: lean/Props/C14.lean (heap model
PydapModel/Proxy.lean).  Tie: every top-level proxy event of real client histories (≤ 8 user operations, all live
objects re-read after every operation) is replayed on the model; the observables of *all* live proxies after every
event (request ids / hyperslab / selection, decode columns, session) and the log of GETs must agree.
Oracle (independent of the model): url/columns/session of every earlier object unchanged, every re-read returns
what the first read returned, a derived object reads what a fresh client applying the same selection reads."""
import common
from props import clientsim as cs

LEVEL = "proof"


def one_history(ctx, rng_label, n_ops, kind="plain", idx=0, ops=None, fresh=True):
    rng = ctx.rng(rng_label)
    if ops is None:
        ops = cs.gen_history(rng, n_ops)
    case = {"session": kind, "ops": cs.ops_json(ops), "label": rng_label}
    sim = cs.Sim(kind)
    hr = cs.HistoryRun(ctx, sim, ops, case).run()
    if fresh and not hr.failed:
        hr.fresh_equiv()
    kinds = sorted(set(o[0] if o[0] != "derive" else o[2][0] for o in ops))
    n_der = len([o for o in ops if o[0] == "derive"])
    ctx.count((kind, repr(ops)), n_der > 0, tag="%s:ops=%d:derivations=%d" % (kind, len(ops), min(n_der, 4)),
              sample={"ops": cs.ops_json(ops)[:4], "events": len(sim.tr.events)})
    for k in kinds:
        ctx.tags["op:" + k] += 1
    return sim, hr, case


FIXED = [
    [("derive", 0, ("cols", ["f", "i"])), ("read", 0), ("read", 1)],
    [("derive", 0, ("filt", "i", ">", 2)), ("derive", 1, ("cols", ["t"])), ("read", 2), ("read", 0), ("derive", 0, ("child", "t")),
     ("read", 3)],
    [("derive", 0, ("slice", 1, 4, None)), ("derive", 1, ("slice", None, None, 2)), ("derive", 2, ("child", "i")), ("read", 3),
     ("derive", 0, ("cols", ["t", "i"])), ("derive", 4, ("filt", "i", "<", 5)), ("read", 5), ("read", 1)],
    [("fn",), ("array", (0,)), ("grid", (Ellipsis, slice(0, 2))), ("dap4", (0,)), ("derive", 0, ("int", 2)), ("read", 1)],
]


def explore(ctx, tier, search=False):
    cases = []
    n = 60 if (tier == "quick" and not search) else 1500
    todo = [("fixed/%d" % i, ops) for i, ops in enumerate(FIXED)] + [("h/%d" % i, None) for i in range(n)]
    for label, ops in todo:
        rng = ctx.rng(label + "/len")
        sim, hr, case = one_history(ctx, label, rng.randint(1, 8), ops=ops)
        cases.append((sim.model_line(), sim.impl_output(), case))
    ctx.correspond("proxy heap: observables of all live objects after every event + GET log", cases)


def run(ctx):
    ctx.rule = ("seeded random histories of 1..8 user operations {seq[cols], seq[cond], seq[a:b(:k)], seq[int], seq[name], "
                "read, array[index], grid[index], DAP4 variable[index], server function call+read} applied to arbitrary "
                "earlier results of one opened dataset, every live object re-read after every operation, plus fixed "
                "histories; a history is non-trivial when it contains a derivation; distinct by operation list")
    ctx.assumptions = ["requests (session → adapter dispatch) is modelled, not verified; the adapter answers from an "
                       "in-process pydap server", "name resolution is disabled: a request outside the session fails fast"]
    ctx.proof_phase()
    explore(ctx, ctx.tier)
    return ctx.finish(search=lambda c: explore(c, "thorough", search=True))


def replay(payload):
    f = payload.get("failure")
    if not f:
        print("nothing to replay: %s" % payload.get("no_longer_checks"))
        return False
    c = f["case"]
    ctx = common.Ctx("C14", "quick", 0)
    ctx.findings = []
    ops = cs.ops_unjson(c["ops"])
    sim = cs.Sim(c.get("session", "plain"))
    hr = cs.HistoryRun(ctx, sim, ops, c).run()
    if not hr.failed:
        hr.fresh_equiv()
    for fl in ctx.oracle_failures[:3]:
        print(fl["what"], "observed", fl["observed"], "expected", fl["expected"])
    return not ctx.oracle_failures
