"""C13: the maps IterData runs over the SOURCE RECORDS of a served nested lazy sequence, object by object.

A case is a little heap of source objects (records, lists of inner records, inner records; each a tuple, a list or a
numpy record), a stream of record values, the clauses on columns of nested sequences (each becomes a `recurse` map at
the front of `imap`), optionally a child selection, and a number of type lookups before the iteration; clauses on OUTER columns add level-0 filters (read only) and identity maps.

Model side: `rh-serve` / `rh-map` of lean/Driver/RowHeap.lean (PydapModel/RowHeap.lean; theorems C13_nested_filter_copy,
C13_rows_frame, C13_rows_noninterference).  Implementation side: the real `IterData`, `build_filter`, `fix_nested`
on real Python objects of the same representations; source lists are a list subclass that logs every mutation.
Compared: outcome (value structure with the representation of every new container, source objects by number = by
identity, or the exception class), whether any source object changed (deep content, container types included), and
the stores that went into source objects (the model's stores into objects of the request are not observable on the
implementation side without fixing HOW it copies; the driver does not print them).  Direct oracle: no source object changes, no store into a source list."""
import operator

import numpy as np

import common  # noqa: F401
from props import c13_fix as F

OPS = {"lt": "<", "le": "<=", "gt": ">", "ge": ">=", "eq": "=", "ne": "!="}


class SrcList(list):
    """a list held by the source: logs every mutation with its own number"""
    __slots__ = ("_no", "_log")


def _mk(name):
    base = getattr(list, name)

    def f(self, *a, **k):
        idx = a[0] if name in ("__setitem__", "__delitem__", "insert") and a and isinstance(a[0], int) else name
        self._log.append("s%d[%s]" % (self._no, idx))
        return base(self, *a, **k)
    f.__name__ = name
    return f


for _n in ("append", "extend", "insert", "remove", "pop", "clear", "sort", "reverse", "__setitem__", "__delitem__",
           "__iadd__", "__imul__"):
    setattr(SrcList, _n, _mk(_n))


# ---- case generation --------------------------------------------------------------------------------------------
def gen_case(rng, errors=True):
    """{"hdr": [None | n_inner_cols per child], "src": [[rep, items...]], "stream": [values], "clauses": [[child, icol, op,
    rhs]], "select": child | None, "peeks": k}; values: int, or "s<i>" """
    nchild = rng.randint(1, 4)
    hdr = [None] * nchild
    for j in rng.sample(range(nchild), rng.choice([1, 1, 1, 2]) if nchild > 1 else 1):
        hdr[j] = rng.randint(1, 3)
    src = []

    def add(rep, items):
        if rep in ("n", "t") and not items:
            rep = "l"           # (a numpy record has fields; the empty tuple is one shared object in CPython)
        src.append([rep] + items)
        return "s%d" % (len(src) - 1)

    def atom():
        return rng.choice([0, 0, 1, 2, 3, 4, 5, 6, 7, 8, 9, 12, -3])

    row_rep = rng.choice(["t", "l", "n", "mixed"])
    rec_rep = rng.choice(["t", "l", "n", "mixed"])
    stream = []
    shared_rec = None
    for _ in range(rng.choice([0, 1, 2, 2, 3, 3, 4, 5])):
        cells = []
        for k in hdr:
            if k is None:
                cells.append(atom())
                continue
            recs = []
            for _ in range(rng.randint(0, 3)):
                r = rng.random() if errors else 0.5
                if r < 0.04:
                    recs.append(atom())                                  # a number where a record is expected
                    continue
                n = k if r > 0.1 else rng.randint(0, k)                  # sometimes too short
                rep = rec_rep if rec_rep != "mixed" else rng.choice("tln")
                if shared_rec is not None and rng.random() < 0.15:
                    recs.append(shared_rec)                              # one record object listed twice
                else:
                    shared_rec = add(rep, [atom() for _ in range(n)])
                    recs.append(shared_rec)
            r = rng.random() if errors else 0.5
            if r < 0.04:
                cells.append(atom())                                     # a number where the inner records are expected
            else:
                cells.append(add(rng.choice(["l", "l", "t"]), recs))
        r = rng.random() if errors else 0.5
        if r < 0.05:
            cells = cells[:rng.randint(0, len(cells))]                   # a short record
        if r > 0.97:
            stream.append(atom())                                        # a number where a record is expected
            continue
        rep = row_rep if row_rep != "mixed" else rng.choice("tln")
        stream.append(add(rep, cells))
        if rng.random() < 0.1:
            stream.append(stream[-1])                                    # the same record object twice in the stream
    seqs = [j for j, k in enumerate(hdr) if k is not None]
    bases = [j for j, k in enumerate(hdr) if k is None]
    clauses = []
    for _ in range(rng.choice([1, 1, 1, 2, 3])):
        if bases and rng.random() < 0.3:
            # a clause on an outer column: a level-0 filter (the operand may be the nested child: list against number)
            rhs = ["lit", rng.choice([0, 2, 4, 5, 7])] if rng.random() < 0.7 else ["col", rng.randrange(nchild)]
            clauses.append(["outer", rng.choice(bases), rng.choice(list(OPS)), rhs])
            continue
        j = rng.choice(seqs)
        icol = rng.randrange(hdr[j])
        rhs = ["lit", rng.choice([0, 2, 4, 5, 7])] if rng.random() < 0.75 else ["col", rng.randrange(hdr[j])]
        clauses.append([j, icol, rng.choice(list(OPS)), rhs])
    select = rng.choice([None, None, None] + list(range(nchild)))
    return {"hdr": hdr, "src": src, "stream": stream, "clauses": clauses, "select": select,
            "peeks": rng.choice([0, 1, 1, 2, 3])}


def model_lines(case):
    src = "(" + " ".join("(" + " ".join(str(x) for x in o) + ")" for o in case["src"]) + ")"
    stream = "(" + " ".join(str(v) for v in case["stream"]) + ")"
    maps = ["(ident)" if j == "outer" else "(nest %d %d %s (%s %d))" % (j, ic, op, rhs[0], rhs[1])
            for j, ic, op, rhs in reversed(case["clauses"])]
    filts = ["(cmp %d %s (%s %d))" % (ic, op, rhs[0], rhs[1]) if j == "outer" else "(truthy)"
             for j, ic, op, rhs in case["clauses"]]
    maps.append("(fix %s)" % " ".join("1" if k is not None else "0" for k in case["hdr"]))
    if case["select"] is not None:
        maps.append("(item %d)" % case["select"])
    return "rh-serve %s %s (%s) (%s) %d" % (src, stream, " ".join(filts), " ".join(maps), case["peeks"])


# ---- the implementation on real objects -----------------------------------------------------------------------------
def build_objects(case, log):
    objs = []

    def val(v):
        return objs[int(v[1:])] if isinstance(v, str) else v
    for no, o in enumerate(case["src"]):
        rep, items = o[0], [val(v) for v in o[1:]]
        if rep == "t":
            objs.append(tuple(items))
        elif rep == "l":
            x = SrcList(items)
            x._no, x._log = no, log
            objs.append(x)
        else:
            arr = np.empty(1, dtype=[("f%d" % i, "O") for i in range(len(items))])
            for i, it in enumerate(items):
                arr["f%d" % i][0] = it
            objs.append(arr[0])
    return objs, [val(v) for v in case["stream"]]


def build_template(case):
    from pydap.model import BaseType, SequenceType

    s = SequenceType("s")
    for j, k in enumerate(case["hdr"]):
        if k is None:
            s["c%d" % j] = BaseType("c%d" % j)
        else:
            q = SequenceType("c%d" % j)
            for i in range(k):
                q["i%d" % i] = BaseType("i%d" % i)
            s["c%d" % j] = q
    return s


def show(v, ids, depth=0):
    from pydap.handlers.lib import IterData

    if id(v) in ids:
        return "s%d" % ids[id(v)]
    if depth > 8:
        return "?"
    if isinstance(v, IterData):
        return "(i %s)" % show(v.stream, ids, depth + 1)
    if isinstance(v, tuple):
        return "(" + " ".join(["t"] + [show(x, ids, depth + 1) for x in v]) + ")"
    if isinstance(v, list):
        return "(" + " ".join(["l"] + [show(x, ids, depth + 1) for x in v]) + ")"
    if isinstance(v, np.void):
        return "(" + " ".join(["n"] + [show(x, ids, depth + 1) for x in v.tolist()]) + ")"
    return str(int(v))


class MapRaised(Exception):
    pass


def run_impl(case):
    """what the real code does with the case: (canonical line, source changed?, stores into source objects)"""
    from pydap.handlers.lib import ConstraintExpression, IterData

    log = []
    objs, stream = build_objects(case, log)
    ids = {id(o): i for i, o in enumerate(objs)}
    before = [F.deep_value(o) for o in objs]
    template = build_template(case)
    status = None
    try:
        it = IterData(stream, template)
        for j, ic, op, rhs in case["clauses"]:
            if j == "outer":
                right = str(rhs[1]) if rhs[0] == "lit" else "s.c%d" % rhs[1]
                it = it[ConstraintExpression("s.c%d%s%s" % (ic, OPS[op], right))]
                continue
            right = str(rhs[1]) if rhs[0] == "lit" else "s.c%d.i%d" % (j, rhs[1])
            it = it[ConstraintExpression("s.c%d.i%d%s%s" % (j, ic, OPS[op], right))]
        if case["select"] is not None:
            it = it["c%d" % case["select"]]
    except Exception as e:      # the generator only builds well-formed clauses and selections
        return "setup-raised:%s:%s" % (type(e).__name__, e), False, log
    raised = []

    def guard(m):
        def g(row):
            try:
                return m(row)
            except Exception as e:
                raised.append(type(e).__name__)
                raise
        return g
    it.imap = [guard(m) for m in it.imap]
    it.ifilter = [guard(f) for f in it.ifilter]
    for _ in range(case["peeks"]):
        try:
            it.dtype
        except StopIteration:
            if not stream:
                status = "err:StopIteration"
                break
        except Exception:
            pass        # (what `array_dtype` makes of the peeked record is not the model's concern)
        if raised:
            status = "err:" + raised[0]
            break
    if status is None:
        try:
            rows = list(iter(it))
            status = "ok [" + " ".join(show(r, ids) for r in rows) + "]"
        except Exception as e:
            status = "err:" + (raised[0] if raised else "outside-the-maps:" + type(e).__name__)
    changed = [F.deep_value(o) for o in objs] != before
    return status, changed, list(log)


def impl_line(case):
    status, changed, log = run_impl(case)
    return "%s | src=%s | stores=%s" % (status, "CHANGED" if changed else "same", " ".join(log))


def run(ctx, rng, n):
    cases = []
    for i in range(n):
        case = gen_case(rng, errors=i % 3 == 0)
        status, changed, log = run_impl(case)
        line = "%s | src=%s | stores=%s" % (status, "CHANGED" if changed else "same", " ".join(log))
        ok = status.startswith("ok")
        reps = "".join(sorted(set(o[0] for o in case["src"])))
        ctx.count(("rows", repr(case)), ok and bool(case["stream"]),
                  tag="source-records:%s:%s" % ("ok" if ok else status.split(":")[1] if ":" in status else status, reps or "-"),
                  sample={"stream": case["stream"][:3], "clauses": case["clauses"], "peeks": case["peeks"]})
        if changed or log:
            ctx.oracle_fail("the maps of a lazy sequence stored into a record held by the source",
                            {"oracle": "rows", "rows": case}, "source objects changed: %s; stores into source lists: %s"
                            % (changed, log[:4]), "no source object changes", size=len(repr(case)))
        cases.append((model_lines(case), line, {"case": case}))
    return cases


def replay(case):
    status, changed, log = run_impl(case)
    print("maps over the source records: %s; source objects changed: %s; stores into source lists: %s"
          % (status[:120], changed, log))
    return not changed and not log
