"""C18 (transport part: content coding, whole and streamed reads) — helper for harness/props/c18.py.

Property: with a caching session every read returns the same data as with a plain session — here for what travels
between the wire and pydap's parsers: `Content-Encoding: gzip` or not, `r.content` (whole) or `r.iter_content()`
(streamed), first read (miss) and repeated read (hit).
Theorems: `C18_cached_equals_plain(_url/_customKey)`, `C18_read_paths_agree`, `C18_raw_stream_refuted` over the model
lean/PydapModel/Transport.lean.

`explore(ctx, tier)`: REAL `requests.Session`, `requests_cache.CachedSession(backend="memory")` and
`pydap.net.create_session(use_cache=True, cache_kwargs={"backend": "memory"})`, mounted on a transport adapter that
answers (a) from a real in-process pydap `BaseHandler(dataset, gzip=True/False)` over a generated dataset (a Sequence
and an array) and (b) with raw synthetic DAP2-framed bodies (gzip-coded, plain, or under a coding header nobody knows),
the raw stream cut into generated chunk sizes (`urllib3.HTTPResponse(preload_content=False, decode_content=False)`
over a reader that returns short reads — what `HTTPAdapter` hands to requests).  Every read goes through the REAL
pydap code: `open_url` (DDS/DAS: `safe_charset_text`, whole, stream=False), `BaseProxyDap2.__getitem__`
(`safe_dds_and_data`, whole, stream=True), `open_dods_url` (whole, stream=False), `SequenceProxy.__iter__`
(`iter_content` + `find_pattern_in_string_iter` + `StreamReader`, streamed, stream=True).  The bytes each of them
hands on are recorded by pass-through wrappers around `safe_charset_text` / `safe_dds_and_data` (their results) and
`unpack_sequence` (the stream it is given, drained and handed on).

(a) correspondence (model command `tr-run`): per GET hit/miss, read path, the bytes obtained; the GETs on the wire with
    header and body length.  The codec of a line is the table payload ↔ REAL gzip bytes of that run.  For a streamed
    read the reader skips everything up to `Data:\n`; the skipped prefix of the served payload is re-attached.
(b) oracle, independent of the model: the values read (sequence rows, array slices, synthetic bodies) through every
    caching session = through the plain session = the source dataset's own numpy values / the served payload, on the
    first read and on the repeated read, gzip or not, both paths.

`replay_case(case) -> bool` re-runs one recorded scenario on the implementation (True = property holds).
"""
import gzip as gz_mod
import io
import random
import sys
import warnings
from itertools import chain
from urllib.parse import unquote, urlsplit

import numpy as np

from common import hexb

warnings.simplefilter("ignore")

KINDS = ["plain", "cached", "pydap-cached"]
BASE = "http://dap.test/ds"
RAW = "http://dap.test/raw/"
HDR = b"Dataset {\n    Int32 v;\n} raw;"
MARK = b"Data:\n"


class CutReader(io.BytesIO):
    """a raw stream that arrives in pieces: `read(amt)` returns at most the next piece"""

    def __init__(self, body, cuts):
        super().__init__(body)
        self.cuts = list(cuts)

    def read(self, amt=-1):
        if amt is None or amt < 0:
            return super().read()
        n = self.cuts.pop(0) if self.cuts else amt
        return super().read(max(1, min(amt, n)))

    read1 = read


def make_dataset(spec):
    from pydap.model import BaseType, DatasetType, SequenceType

    ds = DatasetType("ds")
    ds["a"] = BaseType("a", np.array(spec["a"], dtype="i4"), dims=("x",))
    s = SequenceType("s")
    s["i"] = BaseType("i")
    s["f"] = BaseType("f")
    s.data = np.array([tuple(r) for r in spec["rows"]], dtype=[("i", "i4"), ("f", "f8")])
    ds["s"] = s
    return ds


class Site:
    """the server: a pydap handler under /ds, raw bodies under /raw/<name>; records what it puts on the wire"""

    def __init__(self, spec, cut_rng):
        from pydap.handlers.lib import BaseHandler

        self.spec = spec
        self.app = BaseHandler(make_dataset(spec), gzip=True) if spec["gzip"] else BaseHandler(make_dataset(spec))
        self.cut_rng = cut_rng
        self.wire = []        # (url, coding, wire body, payload, cuts)

    def answer(self, request):
        u = urlsplit(request.url)
        if u.path.startswith("/raw/"):
            coding, data = self.spec["raw"][u.path[5:]]
            payload = HDR + b"\n" + MARK + bytes.fromhex(data)
            body = gz_mod.compress(payload, mtime=0) if coding == "gzip" else payload
            h = {"Content-Type": "application/octet-stream"}
            if coding == "gzip":
                h["Content-Encoding"] = "gzip"
            elif coding == "other":
                h["Content-Encoding"] = "x-verif"
            return 200, h, body, payload, coding
        env = {"REQUEST_METHOD": "GET", "SCRIPT_NAME": "", "PATH_INFO": unquote(u.path), "QUERY_STRING": u.query,
               "SERVER_NAME": u.hostname, "SERVER_PORT": "80", "SERVER_PROTOCOL": "HTTP/1.1", "wsgi.version": (1, 0),
               "wsgi.url_scheme": "http", "wsgi.input": io.BytesIO(b""), "wsgi.errors": sys.stderr,
               "wsgi.multithread": False, "wsgi.multiprocess": False, "wsgi.run_once": False,
               "HTTP_ACCEPT_ENCODING": request.headers.get("Accept-Encoding", "")}
        st = {}

        def sr(status, headers, exc=None):
            st["s"], st["h"] = status, headers
        body = b"".join(self.app(env, sr))
        h = dict(st["h"])
        coding = "gzip" if h.get("Content-Encoding") == "gzip" else "none"
        payload = gz_mod.decompress(body) if coding == "gzip" else body
        return int(st["s"].split()[0]), h, body, payload, coding


def _adapter(site):
    import requests
    import urllib3
    from requests.adapters import BaseAdapter

    class A(BaseAdapter):
        def send(self, request, **kw):
            code, h, body, payload, coding = site.answer(request)
            r_ = site.cut_rng
            cuts = [r_.choice([1, 2, 3, 7, 16, 50, 400]) for _ in range(r_.randint(0, 6))]
            site.wire.append((request.url, coding, body, payload, cuts))
            raw = urllib3.HTTPResponse(body=CutReader(body, cuts), headers=h, status=code, preload_content=False,
                                       decode_content=False, reason="OK")
            r = requests.Response()
            r.status_code, r.raw, r.url, r.request, r.reason = code, raw, request.url, request, "OK"
            r.headers = requests.structures.CaseInsensitiveDict(h)
            r.encoding = requests.utils.get_encoding_from_headers(r.headers)
            return r

        def close(self):
            pass

    return A()


def make_session(kind, site):
    import requests
    import requests_cache

    if kind == "plain":
        s = requests.Session()
    elif kind == "cached":
        s = requests_cache.CachedSession(backend="memory")
    else:
        from pydap.net import create_session

        s = create_session(use_cache=True, cache_kwargs={"backend": "memory"})
        assert isinstance(s, requests_cache.CachedSession)
    s.mount("http://", _adapter(site))
    s.mount("https://", _adapter(site))
    return s


class Recorder:
    """pass-through wrappers: every GET handed to the session, and the bytes each read path hands to the parsers"""

    def __init__(self, sess, site, kind):
        self.events, self.site, self.sess, self.kind = [], site, sess, kind
        orig_send = sess.send

        def send(prepared, **kw):
            n = len(site.wire)
            key = sess.cache.create_key(prepared) if kind != "plain" else prepared.url
            ev = {"url": prepared.url, "key": key, "stream": bool(kw.get("stream")), "path": None, "got": None}
            self.events.append(ev)
            try:
                r = orig_send(prepared, **kw)
            finally:
                ev["wired"] = site.wire[n:]
            ev["from_cache"] = bool(getattr(r, "from_cache", False))
            return r
        sess.send = send

    def __enter__(self):
        import pydap.client as pc
        import pydap.handlers.dap as hd
        from pydap.lib import StreamReader

        self.saved = (hd.safe_charset_text, hd.safe_dds_and_data, hd.unpack_sequence, pc.safe_dds_and_data)
        o_text, o_dd, o_unpack, _ = self.saved
        rec = self

        def text(r, cs):
            out = o_text(r, cs)
            rec.got("w", out.encode(cs if isinstance(cs, str) else "ascii", "surrogateescape")
                    if isinstance(out, str) else out)
            return out

        def dd(r, cs):
            dds, data = o_dd(r, cs)
            rec.got("w", dds.encode(cs) + b"\n" + MARK + data)
            return dds, data

        def unpack(stream, template):
            ev = rec.events[-1] if rec.events else None
            if isinstance(stream, StreamReader) and ev is not None and ev["got"] is None:
                cap = bytes(stream.buf) + b"".join(stream.stream)
                rec.got("s", cap)
                if getattr(template, "_raw_capture", False):
                    return iter(())
                stream = StreamReader(iter([cap]))
            return o_unpack(stream, template)
        hd.safe_charset_text, hd.safe_dds_and_data, hd.unpack_sequence, pc.safe_dds_and_data = text, dd, unpack, dd
        return self

    def __exit__(self, *a):
        import pydap.client as pc
        import pydap.handlers.dap as hd

        hd.safe_charset_text, hd.safe_dds_and_data, hd.unpack_sequence, pc.safe_dds_and_data = self.saved

    def got(self, path, data):
        ev = self.events[-1]
        if ev["got"] is None:
            ev["path"], ev["got"] = path, data


def run_ops(kind, spec, ops, seed):
    """one scenario on one session kind -> (values per op, events, site)"""
    import pydap.handlers.dap as hd
    from pydap.client import open_dods_url, open_url
    from pydap.model import BaseType, SequenceType
    from props.clientsim import block_network

    block_network()
    site = Site(spec, random.Random(seed))
    sess = make_session(kind, site)
    rec = Recorder(sess, site, kind)
    vals = []
    ds = None
    with rec:
        for op in ops:
            n0 = len(rec.events)
            try:
                if op[0] == "open" or ds is None:
                    ds = open_url(BASE, session=sess, protocol="dap2")
                if op[0] == "open":
                    v = sorted(ds.keys())
                elif op[0] == "seq":
                    v = [[int(r[0]), float(r[1]).hex()] for r in ds["s"]]
                elif op[0] == "arr":
                    v = np.asarray(ds["a"][op[1]:op[2]]).tolist()
                elif op[0] == "dods":
                    v = np.asarray(open_dods_url(BASE + ".dods?a", session=sess)["a"].data).tolist()
                elif op[0] == "raw-w":
                    r = hd.GET(RAW + op[1] + "?raw", None, sess, get_kwargs={"stream": bool(op[2])})
                    dds, data = hd.safe_dds_and_data(r, "ascii")
                    v = (dds.encode("ascii") + b"\n" + MARK + data).hex()
                elif op[0] == "raw-s":
                    t = SequenceType("raw")
                    t["v"] = BaseType("v")
                    t._raw_capture = True
                    p = hd.SequenceProxy(RAW + op[1][:-5], t, session=sess, get_kwargs={"stream": bool(op[2])})
                    list(iter(p))
                    ev = rec.events[-1]
                    v = None if ev["got"] is None else ev["got"].hex()
                else:
                    raise AssertionError(op)
            except Exception as e:   # a read that raises is an observation too
                v = "escaped:%s" % type(e).__name__
                for ev in rec.events[n0:]:
                    if ev["got"] is None:
                        ev["path"], ev["got"] = ev["path"] or "?", v
            vals.append(v)
    return vals, rec.events, site


def expected_values(spec, ops):
    out = []
    for op in ops:
        if op[0] == "open":
            out.append(["a", "s"])
        elif op[0] == "seq":
            out.append([[int(i), float(f).hex()] for i, f in spec["rows"]])
        elif op[0] == "arr":
            out.append(list(spec["a"][op[1]:op[2]]))
        elif op[0] == "dods":
            out.append(list(spec["a"]))
        elif op[0] == "raw-w":
            out.append((HDR + b"\n" + MARK + bytes.fromhex(spec["raw"][op[1]][1])).hex())
        else:
            out.append(bytes.fromhex(spec["raw"][op[1]][1]).hex())
    return out


def lines(kind, events):
    """model line and implementation line of one run"""
    ids, urls, codec = {}, [], {}
    hist, per, wire = [], [], []
    for ev in events:
        for (wurl, coding, body, payload, cuts) in ev["wired"]:
            if wurl not in ids:
                ids[wurl] = len(urls)
                urls.append([None, coding, payload if coding == "gzip" else body])
            if coding == "gzip":
                codec[payload] = body
            wire.append("%d:%s:%d" % (ids[wurl], coding, len(body)))
    # a URL never seen on the wire cannot be described to the model (does not happen: the first GET is a miss)
    for ev in events:
        i = ids.get(ev["url"])
        if i is None:
            return None, None
        if urls[i][0] is None:
            urls[i][0] = "k" + hexb(str(ev["key"]).encode())
        cuts = ev["wired"][0][4] if ev["wired"] else []
        path = ev["path"] if ev["path"] in ("w", "s") else "w"
        hist.append("(%d %s %d (%s))" % (i, path, 1 if ev["stream"] else 0, " ".join(map(str, cuts))))
        got = ev["got"]
        if isinstance(got, bytes):
            if path == "s":
                payload = urls[i][2]
                k = payload.find(MARK)
                got = (payload[:k + len(MARK)] if k >= 0 else b"") + got
            tok = hexb(got)
        else:
            tok = "(%s)" % (got,)
        flag = "" if ev["from_cache"] == (not ev["wired"]) else "!from_cache"
        per.append(("m:" if ev["wired"] else "h:") + path + ":" + tok + flag)
    model = "tr-run %s (codec %s) (urls %s) (hist %s)" % (
        "plain" if kind == "plain" else "cached",
        " ".join("(%s %s)" % (hexb(p), hexb(c)) for p, c in codec.items()),
        " ".join("(%s %s %s)" % (k or "k", c, hexb(b)) for k, c, b in urls), " ".join(hist))
    return model, "(%s) wire=(%s)" % (" ".join(per), " ".join(wire))


def check_scenario(ctx, spec, ops, seed, corr, how="generated"):
    ok = True
    exp = expected_values(spec, ops)
    res = {}
    for kind in KINDS:
        case = {"transport": True, "spec": spec, "ops": ops, "seed": seed, "session": kind, "how": how}
        vals, events, site = run_ops(kind, spec, ops, seed)
        res[kind] = vals
        model, impl = lines(kind, events)
        if model is not None:
            corr.append((model, impl, case))
        hits = sum(1 for ev in events if not ev["wired"])
        gz = sum(1 for ev in events if any(w[1] == "gzip" for w in ev["wired"]))
        paths = "".join(sorted({ev["path"] or "?" for ev in events}))
        ctx.count((kind, repr(spec), repr(ops)), nontrivial=len(events) > 0,
                  tag="transport:%s:gzip-on-wire=%s:hits=%s:paths=%s" % (
                      kind, "yes" if gz else "no", "0" if hits == 0 else "1-3" if hits < 4 else "4+", paths),
                  sample={"session": kind, "ops": ops[:4], "gets": len(events), "hits": hits} if hits and gz else None)
        size = 100 * len(ops) + len(spec["rows"]) + len(spec["a"]) + sum(len(v[1]) for v in spec["raw"].values())
        bad = [i for i in range(len(ops)) if vals[i] != exp[i]]
        if bad:
            ok = False
            i = bad[0]
            ctx.oracle_fail("a read returns other data than the server's own values (session %s)" % kind, case,
                            {"op": i, "what": ops[i], "value": str(vals[i])[:200]}, {"value": str(exp[i])[:200]}, size=size)
        if kind != "plain":
            bad = [i for i in range(len(ops)) if vals[i] != res["plain"][i]]
            if bad:
                ok = False
                i = bad[0]
                ctx.oracle_fail("a read through a caching session returns other data than through a plain session", case,
                                {"op": i, "what": ops[i], "value": str(vals[i])[:200]},
                                {"value": str(res["plain"][i])[:200]}, size=size)
    return ok


def replay_case(case):
    import common

    ctx = common.Ctx("C18", "quick", 0)
    ctx.findings = []
    ops = [tuple(o) if False else list(o) for o in case["ops"]]
    spec = dict(case["spec"])
    spec["raw"] = {k: tuple(v) for k, v in spec["raw"].items()}
    ok = check_scenario(ctx, spec, ops, case["seed"], [], how="replay")
    for fl in ctx.oracle_failures[:3]:
        print(fl["what"], "observed", fl["observed"], "expected", fl["expected"])
    return ok


# ------------------------------------------------------------------------------------------------
# generators


def gen_spec(rng, gzip):
    n = rng.choice([0, 1, 2, 5, 40, 200])
    rows = [[rng.randint(-1000, 1000), rng.choice([0.5, -1.25, 3.0, 1e10, 0.0]) * rng.randint(1, 9)] for _ in range(n)]
    a = [rng.randint(-5, 5) for _ in range(rng.choice([1, 3, 8, 300]))]
    raw = {}
    for j in range(rng.randint(1, 3)):
        k = rng.choice([0, 1, 4, 37, 700])
        data = bytes(rng.choice([0, 1, 0x1f, 0x8b, 65, 255]) if rng.random() < 0.7 else rng.randrange(256) for _ in range(k))
        raw["r%d.dods" % j] = (rng.choice(["gzip", "gzip", "none", "other"]), data.hex())
    return {"gzip": gzip, "rows": rows, "a": a, "raw": raw}


def gen_ops(rng, spec):
    ops = [["open"]]
    names = sorted(spec["raw"])
    for _ in range(rng.randint(2, 9)):
        r = rng.random()
        if r < 0.3:
            ops.append(["seq"])
        elif r < 0.5:
            lo = rng.randint(0, len(spec["a"]) - 1)       # (an empty hyperslab is refused by the server: not this property)
            ops.append(["arr", lo, rng.randint(lo + 1, len(spec["a"]))] if rng.random() < 0.5 else ["arr", 0, len(spec["a"])])
        elif r < 0.58:
            ops.append(["dods"])
        elif r < 0.64:
            ops.append(["open"])
        elif r < 0.82:
            ops.append(["raw-w", rng.choice(names), rng.randint(0, 1)])
        else:
            ops.append(["raw-s", rng.choice(names), rng.randint(0, 1)])
    if rng.random() < 0.6:
        ops += [list(o) for o in rng.sample(ops, min(len(ops), 3))]     # repeats: cache hits
    return ops


FIXED = [
    # the seeded scenario: a gzip-coded Sequence larger than one block, read twice (miss, hit), then an array twice
    ({"gzip": True, "rows": [[i, i * 0.5] for i in range(300)], "a": [1, 2, 3], "raw": {"r0.dods": ("gzip", "00010203")}},
     [["open"], ["seq"], ["seq"], ["arr", 0, 3], ["arr", 0, 3], ["raw-s", "r0.dods", 1], ["raw-s", "r0.dods", 1],
      ["raw-w", "r0.dods", 0], ["dods"], ["dods"]]),
    # the same without coding; a body under an unknown coding header is passed through by both sessions
    ({"gzip": False, "rows": [[1, 0.5], [2, 1.5]], "a": [7], "raw": {"r0.dods": ("other", "1f8b0800"), "r1.dods": ("none", "")}},
     [["open"], ["seq"], ["raw-w", "r0.dods", 1], ["raw-w", "r0.dods", 0], ["raw-s", "r0.dods", 0], ["raw-s", "r1.dods", 1],
      ["raw-w", "r1.dods", 1], ["seq"], ["open"]]),
]


def explore(ctx, tier):
    corr = []
    for k, (spec, ops) in enumerate(FIXED):
        check_scenario(ctx, spec, ops, k, corr, how="fixed")
    rng = ctx.rng("transport")
    n = ctx.budget(40, 1200)
    for i in range(n):
        spec = gen_spec(rng, gzip=i % 3 != 2)
        check_scenario(ctx, spec, gen_ops(rng, spec), rng.randrange(1 << 30), corr)
    ctx.correspond("transport: hit/miss, read path, bytes obtained, wire vs model tr-run", corr)
    return {"scenarios": n + len(FIXED), "correspondence_cases": len(corr)}
