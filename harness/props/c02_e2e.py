"""C02/C01 end to end on VALUES — additive section of the C02 check (called from props/c02.py).

Theorems: lean/Props/C02.lean `C02_e2e_*`, lean/Props/C01.lean `C01_e2e_*` over the composed model
lean/PydapModel/EndToEnd.lean (`fetchArray`, `fetchArrayText`, `fetchGrid`): Subset (request, hyperslab text, server
parse, per-axis positions) ∘ row-major gather on the values ∘ DdsText printer ∘ Xdr encoder ∘ body split ∘ DdsText
parser ∘ Xdr decoder.

Tie (same generated cases on both sides; every DAP2 type, rank 0..3, random values incl. NaN payloads / empty strings,
URL pre-constraints with strides, every index form):
  e2e-array   the composed model function  vs  the real pipeline  open_url(application=BaseHandler(ds))[var][idx].data
              (shape + flat values, floats as bit patterns)
  e2e-body    the model's response body (DDS ‖ Data:\\n ‖ XDR of the constrained variable)  vs  the bytes the real server
              sent for the request the real client issued
  e2e-text    the model client on the model body (split, DDS parse → declaration, decode)  vs  pydap's own
              safe split + dds_to_dataset + unpack_dap2_data on the REAL body (name, parser dtype, shape, dims, values)
  e2e-grid    one fetch per indexed child of grid[key] (array + maps, output_grid on/off)  vs  the real GridType result
  e2e-gather  the row-major gather (the model's definition of numpy N-d basic indexing)  vs  numpy  src[np.ix_(...)]
Oracle (no model): numpy `src[pre][idx]` with integer axes kept, values compared bit for bit.
"""
import warnings

import numpy as np

import xdrlib as X
from common import hexb
from props.c03 import sl_sexp, tup_sexp

warnings.simplefilter("ignore")

PARSER_STRS = [">d", ">f", ">h", ">H", ">i", ">I", "B", "|S128", "S"]


def make_values(rng, ty, shape):
    n = int(np.prod(shape)) if shape else 1
    vals = [X.gen_value(rng, ty) for _ in range(n)]
    if ty == "String":
        vals = [v[:12] for v in vals]
    return vals


def to_array(ty, shape, vals):
    if shape:
        return X.np_array(ty, shape, vals)
    return X.np_array(ty, (1,), vals).reshape(())


class ServedValues:
    """in-process pydap server over one array `a` and one grid `g` (array + maps) with given types and values;
    records every request and the body it answered with"""

    def __init__(self, ty, shape, vals, maps):
        from pydap.handlers.lib import BaseHandler
        from pydap.model import BaseType, DatasetType, GridType

        self.ty, self.shape, self.vals, self.maps = ty, tuple(shape), vals, maps
        self.src = to_array(ty, shape, vals)
        dims = tuple("m%d" % i for i in range(len(shape)))
        ds = DatasetType("ds")
        ds["a"] = BaseType("a", self.src.copy(), dims=dims)
        self.map_arrays = []
        if shape:
            g = GridType("g")
            g["g"] = BaseType("g", self.src.copy(), dims=dims)
            for ax, (mty, mvals) in enumerate(maps):
                m = to_array(mty, (shape[ax],), mvals)
                self.map_arrays.append(m)
                g["m%d" % ax] = BaseType("m%d" % ax, m.copy(), dims=(dims[ax],))
            ds["g"] = g
        self.handler = BaseHandler(ds)
        self.log = []

    def __call__(self, environ, start_response):
        environ["x-wsgiorg.throw_errors"] = True
        it = self.handler(environ, start_response)
        body = b"".join(it)
        if hasattr(it, "close"):
            it.close()
        self.log.append((environ.get("PATH_INFO", ""), environ.get("QUERY_STRING", ""), body))
        return [body]


def vals_sexp(ty, vals):
    return "(" + " ".join(X.val_sexp(ty, v) for v in vals) + ")"


def data_line(ty, arr):
    """canonical form of a client-side / numpy array: `(shape) data` in the driver's syntax"""
    a = np.asarray(arr)
    t = ("b", ty, tuple(a.shape), "a", False)
    c = X.canon(t, arr if a.shape else a)
    return "(%s) %s" % (" ".join(map(str, a.shape)), X.data_sexp(t, c))


def data_only(ty, arr):
    a = np.asarray(arr)
    t = ("b", ty, tuple(a.shape), "a", False)
    return X.data_sexp(t, X.canon(t, arr if a.shape else a))


def parser_str(dtype):
    dt = np.dtype(dtype)
    if dt.kind in "SU":
        return "|S128" if dt.itemsize == 128 and dt.kind == "S" else "S"
    for s in PARSER_STRS[:7]:
        if (np.dtype(s).kind, np.dtype(s).itemsize) == (dt.kind, dt.itemsize):   # byte order is not part of the declaration
            return s
    return "?" + dt.str


def real_client_on_body(body):
    """pydap's own client functions on a response body: split, DDS parse, decode"""
    from pydap.handlers.dap import unpack_dap2_data
    from pydap.lib import BytesReader
    from pydap.parsers.dds import dds_to_dataset

    dds, data = body.split(b"\nData:\n", 1)
    dataset = dds_to_dataset(dds.decode("ascii"))
    # the declaration as parsed (reading it after the data is attached would report the data's dtype)
    decls = {v.name: (parser_str(v.dtype), tuple(v.shape), tuple(v.dims)) for v in dataset.children()}
    dataset.data = unpack_dap2_data(BytesReader(data), dataset)
    return dataset, decls


class E2ERunner:
    def __init__(self, ctx, c02):
        self.ctx, self.c02 = ctx, c02
        self.cases = []

    def open(self, srv, pre, og=True):
        from pydap.client import open_url

        q = ""
        if pre:
            q = "?a%s" % self.c02.pre_text(pre) + (",g%s" % self.c02.pre_text(pre) if srv.shape else "")
        try:
            return open_url("http://localhost/ds" + q, application=srv, output_grid=og, protocol="dap2")
        except Exception as e:          # judged, not a harness error: a valid hyperslab must open
            self.ctx.oracle_fail("opening the dataset with a valid hyperslab raised",
                                 {"kind": "e2e-array", "ty": srv.ty, "shape": list(srv.shape), "vals": [], "pre": [list(p) for p in pre],
                                  "index": "()", "output_grid": og},
                                 "escaped:" + type(e).__name__, "a dataset")
            return None

    def head(self, srv, pre, idx):
        t = idx if isinstance(idx, tuple) else (idx,)
        return "%s (%s) %s (%s) %s" % (srv.ty, " ".join(map(str, srv.shape)), vals_sexp(srv.ty, srv.vals),
                                       " ".join(sl_sexp(s) for s in self.c02.pre_slices(pre)), tup_sexp(t))

    # -- (A)/(B): plain array ---------------------------------------------------------------------
    def array_case(self, srv, client, pre, idx, where):
        ctx, c02 = self.ctx, self.c02
        shape = srv.shape
        base = srv.src[c02.pre_slices(pre)] if shape else srv.src
        cshape = tuple(base.shape)
        case = {"kind": "e2e-array", "ty": srv.ty, "shape": list(shape), "vals": [v.hex() if isinstance(v, bytes) else v for v in srv.vals],
                "pre": [list(p) for p in pre], "index": repr(idx)}
        if not c02.in_domain(idx, cshape):
            return
        exp = base[c02.keep1(idx, cshape)] if shape else base
        if exp.size == 0:
            ctx.count(("e2e", srv.ty, shape, tuple(pre), repr(idx)), False, tag="e2e:" + where + ":empty-selection(skipped)")
            return
        mark = len(srv.log)
        try:
            got = client["a"][idx]
            got = np.asarray(got.data if hasattr(got, "data") and not isinstance(got, np.ndarray) else got)
            impl = "(ok %s x)" % data_line(srv.ty, got)
        except Exception as e:
            got, impl = None, "escaped:" + type(e).__name__
        head = self.head(srv, pre, idx)
        self.cases.append(("e2e-array " + head, impl, case))
        # the body the real server sent / the real client functions on that body
        reqs = srv.log[mark:]
        if len(reqs) == 1 and reqs[0][0].endswith(".dods"):
            body = reqs[0][2]
            names = "x6473 x61 (%s)" % " ".join(hexb(("m%d" % i).encode()) for i in range(len(shape)))
            self.cases.append(("e2e-body %s %s" % (names, head), hexb(body), case))
            try:
                dsr, decls = real_client_on_body(body)
                v = dsr["a"]
                dt, dshape, ddims = decls["a"]
                decl = "(b %s %s (%s) (%s))" % (hexb(v.name.encode()), hexb(dt.encode()),
                                                " ".join(map(str, dshape)), " ".join(hexb(d.encode()) for d in ddims))
                a = np.asarray(v.data)
                tt = ("b", srv.ty, tuple(a.shape), "a", False)
                impl_t = "(ok %s (%s) (tu %s) x)" % (hexb(dsr.name.encode()), decl, X.data_sexp(tt, X.canon(tt, v.data if a.shape else a)))
            except Exception as e:
                impl_t = "escaped:" + type(e).__name__
            self.cases.append(("e2e-text %s %s" % (names, head), impl_t, case))
        else:
            self.cases.append(("e2e-body - " + head, "requests:%r" % [(p, q) for p, q, _ in reqs], case))
        # oracle: numpy on the source values, bit for bit
        expd = data_line(srv.ty, exp)
        if got is None:
            ctx.oracle_fail("remote indexing raised (values)", case, impl, expd, size=exp.size + 10 * len(shape))
        elif data_line(srv.ty, got) != expd:
            ctx.oracle_fail("remote indexing returns other values/shape than numpy on the source", case,
                            data_line(srv.ty, got), expd, size=int(np.prod(shape or (1,))) + 10 * len(shape) + len(repr(idx)))
        stride = any(s > 1 for (_, s, _) in pre)
        ctx.count(("e2e", srv.ty, shape, tuple(pre), repr(idx), tuple(srv.vals)), True,
                  tag="e2e:%s:array:%s:rank%d:%s" % (where, srv.ty, len(shape), "pre-stride" if stride else "pre" if pre else "nopre"),
                  sample=case)

    # -- (C): grid ---------------------------------------------------------------------------------
    def grid_case(self, srv, client, pre, idx, og, where):
        ctx, c02 = self.ctx, self.c02
        shape = srv.shape
        rank = len(shape)
        pfull = list(c02.pre_slices(pre)) + [slice(None)] * (rank - len(pre))
        base = srv.src[tuple(pfull)]
        cshape = tuple(base.shape)
        case = {"kind": "e2e-grid", "ty": srv.ty, "shape": list(shape), "vals": [v.hex() if isinstance(v, bytes) else v for v in srv.vals],
                "maps": [[mty, [v.hex() if isinstance(v, bytes) else v for v in mv]] for mty, mv in srv.maps],
                "pre": [list(p) for p in pre], "index": repr(idx), "output_grid": og}
        if not c02.in_domain(idx, cshape):
            return
        k1 = c02.keep1(idx, cshape)
        exp = base[k1]
        if exp.size == 0:
            return
        t = idx if isinstance(idx, tuple) else (idx,)
        n_indexed = rank if any(e is Ellipsis for e in t) else len(t)
        try:
            r = client["g"][idx]
            parts, obs = [], {}
            if og:
                arr = np.asarray(r["g"].data)
                parts.append("(0 (ok %s x))" % data_only(srv.ty, arr))
                obs["g"] = data_line(srv.ty, arr)
                for ax in range(rank):
                    d = r["m%d" % ax].data
                    lazy = not isinstance(d, np.ndarray)
                    d = np.asarray(d if not lazy else d[:])
                    obs["m%d" % ax] = data_line(srv.maps[ax][0], d)
                    if ax < n_indexed:
                        parts.append("(%d (ok %s x))" % (ax + 1, data_only(srv.maps[ax][0], d)))
            else:
                arr = np.asarray(r.data)
                parts.append("(0 (ok %s x))" % data_only(srv.ty, arr))
                obs["g"] = data_line(srv.ty, arr)
            impl = "(" + " ".join(parts) + ")"
        except Exception as e:
            impl, obs = "escaped:" + type(e).__name__, None
        maps_s = "(" + " ".join("(%s %s)" % (mty, vals_sexp(mty, mv)) for mty, mv in srv.maps) + ")"
        self.cases.append(("e2e-grid %d %s (%s) %s %s (%s) %s" % (
            1 if og else 0, srv.ty, " ".join(map(str, shape)), vals_sexp(srv.ty, srv.vals), maps_s,
            " ".join(sl_sexp(s) for s in c02.pre_slices(pre)), tup_sexp(t)), impl, case))
        expd = {"g": data_line(srv.ty, exp)}
        if og:
            for ax in range(rank):
                expd["m%d" % ax] = data_line(srv.maps[ax][0], srv.map_arrays[ax][pfull[ax]][k1[ax]])
        if obs is None or obs != expd:
            ctx.oracle_fail("sliced grid: values of array or maps differ from numpy on the source", case, obs or impl, expd,
                            size=int(np.prod(shape)) + 10 * rank + len(repr(idx)))
        ctx.count(("e2e-grid", srv.ty, shape, tuple(pre), repr(idx), og, tuple(srv.vals)), True,
                  tag="e2e:%s:grid(og=%s):rank%d" % (where, "on" if og else "off", rank), sample=case)

    def flush(self, what):
        self.ctx.correspond(what, self.cases)
        self.cases = []


def gather_cases(ctx, rng, n):
    """the model's definition of numpy N-d basic indexing (row-major gather along per-axis position lists) vs numpy"""
    cases = []
    for _ in range(n):
        rank = rng.choice([0, 1, 2, 2, 3, 3, 4])
        shape = tuple(rng.randint(1, 4) for _ in range(rank))
        size = int(np.prod(shape)) if shape else 1
        vals = [rng.randint(-99, 99) for _ in range(size)]
        src = np.array(vals, dtype="i8").reshape(shape)
        pos = [[rng.randrange(N) for _ in range(rng.randint(0, 4))] for N in shape]
        exp = src[np.ix_(*pos)] if rank else src
        line = "e2e-gather (%s) (%s) (%s)" % (" ".join(map(str, shape)), " ".join("(" + " ".join(map(str, p)) + ")" for p in pos),
                                             " ".join(map(str, vals)))
        cases.append((line, "(" + " ".join(str(int(v)) for v in np.asarray(exp).reshape(-1)) + ")", {"shape": shape, "pos": pos}))
        ctx.count(("gather", shape, repr(pos), tuple(vals)), exp.size > 0, tag="e2e:gather-vs-numpy:rank%d" % rank)
    ctx.correspond("row-major gather vs numpy src[np.ix_(positions)]", cases)


def explore_e2e(ctx, c02, quick):
    R = E2ERunner(ctx, c02)
    rng = ctx.rng("e2e")
    gather_cases(ctx, ctx.rng("e2e-gather"), 300 if quick else 5000)
    # every type, rank 0..3
    n_srv = 160 if quick else 2400
    per = 24 if quick else 60
    for k in range(n_srv):
        ty = X.TYPES[k % len(X.TYPES)]
        rank = rng.choice([0, 1, 1, 2, 2, 3]) if k >= 16 else [0, 1][k // 8]
        shape = tuple(rng.randint(1, 5) for _ in range(rank))
        vals = make_values(rng, ty, shape)
        maps = []
        for N in shape:
            mty = rng.choice(X.TYPES)
            maps.append((mty, make_values(rng, mty, (N,))))
        srv = ServedValues(ty, shape, vals, maps)
        pres = [[]] if not shape else [[], c02.rand_pre(rng, shape), c02.rand_pre(rng, shape)]
        for pre in pres:
            cshape = tuple(srv.src[c02.pre_slices(pre)].shape) if shape else ()
            if 0 in cshape:
                continue
            clients = {}
            for _ in range(per // len(pres)):
                idx = c02.rand_index(rng, cshape) if shape else rng.choice([(), Ellipsis, (Ellipsis,)])
                r = rng.random()
                if not shape or r < 0.55:
                    if True not in clients:
                        clients[True] = R.open(srv, pre, True)
                    if clients[True] is not None:
                        R.array_case(srv, clients[True], pre, idx, "sampled")
                else:
                    og = r < 0.9
                    if og not in clients:
                        clients[og] = R.open(srv, pre, og)
                    if clients[og] is not None:
                        R.grid_case(srv, clients[og], pre, idx, og, "sampled")
        if k % 10 == 9:
            R.flush("end to end on values (array, body, text, grid)")
    R.flush("end to end on values (array, body, text, grid)")


def replay_case(ctx, c02, c):
    g = {"slice": slice, "Ellipsis": Ellipsis}

    def unhex(ty, vs):
        return [bytes.fromhex(v) if ty == "String" else v for v in vs]
    ty, shape = c["ty"], tuple(c["shape"])
    maps = [(m[0], unhex(m[0], m[1])) for m in c.get("maps", [])]
    if not maps:
        maps = [("Int32", list(range(N))) for N in shape]
    srv = ServedValues(ty, shape, unhex(ty, c["vals"]), maps)
    pre = [tuple(p) for p in c.get("pre", [])]
    R = E2ERunner(ctx, c02)
    idx = eval(c["index"], g)
    cl = R.open(srv, pre, True if c["kind"] == "e2e-array" else c["output_grid"])
    if cl is None:
        return
    if c["kind"] == "e2e-array":
        R.array_case(srv, cl, pre, idx, "replay")
    else:
        R.grid_case(srv, cl, pre, idx, c["output_grid"], "replay")
