"""C05 — data responses are byte-exact DAP2/XDR; the client decodes any conforming stream.
Proof: lean/Props/C05.lean (encImpl = reference encoder, decoder round trip with fuel adequacy, content
length, separator split, type tables).  Tie: hex of real .dods bodies vs `encImpl`, client decoding of
reference-encoded bytes vs `decImpl`, Content-Length vs `calcSize`, split vs `splitBody`.  Oracle: an
independent Python reference encoder and the source values."""
import json

import numpy as np

import common
import xdrlib as X
from common import hexb

import warnings

LEVEL = "proof"
warnings.filterwarnings("ignore")


# ---------------------------------------------------------------------------------------------------
def pack(x):
    if isinstance(x, bytes):
        return "x" + x.hex()
    if isinstance(x, (list, tuple)):
        return [pack(v) for v in x]
    return x


def unpack_t(x):
    if x[0] == "b":
        return ("b", x[1], tuple(x[2]), x[3], bool(x[4]))
    if x[0] == "sq":
        return ("sq", x[1], [unpack_t(c) for c in x[2]], x[3])
    return (x[0], x[1], [unpack_t(c) for c in x[2]])


def unpack_d(t, x):
    if t[0] == "b":
        if t[1] == "String":
            return bytes.fromhex(x[1:]) if not t[2] else [bytes.fromhex(v[1:]) for v in x]
        return x
    if t[0] in ("st", "gr"):
        return [unpack_d(c, v) for c, v in zip(t[2], x)]
    return [[unpack_d(c, v) for c, v in zip(t[2], row)] for row in x]


def lazy_peek_class(t, d):
    """finding class C01.lazy_type_peek: an IterData-backed sequence whose dtype inference (first record,
    recursively) meets no record: zero records, or a first record whose inner sequence is empty"""
    def first_empty(sq, rows):
        if sq[3] != "iter":
            return False
        if not rows:
            return True
        for c, x in zip(sq[2], rows[0]):
            if c[0] == "sq" and first_empty(c, x):
                return True
        return False

    def go(t, d):
        if t[0] == "sq":
            return first_empty(t, d)
        if t[0] in ("st", "gr"):
            return any(go(c, x) for c, x in zip(t[2], d))
        return False
    return go(t, d)


def classify(t, d):
    if lazy_peek_class(t, d):
        return "C01.lazy_type_peek"
    return None


# ---------------------------------------------------------------------------------------------------
def serve(t, d, ce=""):
    from pydap.handlers.lib import BaseHandler

    ds = X.build_dataset(t, d)
    app = BaseHandler(ds)
    r = X.get(app, "/d.dods" + (("?" + ce) if ce else ""))
    return app, r


def decode_with_client(dds_text, xdr):
    """the client's decoder on a byte string: unpack_dap2_data over a BytesReader, as
    BaseProxyDap2.__getitem__ does"""
    from pydap.handlers.dap import unpack_dap2_data
    from pydap.lib import BytesReader
    from pydap.parsers.dds import dds_to_dataset

    dataset = dds_to_dataset(dds_text)
    reader = BytesReader(xdr)
    values = unpack_dap2_data(reader, dataset)
    return dataset, values, reader.data


def judge(t, d, tail=b""):
    """direct oracle on the implementation for one dataset; returns (failures, artefacts).
    failures: list of (what, observed, expected)"""
    fails = []
    art = {}
    ref = X.ref_enc(t, d)
    art["ref"] = ref
    # ---- encoder direction ------------------------------------------------------------------------
    try:
        app, r = serve(t, d)
        cl = r.headers.get("Content-Length")     # before .body, which makes webob fill the header in
        raw = r.body
        art["status"] = r.status_int
    except Exception as e:  # escaped the handler
        fails.append(("GET .dods raised %s" % type(e).__name__, repr(e)[:200], "a data response"))
        raw = None
    if raw is not None:
        if not raw.startswith(b"Dataset {") or b"Data:\n" not in raw:
            fails.append(("GET .dods did not return a data response", raw[:160].decode("latin1"), "DDS + Data: + XDR"))
        else:
            dds, xdr = X.split_body(raw)
            art["dds"], art["xdr"], art["raw"] = dds, xdr, raw
            if xdr != ref:
                fails.append(("body differs from the reference DAP2/XDR encoding", xdr.hex(), ref.hex()))
            art["content_length"] = cl
            if cl is not None and int(cl) != len(raw):
                fails.append(("Content-Length differs from the body length", cl, len(raw)))
            r2 = X.get(app, "/d.dds")
            if r2.body != dds:
                fails.append(("embedded DDS differs from the .dds response", dds.decode("latin1"),
                              r2.body.decode("latin1")))
            if raw.find(b"\nData:\n") != len(dds) - 1:
                fails.append(("separator occurs inside the DDS", raw.find(b"\nData:\n"), len(dds) - 1))
    # ---- decoder direction: reference bytes into the client ----------------------------------------
    dds_text = X.ref_dds(t)      # independent of what the server printed
    art["dds_text"] = dds_text
    try:
        dataset, values, rest = decode_with_client(dds_text, ref + tail)
        probs = []
        got = X.canon(t, X.decoded_to_raw(values, t), probs)
        art["decoded"], art["rest"] = got, bytes(rest)
        if got != d:
            fails.append(("client decodes reference-encoded bytes to other values", pack(got), pack(d)))
        elif bytes(rest) != tail:
            fails.append(("client consumes a different number of bytes than the encoding has", len(rest), len(tail)))
        elif probs:
            fails.append(("client returns another type or shape", probs[:3], "declared type/shape"))
    except Exception as e:
        art["decoded"] = None
        fails.append(("client fails on reference-encoded bytes: %s" % type(e).__name__, repr(e)[:200], pack(d)))
    return fails, art


def tags_of(t):
    out = []
    for n in X.walk_t(t):
        if n[0] == "b":
            out.append(("array-" if n[2] else "scalar-") + n[1])
        elif n[0] == "sq":
            out.append("seq-" + n[3] + ("-nested" if any(c[0] == "sq" for c in n[2]) else "-flat"))
        else:
            out.append("struct" if n[0] == "st" else "grid")
    return out


def check_dataset(ctx, t, d, cases, where, tail=b""):
    fails, art = judge(t, d, tail)
    cls = classify(t, d)
    case = {"tmpl": pack(t), "data": pack(d), "tail": pack(tail)}
    size = len(json.dumps(case))
    for what, obs, exp in fails:
        ctx.oracle_fail(what, case, obs, exp, cls=cls, size=size)
    ts, dsx = X.tmpl_sexp(t), X.data_sexp(t, d)
    meta = {"tmpl": pack(t), "data": pack(d), "cls": cls}
    if "xdr" in art:
        cases.append(("xdr-enc %s %s" % (ts, dsx), hexb(art["xdr"]), meta))
        cl = art.get("content_length")
        cases.append(("xdr-size %s %d" % (ts, len(art["dds"])), "none" if cl is None else str(int(cl)), meta))
        raw = art["raw"]
        if len(raw) < 6000:
            cases.append(("xdr-split %s" % hexb(raw), "(ok %s %s)" % (hexb(art["dds"][:-1]), hexb(art["xdr"])), meta))
    # the reference encoder of the Lean development and the oracle's Python one must agree (machinery check)
    cases.append(("xdr-spec %s %s" % (ts, dsx), hexb(art["ref"]), meta))
    cases.append(("xdr-wf %s %s" % (ts, dsx), "true", meta))
    if art.get("decoded") is not None:
        impl = "(ok %s %s)" % (X.data_sexp(t, art["decoded"]), hexb(art["rest"]))
    else:
        impl = "(err)"
    cases.append(("xdr-dec %s %s" % (ts, hexb(art["ref"] + tail)), impl, meta))
    tg = tags_of(t)
    for g in set(tg):
        ctx.tags[where + ":" + g] += 1
    nontrivial = any(g.startswith("seq") or g.startswith("array") or g in ("struct", "grid") for g in tg)
    ctx.count((ts, dsx), nontrivial, sample={"tmpl": ts[:200], "data": dsx[:200]})
    return fails, art


def check_malformed(ctx, t, d, rng, cases):
    """truncated / corrupted streams: only `error or not` is compared with the model (C09 owns the
    property about truncation); keeps the model's error branches honest"""
    ref = X.ref_enc(t, d)
    if len(ref) < 2:
        return
    cut = rng.randint(0, len(ref) - 1)
    blob = ref[:cut]
    dds_text = X.ref_dds(t)
    try:
        dataset, values, rest = decode_with_client(dds_text, blob)
        got = X.canon(t, X.decoded_to_raw(values, t))
        impl = "(ok %s %s)" % (X.data_sexp(t, got), hexb(rest))
    except Exception:
        impl = "(err)"
    cases.append(("xdr-dec %s %s" % (X.tmpl_sexp(t), hexb(blob)), impl, {"tmpl": pack(t), "cut": cut, "cls": "malformed"}))
    ctx.tags["malformed:" + impl[:4]] += 1


def check_projection(ctx, t, d, rng, cases):
    """in-range constraint expressions: one projected variable, arrays with a hyperslab"""
    i = rng.randrange(len(t[2]))
    c, x = t[2][i], d[i]
    name = c[3] if c[0] == "b" else c[1]
    ce = name
    tc, xc = c, x
    if c[0] == "b" and c[2] and all(n > 0 for n in c[2]):
        sl = []
        for n in c[2]:
            a = rng.randint(0, n - 1)
            b = rng.randint(a, n - 1)
            k = rng.randint(1, 3)
            sl.append((a, k, b))
        ce = name + "".join("[%d:%d:%d]" % s for s in sl)
        arr = np.array(x, dtype=object).reshape(c[2])
        sub = arr[tuple(slice(a, b + 1, k) for a, k, b in sl)]
        tc = ("b", c[1], tuple(sub.shape), c[3], c[4])
        xc = list(sub.reshape(-1))
    tt, dd = ("st", "d", [tc]), [xc]
    case = {"tmpl": pack(t), "data": pack(d), "ce": ce, "ref": X.ref_enc(tt, dd).hex()}
    cls = classify(t, d)
    try:
        app, r = serve(t, d, ce)
        cl = r.headers.get("Content-Length")
        raw = r.body
    except Exception as e:
        ctx.oracle_fail("GET .dods?%s raised %s" % ("<ce>", type(e).__name__), case, repr(e)[:200], "a data response", cls=cls)
        return
    if not raw.startswith(b"Dataset {") or b"Data:\n" not in raw:
        ctx.oracle_fail("constrained GET did not return a data response", case, raw[:160].decode("latin1"),
                        "DDS + Data: + XDR", cls=cls)
        return
    dds, xdr = X.split_body(raw)
    ref = X.ref_enc(tt, dd)
    if xdr != ref:
        ctx.oracle_fail("constrained body differs from the reference encoding", case, xdr.hex(), ref.hex(), cls=cls)
    if cl is not None and int(cl) != len(raw):
        ctx.oracle_fail("Content-Length differs from the body length (constrained)", case, cl, len(raw), cls=cls)
    r2 = X.get(app, "/d.dds?" + ce)
    if r2.body != dds:
        ctx.oracle_fail("embedded DDS differs from the .dds response (constrained)", case, dds.decode("latin1"),
                        r2.body.decode("latin1"), cls=cls)
    meta = {"tmpl": pack(tt), "data": pack(dd), "ce": ce, "cls": cls}
    cases.append(("xdr-enc %s %s" % (X.tmpl_sexp(tt), X.data_sexp(tt, dd)), hexb(xdr), meta))
    cases.append(("xdr-size %s %d" % (X.tmpl_sexp(tt), len(dds)), "none" if cl is None else str(int(cl)), meta))
    ctx.count(("ce", ce, X.data_sexp(tt, dd)), True, tag="ce:" + ("hyperslab" if "[" in ce else "var"))


# ---------------------------------------------------------------------------------------------------
def focused(rng):
    """small datasets aimed at one type x one container each (every type x rank x flat-sequence column)"""
    out = []
    for ty in X.TYPES:
        for shape in [(), (0,), (1,), (2,), (3,), (5,), (2, 3), (2, 1, 2), (3, 0)]:
            b = ("b", ty, shape, "v", False)
            out.append(("st", "d", [b]))
        for backend in ("numpy", "iter"):
            out.append(("st", "d", [("sq", "q", [("b", ty, (), "a", False)], backend)]))
            other = rng.choice(X.TYPES)
            out.append(("st", "d", [("sq", "q", [("b", other, (), "a", False), ("b", ty, (), "b", False)], backend)]))
        out.append(("st", "d", [("sq", "q", [("b", "Int32", (), "a", False),
                                             ("sq", "r", [("b", ty, (), "b", False)], "iter")], "iter")]))
    out.append(("st", "d", [("b", "Int16", (3,), "v", True)]))
    return out


def explore(ctx, tier, search=False):
    rng = ctx.rng("datasets")
    cases = []
    for t in focused(rng):
        for nrows in (0, 1, 3):
            d = [X.gen_data(rng, c, nrows=nrows) if c[0] == "sq" else X.gen_data(rng, c) for c in t[2]]
            check_dataset(ctx, t, d, cases, "focused")
            if not X.has_seq(t):
                break
    n = ctx.budget(2500, 40000) * (3 if search else 1)
    for i in range(n):
        t = X.gen_dataset(rng)
        d = X.gen_data(rng, t)
        tail = b"" if rng.random() < 0.6 else bytes(rng.getrandbits(8) for _ in range(rng.randint(1, 9)))
        check_dataset(ctx, t, d, cases, "random", tail)
        if i % 3 == 0:
            check_projection(ctx, t, d, rng, cases)
        if i % 4 == 0:
            check_malformed(ctx, t, d, rng, cases)
        if len(cases) > 4000:
            flush(ctx, cases)
            cases = []
    flush(ctx, cases)


def flush(ctx, cases):
    ctx.correspond("encImpl/decImpl/calcSize/splitBody vs responses.dods / handlers.dap", cases,
                   known_class=lambda m: m.get("cls") if m.get("cls") not in (None, "malformed") else None)


WITNESS_LAZY = (("st", "d", [("sq", "q", [("b", "Int32", (), "a", False)], "iter")]), [[]])


def witness_lazy():
    t, d = WITNESS_LAZY
    fails, _ = judge(t, d)
    return bool(fails)


def run(ctx):
    ctx.rule = ("datasets generated type-directed over the DAP2 domain (8 types with edge values, ranks 0..3 incl. "
                "zero extents, structures/grids to depth 3, numpy- and IterData-backed sequences with 0..4 records "
                "and nested inner sequences), a focused family (every type x 9 shapes, every type as a flat-sequence "
                "column on both backends and as an inner-sequence column), projections with hyperslabs, and a "
                "truncated-stream family; a dataset is non-trivial when it has an array, a container or a sequence; "
                "distinct by (declaration, data)")
    ctx.assumptions = ["numpy astype/tobytes/frombuffer behave as modelled (two's complement wrap, IEEE bits kept)",
                       "the DDS text is opaque to the theorems (C07); the separator hypothesis of C05_dds_embedded "
                       "is checked on every real body",
                       "negative length words are reported as errors by the "
                       "model and compared only as error/ok"]
    ctx.proof_phase()
    explore(ctx, ctx.tier)
    return ctx.finish(search=lambda c: explore(c, "thorough", search=True),
                      witnesses={"C01.lazy_type_peek": witness_lazy})


def replay(payload):
    f = payload.get("failure")
    if not f:
        print("nothing to replay: %s" % payload.get("no_longer_checks"))
        return False
    c = f["case"]
    t = unpack_t(c["tmpl"])
    d = unpack_d(t, c["data"])
    tail = bytes.fromhex(c.get("tail", "x")[1:]) if isinstance(c.get("tail"), str) else b""
    if "ce" in c:
        # replay the recorded constraint literally against the recorded reference encoding
        app, r = serve(t, d, c["ce"])
        cl = r.headers.get("Content-Length")
        raw = r.body
        print("GET /d.dods?%s -> %d, %d bytes, Content-Length %s" % (c["ce"], r.status_int, len(raw), cl))
        if not (raw.startswith(b"Dataset {") and b"Data:\n" in raw):
            return False
        dds, xdr = X.split_body(raw)
        print("observed", xdr.hex(), "expected", c.get("ref"))
        return (cl is None or int(cl) == len(raw)) and xdr.hex() == c.get("ref") and \
            X.get(app, "/d.dds?" + c["ce"]).body == dds
    fails, _ = judge(t, d, tail)
    for what, obs, exp in fails:
        print("FAILS:", what, "| observed", str(obs)[:300], "| expected", str(exp)[:300])
    return not fails
