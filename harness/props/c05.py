"""C05 — data responses are byte-exact DAP2/XDR; the client decodes any conforming stream.
Proof: lean/Props/C05.lean (encImpl = reference encoder, decoder round trip with fuel adequacy, content
length, separator split, type tables).  Tie: hex of real .dods bodies vs `encImpl`, client decoding of
reference-encoded bytes vs `decImpl`, Content-Length vs `calcSize`, split vs `splitBody`.  Oracle: an
independent Python reference encoder and the source values.  Third round: the reference bytes also go through
every streaming reader of the client (StreamReader under several chunkings, open_dods_url, SequenceProxy.__iter__),
compared with the model's `decStream` / `openDodsUrl` / `seqProxy` and with the source values; the real decoder's
logged read sizes are compared with the model's read trace."""
import json

import numpy as np

import common
import xdrlib as X
from common import hexb

import warnings

LEVEL = "proof"
warnings.filterwarnings("ignore")


# ---------------------------------------------------------------------------------------------------
def pack(x):
    if isinstance(x, bytes):
        return "x" + x.hex()
    if isinstance(x, (list, tuple)):
        return [pack(v) for v in x]
    return x


def unpack_t(x):
    if x[0] == "b":
        return ("b", x[1], tuple(x[2]), x[3], bool(x[4]))
    if x[0] == "sq":
        return ("sq", x[1], [unpack_t(c) for c in x[2]], x[3])
    return (x[0], x[1], [unpack_t(c) for c in x[2]])


def unpack_d(t, x):
    if t[0] == "b":
        if t[1] == "String":
            return bytes.fromhex(x[1:]) if not t[2] else [bytes.fromhex(v[1:]) for v in x]
        return x
    if t[0] in ("st", "gr"):
        return [unpack_d(c, v) for c, v in zip(t[2], x)]
    return [[unpack_d(c, v) for c, v in zip(t[2], row)] for row in x]


def lazy_peek_class(t, d):
    """finding class C01.lazy_type_peek: an IterData-backed sequence whose dtype inference (first record,
    recursively) meets no record: zero records, or a first record whose inner sequence is empty"""
    def first_empty(sq, rows):
        if sq[3] != "iter":
            return False
        if not rows:
            return True
        for c, x in zip(sq[2], rows[0]):
            if c[0] == "sq" and first_empty(c, x):
                return True
        return False

    def go(t, d):
        if t[0] == "sq":
            return first_empty(t, d)
        if t[0] in ("st", "gr"):
            return any(go(c, x) for c, x in zip(t[2], d))
        return False
    return go(t, d)


def classify(t, d):
    if lazy_peek_class(t, d):
        return "C01.lazy_type_peek"
    return None


# ---------------------------------------------------------------------------------------------------
def serve(t, d, ce=""):
    from pydap.handlers.lib import BaseHandler

    ds = X.build_dataset(t, d)
    app = BaseHandler(ds)
    r = X.get(app, "/d.dods" + (("?" + ce) if ce else ""))
    return app, r


def read_trace(dds_text, xdr):
    """the sizes of the `read` calls the real decoder issues on `xdr` (the zero-length ones included), up to and
    including the one that failed"""
    from pydap.handlers.dap import unpack_dap2_data
    from pydap.parsers.dds import dds_to_dataset

    tr = X.TracingBytesReader(xdr)
    try:
        unpack_dap2_data(tr, dds_to_dataset(dds_text))
    except Exception:
        pass
    return tr.reads


def decode_with_client(dds_text, xdr):
    """the client's decoder on a byte string: unpack_dap2_data over a BytesReader, as
    BaseProxyDap2.__getitem__ does"""
    from pydap.handlers.dap import unpack_dap2_data
    from pydap.lib import BytesReader
    from pydap.parsers.dds import dds_to_dataset

    dataset = dds_to_dataset(dds_text)
    reader = BytesReader(xdr)
    values = unpack_dap2_data(reader, dataset)
    return dataset, values, reader.data


URL = "http://localhost:8001/d"


def stream_paths(t, d, ref, tail, dds_text, heavy=True):
    """the reference-encoded response through every *streaming* reader of the client, delivered in several
    chunkings: `StreamReader` directly, `open_dods_url` (application and requests transport) and, for every
    top-level sequence, `SequenceProxy.__iter__`.  Yields (path, kind, tmpl, model_line, outcome) with
    outcome = ("ok", data, rest|None, type problems) | ("err", text); kind "full" = the whole dataset,
    ("seq", i) = variable i; model_line = the same delivery for the Lean model"""
    from pydap.client import open_dods_url
    from pydap.handlers.dap import SequenceProxy, unpack_dap2_data, unpack_sequence
    from pydap.lib import StreamReader
    from pydap.parsers.dds import dds_to_dataset

    seed = len(ref) * 31 + len(tail)
    blob = ref + tail
    ts = X.tmpl_sexp(t)
    hexs = lambda chunks: "(%s)" % " ".join(hexb(c) for c in chunks)
    tr = X.TracingBytesReader(blob)
    parsed = dds_to_dataset(dds_text)      # decoding does not change the declaration: parsed once
    try:
        unpack_dap2_data(tr, parsed)
    except Exception:
        pass
    # -- StreamReader over an iterator of chunks (what open_dods_url / SequenceProxy wrap the body in)
    for how in X.CHUNKINGS:
        chunks = X.chunk(blob, how, seed, tr.reads)
        try:
            it = iter(chunks)
            reader = StreamReader(it)
            values = unpack_dap2_data(reader, parsed)
            probs = []
            got = X.canon(t, X.decoded_to_raw(values, t), probs)
            rest = bytes(reader.buf) + b"".join(it)
            out = ("ok", got, rest, probs)
        except Exception as e:
            out = ("err", "%s: %s" % (type(e).__name__, str(e)[:120]))
        yield ("StreamReader/" + how, "full", t, "xdr-dec-sr %s %s" % (ts, hexs(chunks)), out)
    # -- open_dods_url: DDS + Data: + bytes served by an application / through the requests transport
    body = dds_text.encode("ascii") + b"Data:\n" + blob
    transports = [("app", how) for how in ("whole", "bytes", "last1")] + ([("session", "whole"), ("session-gzip", "whole")] if heavy else [])
    for tp, how in transports:
        app = X.CannedApp(dds_text, lambda q: body, chunker=lambda b, how=how: X.chunk(b, how, seed))
        try:
            if tp == "app":
                ds = open_dods_url(URL + ".dods", application=app)
            else:
                ds = open_dods_url(URL + ".dods", session=X.wsgi_session(app, gz=tp.endswith("gzip")))
            probs = []
            raw = [X.read_decoded_var(ds[c[3] if c[0] == "b" else c[1]], c) for c in t[2]]
            out = ("ok", X.canon(t, raw, probs), None, probs)
        except Exception as e:
            out = ("err", "%s: %s" % (type(e).__name__, str(e)[:120]))
        yield ("open_dods_url/%s/%s" % (tp, how), "full", t, "xdr-url %s %s" % (ts, hexb(body)), out)
    # -- SequenceProxy.__iter__ for every top-level sequence (its own response: DDS of the projection + data)
    for i, (c, x) in enumerate(zip(t[2], d)):
        if c[0] != "sq":
            continue
        tt = ("st", t[1], [c])
        sdds = X.ref_dds(tt)
        sref = X.ref_enc(c, x)
        sbody = sdds.encode("ascii") + b"Data:\n" + sref + tail
        k = len(sdds) + 6
        hows = list(X.CHUNKINGS) + ["cut@%d" % k, "cut@%d" % (k - 1), "cut@%d" % (k - 3)]
        trs = X.TracingBytesReader(sref + tail)
        sparsed = dds_to_dataset(sdds)
        template = sparsed[c[1]]
        try:
            list(unpack_sequence(trs, template))
        except Exception:
            pass
        for how in hows + (["session", "session-gzip"] if heavy else []):
            if how.startswith("cut@"):
                n = int(how[4:])
                chunker = lambda b, n=n: [b[:n], b[n:]]
            elif how == "reads":
                chunker = lambda b: [b[:k]] + X.chunk(b[k:], "reads", seed, trs.reads)
            else:
                chunker = lambda b, how=how: X.chunk(b, how if not how.startswith("session") else "whole", seed)
            app = X.CannedApp(sdds, lambda q: sbody, chunker=chunker)
            try:
                kw = {"application": app} if not how.startswith("session") else \
                    {"session": X.wsgi_session(app, gz=how.endswith("gzip"))}
                proxy = SequenceProxy(URL, template, **kw)
                rows = list(X.materialise_rows(iter(proxy), c))
                probs = []
                out = ("ok", X.canon(c, rows, probs), None, probs)
            except Exception as e:
                out = ("err", "%s: %s" % (type(e).__name__, str(e)[:120]))
            chunks = chunker(sbody) if not how.startswith("session") else X.chunk(sbody, "bytes")
            yield ("SequenceProxy/" + how, ("seq", i), c, "xdr-seqproxy %s %s" % (X.tmpl_sexp(c), hexs(chunks)), out)


def judge(t, d, tail=b"", heavy=True):
    """direct oracle on the implementation for one dataset; returns (failures, artefacts).
    failures: list of (what, observed, expected)"""
    fails = []
    art = {}
    ref = X.ref_enc(t, d)
    art["ref"] = ref
    # ---- encoder direction ------------------------------------------------------------------------
    try:
        app, r = serve(t, d)
        cl = r.headers.get("Content-Length")     # before .body, which makes webob fill the header in
        raw = r.body
        art["status"] = r.status_int
    except Exception as e:  # escaped the handler
        fails.append(("GET .dods raised %s" % type(e).__name__, repr(e)[:200], "a data response"))
        raw = None
    if raw is not None:
        if not raw.startswith(b"Dataset {") or b"Data:\n" not in raw:
            fails.append(("GET .dods did not return a data response", raw[:160].decode("latin1"), "DDS + Data: + XDR"))
        else:
            dds, xdr = X.split_body(raw)
            art["dds"], art["xdr"], art["raw"] = dds, xdr, raw
            if xdr != ref:
                fails.append(("body differs from the reference DAP2/XDR encoding", xdr.hex(), ref.hex()))
            art["content_length"] = cl
            if cl is not None and int(cl) != len(raw):
                fails.append(("Content-Length differs from the body length", cl, len(raw)))
            r2 = X.get(app, "/d.dds")
            if r2.body != dds:
                fails.append(("embedded DDS differs from the .dds response", dds.decode("latin1"),
                              r2.body.decode("latin1")))
            if raw.find(b"\nData:\n") != len(dds) - 1:
                fails.append(("separator occurs inside the DDS", raw.find(b"\nData:\n"), len(dds) - 1))
    # ---- decoder direction: reference bytes into the client ----------------------------------------
    dds_text = X.ref_dds(t)      # independent of what the server printed
    art["dds_text"] = dds_text
    try:
        dataset, values, rest = decode_with_client(dds_text, ref + tail)
        probs = []
        got = X.canon(t, X.decoded_to_raw(values, t), probs)
        art["decoded"], art["rest"] = got, bytes(rest)
        if got != d:
            fails.append(("client decodes reference-encoded bytes to other values", pack(got), pack(d)))
        elif bytes(rest) != tail:
            fails.append(("client consumes a different number of bytes than the encoding has", len(rest), len(tail)))
        elif probs:
            fails.append(("client returns another type or shape", probs[:3], "declared type/shape"))
    except Exception as e:
        art["decoded"] = None
        fails.append(("client fails on reference-encoded bytes: %s" % type(e).__name__, repr(e)[:200], pack(d)))
    art["trace"] = read_trace(dds_text, ref + tail)
    # ---- decoder direction, streaming readers: the same bytes in pieces ----------------------------------
    art["streams"] = []
    for path, kind, tt, line, out in stream_paths(t, d, ref, tail, dds_text, heavy):
        exp = d if kind == "full" else d[kind[1]]
        if out[0] == "err":
            fails.append(("%s fails on a reference-encoded response: %s" % (path, out[1].split(":")[0]), out[1], pack(exp)))
        elif out[1] != exp:
            fails.append(("%s decodes a reference-encoded response to other values" % path, pack(out[1]), pack(exp)))
        elif out[2] is not None and out[2] != tail:
            fails.append(("%s leaves other bytes unread than follow the encoding" % path, out[2].hex(), tail.hex()))
        elif out[3]:
            fails.append(("%s returns another type or shape" % path, out[3][:3], "declared type/shape"))
        art["streams"].append((path, kind, tt, line, out))
    return fails, art


def tags_of(t):
    out = []
    for n in X.walk_t(t):
        if n[0] == "b":
            out.append(("array-" if n[2] else "scalar-") + n[1])
        elif n[0] == "sq":
            out.append("seq-" + n[3] + ("-nested" if any(c[0] == "sq" for c in n[2]) else "-flat"))
        else:
            out.append("struct" if n[0] == "st" else "grid")
    return out


def check_dataset(ctx, t, d, cases, where, tail=b"", heavy=True):
    fails, art = judge(t, d, tail, heavy)
    cls = classify(t, d)
    case = {"tmpl": pack(t), "data": pack(d), "tail": pack(tail)}
    size = len(json.dumps(case))
    for what, obs, exp in fails:
        ctx.oracle_fail(what, case, obs, exp, cls=cls, size=size)
    ts, dsx = X.tmpl_sexp(t), X.data_sexp(t, d)
    meta = {"tmpl": pack(t), "data": pack(d), "cls": cls}
    if "xdr" in art:
        cases.append(("xdr-enc %s %s" % (ts, dsx), hexb(art["xdr"]), meta))
        cl = art.get("content_length")
        cases.append(("xdr-size %s %d" % (ts, len(art["dds"])), "none" if cl is None else str(int(cl)), meta))
        raw = art["raw"]
        if len(raw) < 6000:
            cases.append(("xdr-split %s" % hexb(raw), "(ok %s %s)" % (hexb(art["dds"][:-1]), hexb(art["xdr"])), meta))
    # the reference encoder of the Lean development and the oracle's Python one must agree (machinery check)
    cases.append(("xdr-spec %s %s" % (ts, dsx), hexb(art["ref"]), meta))
    cases.append(("xdr-wf %s %s" % (ts, dsx), "true", meta))
    if art.get("decoded") is not None:
        impl = "(ok %s %s)" % (X.data_sexp(t, art["decoded"]), hexb(art["rest"]))
    else:
        impl = "(err)"
    cases.append(("xdr-dec %s %s" % (ts, hexb(art["ref"] + tail)), impl, meta))
    cases.append(("xdr-trace %s %s" % (ts, hexb(art["ref"] + tail)), " ".join(str(n) for n in art["trace"]), meta))
    ctx.tags["last-read:" + ("zero" if art["trace"] and art["trace"][-1] == 0 else "nonzero")] += 1
    for path, kind, tt, line, out in art["streams"]:
        m2 = dict(meta, path=path)
        if out[0] == "err":
            impl = "(err)"
        elif out[2] is not None:
            impl = "(ok %s %s)" % (X.data_sexp(tt, out[1]), hexb(out[2]))
        else:
            impl = "(ok %s)" % X.data_sexp(tt, out[1])
        cases.append((line, impl, m2))
        ctx.tags["stream:" + path.split("@")[0]] += 1
    tg = tags_of(t)
    for g in set(tg):
        ctx.tags[where + ":" + g] += 1
    nontrivial = any(g.startswith("seq") or g.startswith("array") or g in ("struct", "grid") for g in tg)
    ctx.count((ts, dsx), nontrivial, sample={"tmpl": ts[:200], "data": dsx[:200]})
    return fails, art


def check_malformed(ctx, t, d, rng, cases):
    """truncated / corrupted streams: only `error or not` is compared with the model (C09 owns the
    property about truncation); keeps the model's error branches honest"""
    ref = X.ref_enc(t, d)
    if len(ref) < 2:
        return
    cut = rng.randint(0, len(ref) - 1)
    blob = ref[:cut]
    dds_text = X.ref_dds(t)
    try:
        dataset, values, rest = decode_with_client(dds_text, blob)
        got = X.canon(t, X.decoded_to_raw(values, t))
        impl = "(ok %s %s)" % (X.data_sexp(t, got), hexb(rest))
    except Exception as e:
        # C05_truncated_rejected: the error is the reader's end-of-data error, nothing else
        impl = "(err short)" if isinstance(e, EOFError) else "(err other)"
    cases.append(("xdr-dec-e %s %s" % (X.tmpl_sexp(t), hexb(blob)), impl, {"tmpl": pack(t), "cut": cut, "cls": "malformed"}))
    cases.append(("xdr-trace %s %s" % (X.tmpl_sexp(t), hexb(blob)), " ".join(str(n) for n in read_trace(dds_text, blob)),
                  {"tmpl": pack(t), "cut": cut, "cls": "malformed"}))
    # the cut stream through a StreamReader: must raise as well (model: `(err)`), for two chunkings
    from pydap.handlers.dap import unpack_dap2_data
    from pydap.lib import StreamReader
    from pydap.parsers.dds import dds_to_dataset
    for how in ("whole", "random"):
        chunks = X.chunk(blob, how, cut)
        try:
            it = iter(chunks)
            reader = StreamReader(it)
            values = unpack_dap2_data(reader, dds_to_dataset(dds_text))
            got = X.canon(t, X.decoded_to_raw(values, t))
            impl2 = "(ok %s %s)" % (X.data_sexp(t, got), hexb(bytes(reader.buf) + b"".join(it)))
            ctx.oracle_fail("a truncated reference stream decodes through StreamReader/" + how,
                            {"tmpl": pack(t), "data": pack(d), "cut": cut, "how": how}, impl2[:200], "an exception")
        except Exception:
            impl2 = "(err)"
        cases.append(("xdr-dec-sr %s (%s)" % (X.tmpl_sexp(t), " ".join(hexb(c) for c in chunks)), impl2,
                      {"tmpl": pack(t), "cut": cut, "cls": "malformed"}))
    ctx.tags["malformed:" + impl[:4]] += 1


def check_corrupted(ctx, t, d, rng, cases):
    """one byte of a reference stream overwritten: the real decoder and the model must agree on value / rest /
    class of error (end of data vs anything else).  Streams on which the decoder meets a negative length word
    are skipped (what `read` does with a negative count is outside the model)."""
    ref = X.ref_enc(t, d)
    if not ref:
        return
    i = rng.randrange(len(ref))
    blob = ref[:i] + bytes([rng.choice([0, 1, 2, 0x5a, 0x7f, 0x80, 0xa5, 0xff])]) + ref[i + 1:]
    dds_text = X.ref_dds(t)
    if any(n < 0 for n in read_trace(dds_text, blob)):
        ctx.tags["corrupted:skipped-negative-length"] += 1
        return
    try:
        dataset, values, rest = decode_with_client(dds_text, blob)
        got = X.canon(t, X.decoded_to_raw(values, t))
        impl = "(ok %s %s)" % (X.data_sexp(t, got), hexb(rest))
    except Exception as e:
        impl = "(err short)" if isinstance(e, EOFError) else "(err other)"
    cases.append(("xdr-dec-e %s %s" % (X.tmpl_sexp(t), hexb(blob)), impl, {"tmpl": pack(t), "at": i, "cls": "malformed", "corrupted": True}))
    ctx.tags["corrupted:" + impl[:10].strip()] += 1


def check_projection(ctx, t, d, rng, cases):
    """in-range constraint expressions: one projected variable, arrays with a hyperslab"""
    i = rng.randrange(len(t[2]))
    c, x = t[2][i], d[i]
    name = c[3] if c[0] == "b" else c[1]
    ce = name
    tc, xc = c, x
    if c[0] == "b" and c[2] and all(n > 0 for n in c[2]):
        sl = []
        for n in c[2]:
            a = rng.randint(0, n - 1)
            b = rng.randint(a, n - 1)
            k = rng.randint(1, 3)
            sl.append((a, k, b))
        ce = name + "".join("[%d:%d:%d]" % s for s in sl)
        arr = np.array(x, dtype=object).reshape(c[2])
        sub = arr[tuple(slice(a, b + 1, k) for a, k, b in sl)]
        tc = ("b", c[1], tuple(sub.shape), c[3], c[4])
        xc = list(sub.reshape(-1))
    tt, dd = ("st", "d", [tc]), [xc]
    case = {"tmpl": pack(t), "data": pack(d), "ce": ce, "ref": X.ref_enc(tt, dd).hex()}
    cls = classify(t, d)
    try:
        app, r = serve(t, d, ce)
        cl = r.headers.get("Content-Length")
        raw = r.body
    except Exception as e:
        ctx.oracle_fail("GET .dods?%s raised %s" % ("<ce>", type(e).__name__), case, repr(e)[:200], "a data response", cls=cls)
        return
    if not raw.startswith(b"Dataset {") or b"Data:\n" not in raw:
        ctx.oracle_fail("constrained GET did not return a data response", case, raw[:160].decode("latin1"),
                        "DDS + Data: + XDR", cls=cls)
        return
    dds, xdr = X.split_body(raw)
    ref = X.ref_enc(tt, dd)
    if xdr != ref:
        ctx.oracle_fail("constrained body differs from the reference encoding", case, xdr.hex(), ref.hex(), cls=cls)
    if cl is not None and int(cl) != len(raw):
        ctx.oracle_fail("Content-Length differs from the body length (constrained)", case, cl, len(raw), cls=cls)
    r2 = X.get(app, "/d.dds?" + ce)
    if r2.body != dds:
        ctx.oracle_fail("embedded DDS differs from the .dds response (constrained)", case, dds.decode("latin1"),
                        r2.body.decode("latin1"), cls=cls)
    meta = {"tmpl": pack(tt), "data": pack(dd), "ce": ce, "cls": cls}
    cases.append(("xdr-enc %s %s" % (X.tmpl_sexp(tt), X.data_sexp(tt, dd)), hexb(xdr), meta))
    cases.append(("xdr-size %s %d" % (X.tmpl_sexp(tt), len(dds)), "none" if cl is None else str(int(cl)), meta))
    ctx.count(("ce", ce, X.data_sexp(tt, dd)), True, tag="ce:" + ("hyperslab" if "[" in ce else "var"))


# ---------------------------------------------------------------------------------------------------
def focused(rng):
    """small datasets aimed at one type x one container each (every type x rank x flat-sequence column)"""
    out = []
    for ty in X.TYPES:
        for shape in [(), (0,), (1,), (2,), (3,), (5,), (2, 3), (2, 1, 2), (3, 0)]:
            b = ("b", ty, shape, "v", False)
            out.append(("st", "d", [b]))
        for backend in ("numpy", "iter"):
            out.append(("st", "d", [("sq", "q", [("b", ty, (), "a", False)], backend)]))
            other = rng.choice(X.TYPES)
            out.append(("st", "d", [("sq", "q", [("b", other, (), "a", False), ("b", ty, (), "b", False)], backend)]))
        out.append(("st", "d", [("sq", "q", [("b", "Int32", (), "a", False),
                                             ("sq", "r", [("b", ty, (), "b", False)], "iter")], "iter")]))
    out.append(("st", "d", [("b", "Int16", (3,), "v", True)]))
    return out


def explore(ctx, tier, search=False):
    rng = ctx.rng("datasets")
    cases = []
    for t in focused(rng):
        for nrows in (0, 1, 3):
            d = [X.gen_data(rng, c, nrows=nrows) if c[0] == "sq" else X.gen_data(rng, c) for c in t[2]]
            check_dataset(ctx, t, d, cases, "focused")
            if not X.has_seq(t):
                break
    # what the decoder reads LAST decides whether its final read has length 0: every kind of last variable
    for kind, t, d in X.last_variable_datasets(rng, ctx.budget(8, 60)):
        check_dataset(ctx, t, d, cases, "last")
        ctx.tags["last-variable:" + kind] += 1
    n = ctx.budget(2500, 40000) * (3 if search else 1)
    for i in range(n):
        t = X.gen_dataset(rng)
        d = X.gen_data(rng, t)
        tail = b"" if rng.random() < 0.6 else bytes(rng.getrandbits(8) for _ in range(rng.randint(1, 9)))
        check_dataset(ctx, t, d, cases, "random", tail, heavy=(i % 3 == 0))
        if i % 3 == 0:
            check_projection(ctx, t, d, rng, cases)
        if i % 4 == 0:
            check_malformed(ctx, t, d, rng, cases)
        if i % 4 == 1:
            check_corrupted(ctx, t, d, rng, cases)
        if len(cases) > 4000:
            flush(ctx, cases)
            cases = []
    flush(ctx, cases)


def flush(ctx, cases):
    # corrupted streams on which the model meets a negative length word are outside the model: dropped
    cor = [c for c in cases if c[2].get("corrupted")]
    if cor:
        outs = common.run_driver([c[0] for c in cor])
        drop = {id(c) for c, o in zip(cor, outs) if o == "(err neglen)"}
        ctx.tags["corrupted:skipped-negative-length(model)"] += len(drop)
        cases = [c for c in cases if id(c) not in drop]
    ctx.correspond("encImpl/decImpl/calcSize/splitBody vs responses.dods / handlers.dap", cases,
                   known_class=lambda m: m.get("cls") if m.get("cls") not in (None, "malformed") else None)


WITNESS_LAZY = (("st", "d", [("sq", "q", [("b", "Int32", (), "a", False)], "iter")]), [[]])


def witness_lazy():
    t, d = WITNESS_LAZY
    fails, _ = judge(t, d)
    return bool(fails)


def run(ctx):
    ctx.rule = ("datasets generated type-directed over the DAP2 domain (8 types with edge values, ranks 0..3 incl. "
                "zero extents, structures/grids to depth 3, numpy- and IterData-backed sequences with 0..4 records "
                "and nested inner sequences), a focused family (every type x 9 shapes, every type as a flat-sequence "
                "column on both backends and as an inner-sequence column), projections with hyperslabs, and a "
                "truncated-stream family and a corrupted-byte family; every reference-encoded response is decoded "
                "through BytesReader, StreamReader x 5 chunkings, open_dods_url x {app x 3 chunkings, requests, gzip} and, "
                "per top-level sequence, SequenceProxy.__iter__ x 10 deliveries; a family whose LAST variable is each of "
                "16 kinds (strings of length 0/4/8/5, Byte[4/8/5], zero extent, scalar, sequence, ...) so that the decoder's "
                "final read is zero-length; (value, representation) pairs: every type x 8 shapes and random values, each held "
                "in up to 8 representations (dtype char incl. 8-byte integers/int8/bool, byte order, C/Fortran/strided/"
                "reversed/offset/transposed/over-wide layouts, 0-d array/0-d view/numpy scalar/Python scalar/bytes), and records "
                "of lazy sequences with every cell in a random form (numpy scalar or 0-d array of any dtype char of the type, "
                "Python int/float/bool, str, numpy.str_, numpy.bytes_, bytes); a dataset is non-trivial when it has an array, a container or a sequence; "
                "distinct by (declaration, data)")
    ctx.assumptions = ["numpy astype/tobytes/frombuffer behave as modelled (two's complement wrap, IEEE bits kept)",
                       "the DDS text is opaque to the theorems (C07); the separator hypothesis of C05_dds_embedded "
                       "is checked on every real body",
                       "negative length words are reported as errors by the "
                       "model and compared only as error/ok"]
    ctx.proof_phase()
    explore(ctx, ctx.tier)
    from props import c05_rep
    c05_rep.explore(ctx, "representations", ctx.budget(250, 4000))
    return ctx.finish(search=lambda c: (explore(c, "thorough", search=True),
                                        c05_rep.explore(c, "representations-search", 3000)),
                      witnesses={"C01.lazy_type_peek": witness_lazy})


def replay(payload):
    f = payload.get("failure")
    if not f:
        print("nothing to replay: %s" % payload.get("no_longer_checks"))
        return False
    c = f["case"]
    if "obj" in c or "cells" in c or "reps" in c or "recarray" in c:
        from props import c05_rep
        return c05_rep.replay_case(c)
    t = unpack_t(c["tmpl"])
    d = unpack_d(t, c["data"])
    tail = bytes.fromhex(c.get("tail", "x")[1:]) if isinstance(c.get("tail"), str) else b""
    if "cut" in c:
        from pydap.handlers.dap import unpack_dap2_data
        from pydap.lib import StreamReader
        from pydap.parsers.dds import dds_to_dataset
        blob = X.ref_enc(t, d)[:c["cut"]]
        try:
            unpack_dap2_data(StreamReader(iter(X.chunk(blob, c["how"], c["cut"]))), dds_to_dataset(X.ref_dds(t)))
        except Exception as e:
            print("truncated stream raises %s" % type(e).__name__)
            return True
        print("FAILS: a reference stream cut at %d decodes through StreamReader/%s" % (c["cut"], c["how"]))
        return False
    if "ce" in c:
        # replay the recorded constraint literally against the recorded reference encoding
        app, r = serve(t, d, c["ce"])
        cl = r.headers.get("Content-Length")
        raw = r.body
        print("GET /d.dods?%s -> %d, %d bytes, Content-Length %s" % (c["ce"], r.status_int, len(raw), cl))
        if not (raw.startswith(b"Dataset {") and b"Data:\n" in raw):
            return False
        dds, xdr = X.split_body(raw)
        print("observed", xdr.hex(), "expected", c.get("ref"))
        return (cl is None or int(cl) == len(raw)) and xdr.hex() == c.get("ref") and \
            X.get(app, "/d.dds?" + c["ce"]).body == dds
    fails, _ = judge(t, d, tail)
    for what, obs, exp in fails:
        print("FAILS:", what, "| observed", str(obs)[:300], "| expected", str(exp)[:300])
    return not fails
