"""C07 — DDS print -> parse -> print is a fixpoint; foreign-style DDS parses to what it declares.
Proof: lean/Props/C07.lean about lean/PydapModel/DdsText.lean.
Tie: real ''.join(dds(ds)) vs model printer, real dds_to_dataset dump vs model parser (printed, foreign and
malformed texts), real parse(print) vs model `norm`.  Oracle (independent of the model): tree equality
modulo what a DDS can say, text fixpoint, declared structure of foreign texts."""
import zlib

import numpy as np

import common
from common import hexb

LEVEL = "proof"

# numpy dtype char -> what a DAP2 DDS must declare it as / what the client must decode it with (the
# oracle's own table: deliberately NOT read from the repository)
SPEC_TYPES = {"d": ("Float64", ">f8"), "f": ("Float32", ">f4"), "h": ("Int16", ">i2"), "H": ("UInt16", ">u2"),
              "i": ("Int32", ">i4"), "l": ("Int32", ">i4"), "q": ("Int32", ">i4"), "I": ("UInt32", ">u4"),
              "L": ("UInt32", ">u4"), "Q": ("UInt32", ">u4"), "b": ("Int16", ">i2"), "B": ("Byte", "|u1"),
              "?": ("Byte", "|u1"), "S": ("String", "|S128"), "U": ("String", "|S128")}
# foreign spellings -> numpy dtype the declaration means
FOREIGN_TYPES = {"Float64": ">f8", "Float32": ">f4", "Int16": ">i2", "UInt16": ">u2", "Int32": ">i4",
                 "UInt32": ">u4", "Byte": "|u1", "String": "|S128", "Url": "|S128", "Int": ">i4", "UInt": ">u4"}
PARSER_STRINGS = [">d", ">f", ">h", ">H", ">i", ">I", "B", "|S128"]

IDENT = "abcxyzABCXYZ_0123456789"
QUOTE_NEEDED = " []&.!*'\"%~-,:;{}=()#é中\t"
DIM_EXTRA = "%!~\"'*-"


def load():
    from pydap.model import BaseType, DatasetType, GridType, SequenceType, StructureType
    from pydap.parsers.dds import DummyData, dds_to_dataset
    from pydap.responses.dds import dds

    return dict(BaseType=BaseType, DatasetType=DatasetType, GridType=GridType, SequenceType=SequenceType,
                StructureType=StructureType, DummyData=DummyData, dds_to_dataset=dds_to_dataset, dds=dds)


class HeldData(object):
    """stands for data a variable HOLDS (anything that is not the parser's DummyData): dtype and shape only, so
    that extents up to 2^31-1 in three dimensions can be exercised; inside k sequences the leading k axes of
    `shape` are record axes"""

    def __init__(self, dtype, shape):
        self.dtype = dtype
        self.shape = shape


# ---------------------------------------------------------------------------------------------------
# specs: ("b", rawname, dtypechar, shape, dims, nodata) | ("st", rawname, kids) | ("sq", rawname, kids) |
#        ("g", rawname, bases).  nodata=True: the variable has no data (DummyData, what the parser builds) and
#        `shape` is its declared shape; nodata=False: it holds data, `shape` = record axes + declared shape.
#        A 5-tuple base (older replay files, FIXED_TREES) means nodata=False.
def full(spec):
    if spec[0] == "b":
        return ("b", spec[1], spec[2], tuple(spec[3]), tuple(spec[4]), bool(spec[5]) if len(spec) > 5 else False)
    return (spec[0], spec[1], [full(k) for k in spec[2]])


# words the DDS grammar itself uses (any letter case): as NAMES of variables, containers, dimensions, datasets
KEYWORDS = ["Dataset", "Structure", "Sequence", "Grid", "Array", "Maps", "Array:", "Maps:", "Int32", "Byte", "Float64",
            "String", "Url", "Int", "UInt", "Attributes", "grid", "STRUCTURE", "sequence", "dataset", "array", "MAPS"]


RAW_EXTRA = " .&()#,:{}=!*'\"%~-@+]\t"


def own_quote(s):
    """the harness's own reading of the DAP2 name quoting (independent of pydap.lib._quote and of urllib): ASCII letters,
    digits and _-~%!*'"/ stay, everything else becomes %XX of its UTF-8 bytes (so `.` -> %2E, `[` -> %5B, blank -> %20)"""
    out = []
    for ch in s:
        if ord(ch) < 128 and (ch.isalnum() or ch in "_-~%!*'\"/"):
            out.append(ch)
        else:
            out.append("".join("%%%02X" % b for b in ch.encode("utf-8")))
    return "".join(out)


def dap4_identifier(rng):
    """an identifier starting with `dap4` (`dap4x`, `dap4_t1`): `_quote` passes its first 8 characters through unquoted,
    which changes nothing for an identifier — inside the theorems' domain (`C07_quoted_names`, `RawNameOk.dap4`)"""
    return "dap4" + "".join(rng.choice(IDENT) for _ in range(rng.randint(0, 6)))


def dap4_outside(s):
    """names starting with `dap4` other than identifiers: DAP4 path handling, outside the model"""
    return s.startswith("dap4") and not all(c in IDENT + "dp" for c in s)


def gen_raw_name(rng):
    """a name as a foreign server may spell it raw in a DDS: characters pydap must quote (blank, `.`, `&`, `(`, `]` ...),
    no `;`, no `[`, no `/`, no white space at either end (theorem C07_foreign: `RawNameOk`)"""
    while True:
        n = rng.randint(1, 6)
        s = "".join(rng.choice(IDENT + RAW_EXTRA) for _ in range(n))
        if s == s.strip() and s and own_quote(s) != s and "dap4" not in s.lower():
            return s


def gen_name(rng, used, plain=0.5, anc=()):
    """`anc`: names of the enclosing containers (a child named like its parent / grandparent is legal)"""
    for _ in range(50):
        n = rng.randint(1, 6)
        r = rng.random()
        if anc and r < 0.06:
            s = rng.choice(anc)
        elif r < 0.12:
            s = rng.choice(KEYWORDS)
        elif r < 0.15:
            s = dap4_identifier(rng)
        elif rng.random() < plain:
            s = rng.choice("abcxyzABCXYZ_") + "".join(rng.choice(IDENT) for _ in range(n - 1))
        else:
            s = "".join(rng.choice(IDENT + QUOTE_NEEDED + QUOTE_NEEDED) for _ in range(n))
        if dap4_outside(s) or s in used:
            continue
        used.add(s)
        return s
    s = "v%d" % len(used)
    used.add(s)
    return s


DIM_KEYWORDS = ["Maps", "Array", "Grid", "Int32", "maps", "Dataset", "Structure"]


def gen_dim(rng):
    if rng.random() < 0.04:
        return rng.choice(DIM_KEYWORDS)
    n = rng.randint(1, 4)
    return "".join(rng.choice(IDENT + DIM_EXTRA) for _ in range(n))


def gen_extent(rng):
    return rng.choice([0, 1, 2, 3, 4, 7, 9, 10, 11, 99, 100, 128, 1000, 65536, 10 ** 6, 2 ** 31 - 1,
                       rng.randint(0, 5000)])


def pick_nodata(rng, nd):
    """nd: per-tree policy 'held' (every leaf holds data), 'all' (no leaf has data), 'mixed' (per leaf)"""
    return nd == "all" or (nd == "mixed" and rng.random() < 0.5)


def gen_base(rng, used, depth_seq, mode, nd, anc=()):
    """mode: 'domain' (the property's trees: dims absent or one per declared extent; sequence members of rank
    0..3), 'odd' (dims/shape length mismatch)"""
    name = gen_name(rng, used, anc=anc)
    ch = rng.choice(list(SPEC_TYPES))
    rank = rng.choice([0, 0, 1, 1, 2, 3])
    nodata = pick_nodata(rng, nd)
    if nodata:
        shape = tuple(gen_extent(rng) for _ in range(rank))
        declared = rank
    else:
        # a column of a sequence sometimes has fewer axes than enclosing sequences (nothing left to declare)
        shape = tuple(gen_extent(rng) for _ in range(depth_seq + rank)) \
            if (depth_seq == 0 or rng.random() < 0.8 or rank) \
            else tuple(gen_extent(rng) for _ in range(rng.randint(0, depth_seq)))
        declared = max(len(shape) - depth_seq, 0)
    dims = ()
    if rng.random() < 0.5 and (declared > 0 or mode == "odd"):
        n = declared if mode == "domain" else rng.randint(0, len(shape) + 1)
        dims = tuple(gen_dim(rng) for _ in range(n))
    return ("b", name, ch, shape, dims, nodata)


def plan_grid(rng, fresh, inner):
    """the shape of a Grid: (dimension names of the array ([] = anonymous), extents, [(map name, extent)] in the
    order the Grid holds / the text declares them).  `fresh()` draws a name that is not in `inner` yet (used for
    maps that are no dimension of the array); map names are added to `inner`."""
    rank = rng.choice([0, 1, 1, 2, 2, 2, 3, 3, 4])
    ext = tuple(gen_extent(rng) for _ in range(rank))
    r = rng.random()
    style = "anonymous" if r < 0.15 else "repeated" if r < 0.30 and rank >= 2 else "named"
    dnames = []
    if style != "anonymous":
        while len(dnames) < rank:
            d = gen_dim(rng)          # dimension names are printed verbatim (not quoted): keep them parseable
            if d not in dnames:
                dnames.append(d)
        if style == "repeated":
            i, j = rng.sample(range(rank), 2)
            dnames[j] = dnames[i]
    # candidate maps: one per distinct axis name (fresh names for anonymous axes), with that axis' extent
    axes = []
    for i in range(rank):
        dn = dnames[i] if dnames else gen_dim(rng)
        if dn not in [a for a, _ in axes]:
            axes.append((dn, ext[i]))
    r = rng.random()
    if r < 0.25:
        pass
    elif r < 0.40:
        axes.reverse()
    else:
        rng.shuffle(axes)
    if axes and rng.random() < 0.15:
        del axes[rng.randrange(len(axes))]          # a dimension without a map
    if rng.random() < 0.10:
        axes = [(a + rng.choice("_xZ9"), e) for a, e in axes]     # maps named differently from the dimensions
    inner.update(a for a, _ in axes)
    if rng.random() < 0.30:                         # maps that are not a dimension of the array, anywhere
        for _ in range(rng.randint(1, 2)):
            pos = 0 if rng.random() < 0.5 else rng.randint(0, len(axes))
            axes.insert(pos, (fresh(), gen_extent(rng)))
    return dnames, ext, axes


def gen_grid(rng, used, depth_seq, mode, nd, anc=()):
    """A Grid is an ordered container: the Array first, then the maps IN THE ORDER THE GRID HOLDS THEM.  Nothing
    in pydap's model ties that order (or the maps' names) to the array's dimensions, so the generator does not
    either: maps in dimension order, reversed, shuffled; maps that are no dimension of the array (before / between /
    after those that are); dimensions without a map; repeated and anonymous dimension names; maps whose own
    dimension is named differently; 0-d and 2-d maps; rank 0..4 arrays."""
    name = gen_name(rng, used, anc=anc)
    inner = set()
    dnames, ext, axes = plan_grid(rng, lambda: gen_name(rng, inner, anc=anc + (name,)), inner)

    def lead(nodata):          # record axes of a grid inside sequences, present only in data
        return () if nodata else tuple(gen_extent(rng) for _ in range(depth_seq))

    na = pick_nodata(rng, nd)
    arr = ("b", gen_name(rng, inner, anc=anc + (name,)), rng.choice(list(SPEC_TYPES)), lead(na) + ext, tuple(dnames), na)
    maps = []
    for dn, e in axes:
        nm = pick_nodata(rng, nd)
        r = rng.random()
        if r < 0.85:
            r2 = rng.random()
            mshape, mdims = (e,), ((dn,) if r2 < 0.6 and DIM_RE_OK(dn) else () if r2 < 0.85 else (gen_dim(rng),))
        elif r < 0.95:                               # two-dimensional map (curvilinear coordinates)
            mshape = (e, gen_extent(rng))
            mdims = (gen_dim(rng), gen_dim(rng)) if rng.random() < 0.6 else ()
        else:
            mshape, mdims = (), ()
        maps.append(("b", dn, rng.choice(list(SPEC_TYPES)), lead(nm) + mshape, mdims, nm))
    return ("g", name, [arr] + maps)


def grid_features(spec, depth_seq=0, out=None):
    """measured distribution of the Grids of a tree (features, not cases)"""
    out = set() if out is None else out
    if spec[0] == "g":
        arr, maps = spec[2][0], spec[2][1:]
        dims = list(arr[4])
        pos = [dims.index(m[1]) if m[1] in dims else len(dims) for m in maps]
        out.add("grid")
        if not maps:
            out.add("grid:no-maps")
        if not dims:
            out.add("grid:anonymous-dims")
        if len(set(dims)) < len(dims):
            out.add("grid:repeated-dims")
        if pos != sorted(pos):
            out.add("grid:maps-not-in-dimension-order")
        if any(p == len(dims) and any(q < p for q in pos[i + 1:]) for i, p in enumerate(pos)):
            out.add("grid:non-dimension-map-before-dimension-map")
        if dims and any(p == len(dims) for p in pos):
            out.add("grid:map-not-a-dimension")
        if any(d not in [m[1] for m in maps] for d in dims):
            out.add("grid:dimension-without-map")
        if any(len(m[4]) == 1 and m[4][0] != m[1] for m in maps):
            out.add("grid:map-dimension-named-differently")
        if any(declared_rank(m, depth_seq) != 1 for m in maps):
            out.add("grid:map-rank-not-1")
        if any(e == 0 for b in spec[2] for e in b[3]):
            out.add("grid:zero-extent")
    elif spec[0] != "b":
        for k in spec[2]:
            grid_features(k, depth_seq + (1 if spec[0] == "sq" else 0), out)
    return out


def tree_features(spec, anc=(), out=None):
    out = set() if out is None else out
    low = spec[1].lower()
    if low.rstrip(":") in ("dataset", "structure", "sequence", "grid", "array", "maps", "int32", "byte", "float64",
                           "string", "url", "int", "uint", "attributes"):
        out.add("name:keyword")
    if spec[1] in anc:
        out.add("name:same-as-ancestor")
    if spec[0] == "b":
        if any(d.lower() in ("maps", "array", "grid", "int32", "dataset", "structure") for d in spec[4]):
            out.add("dimension:keyword")
        if 0 in spec[3]:
            out.add("zero-extent")
    else:
        if not spec[2]:
            out.add("empty:" + spec[0])
        for k in spec[2]:
            tree_features(k, anc + (spec[1],), out)
    return out


def gen_kids(rng, depth, depth_seq, mode, maxkids, nd, anc=()):
    used = set()
    kids = []
    for _ in range(rng.randint(0 if rng.random() < (0.1 if depth > 1 else 0.02) else 1, maxkids)):
        r = rng.random()
        if depth >= 4 or r < 0.5:
            kids.append(gen_base(rng, used, depth_seq, mode, nd, anc))
        elif r < 0.68:
            kids.append(gen_grid(rng, used, depth_seq, mode, nd, anc))
        elif r < 0.86:
            n = gen_name(rng, used, anc=anc)
            kids.append(("st", n, gen_kids(rng, depth + 1, depth_seq, mode, max(1, maxkids - 1), nd, anc + (n,))))
        else:
            n = gen_name(rng, used, anc=anc)
            kids.append(("sq", n, gen_kids(rng, depth + 1, depth_seq + 1, mode, max(1, maxkids - 1), nd, anc + (n,))))
    return kids


def gen_dataset(rng, mode):
    r = rng.random()
    nd = "all" if r < 0.25 else "mixed" if r < 0.40 else "held"
    n = gen_name(rng, set())
    return ("ds", n, gen_kids(rng, 1, 0, mode, rng.choice([1, 2, 3, 5]), nd, (n,)))


def build(P, spec):
    """spec -> live pydap objects (names are quoted by the model classes themselves)"""
    kind = spec[0]
    if kind == "b":
        _, name, ch, shape, dims, nodata = full(spec)
        dt = np.dtype("S3") if ch == "S" else np.dtype("U2") if ch == "U" else np.dtype(ch)
        data = P["DummyData"](dt, tuple(shape)) if nodata else HeldData(dt, tuple(shape))
        return P["BaseType"](name, data, dims=tuple(dims))
    cls = {"st": "StructureType", "sq": "SequenceType", "g": "GridType", "ds": "DatasetType"}[kind]
    out = P[cls](spec[1])
    kids = [build(P, k) for k in spec[2]]
    # the order a container SHOWS (children(), the DDS) is the order of its visible keys, not the order in which the
    # members were stored: a third of the Structures/Datasets are stored in reverse and re-ordered by a tuple
    # selection of all members, which is how a user re-orders a container (a function of the names: replays rebuild it)
    reorder = kind in ("st", "ds") and len(kids) >= 2 and \
        zlib.crc32(repr([c.name for c in kids]).encode()) % 3 == 0
    for child in (reversed(kids) if reorder else kids):
        out[child.name] = child
    if reorder:
        out = out[tuple(c.name for c in kids)]
        assert [c.name for c in out.children()] == [c.name for c in kids]
    return out


def declared_rank(spec, depth_seq):
    """number of extents a DDS declares for a base variable below `depth_seq` sequences"""
    _, _, _, shape, _, nodata = full(spec)
    return len(shape) if nodata else max(len(shape) - depth_seq, 0)


def in_seq_array_class(spec, depth_seq=0):
    """the class of the former finding C07.sequence_array_member.fixpoint (fixed in b7ad9b3): some base variable
    below k>0 sequences declares an extent.  Part of the property's domain; used for the measured distribution."""
    kind = spec[0]
    if kind == "b":
        return depth_seq > 0 and declared_rank(spec, depth_seq) > 0
    d = depth_seq + (1 if kind == "sq" else 0)
    return any(in_seq_array_class(k, d) for k in spec[2])


def has_nodata(spec):
    if spec[0] == "b":
        return full(spec)[5]
    return any(has_nodata(k) for k in spec[2])


DIM_RE = None


def dims_parseable(spec):
    """dimension names are printed verbatim (never quoted); one outside the parser's name_regexp (`/y`, `a b`)
    gives a DDS pydap cannot parse (DESIGN 9 #20): outside the property's domain, observed and counted only"""
    import re
    global DIM_RE
    DIM_RE = DIM_RE or re.compile(r'[A-Za-z0-9_%!~"\'\*-]+\Z')
    if spec[0] == "b":
        return all(DIM_RE.match(d) for d in spec[4])
    return all(dims_parseable(k) for k in spec[2])


def DIM_RE_OK(s):
    dims_parseable(("b", "x", "d", (), ()))
    return bool(DIM_RE.match(s))


def in_domain(spec, depth_seq=0):
    """the property's trees: dims absent or one per declared extent"""
    kind = spec[0]
    if kind == "b":
        return not spec[4] or len(spec[4]) == declared_rank(spec, depth_seq)
    d = depth_seq + (1 if kind == "sq" else 0)
    return all(in_domain(k, d) for k in spec[2])


# ---------------------------------------------------------------------------------------------------
# canonical forms
def tx(s):
    return hexb(s.encode("latin-1")) if all(ord(c) < 256 for c in s) else None


def dtype_string(dt):
    for s in PARSER_STRINGS:
        if np.dtype(s) == dt:
            return s
    return dt.str


def dump_live(P, v, model_dtype=None):
    """live object -> the model's S-expression. BaseType dtype: numpy char for source trees (what the printer
    looks up), parser string for parsed trees.  Last atom: 1 = the variable has no data (DummyData)."""
    if isinstance(v, P["BaseType"]):
        dt = v.dtype.char if model_dtype == "char" else dtype_string(v.dtype)
        return "(b %s %s (%s) (%s) %d)" % (tx(v.name), tx(dt), " ".join(str(int(n)) for n in v.shape),
                                            " ".join(tx(d) for d in v.dims),
                                            1 if isinstance(v.data, P["DummyData"]) else 0)
    tag = "g" if isinstance(v, P["GridType"]) else "sq" if isinstance(v, P["SequenceType"]) else \
        "ds" if isinstance(v, P["DatasetType"]) else "st"
    return "(%s %s (%s))" % (tag, tx(v.name), " ".join(dump_live(P, c, model_dtype) for c in v.children()))


def ascii_ok(text):
    return all(ord(c) < 128 for c in text)


def impl_parse(P, text):
    if zlib.crc32(text.encode("utf-8", "replace")) % 3 == 0:
        # what a parse returns belongs to the caller: an earlier user of the same text edits the dataset they got
        # (renames it, drops its first variable); the parse below must still say what the text declares
        try:
            scratch = P["dds_to_dataset"](text)
            scratch.name = "edited-by-an-earlier-caller"
            for k in list(scratch.keys())[:1]:
                del scratch[k]
        except Exception:
            pass
    try:
        d = P["dds_to_dataset"](text)
    except Exception as e:
        n = type(e).__name__
        return None, "(err %s)" % (n if n in ("KeyError", "ValueError", "Exception") else "escaped:" + n)
    return d, dump_live(P, d)


# ---------------------------------------------------------------------------------------------------
# the oracle's own view of a tree (independent of pydap's tables and of the Lean model)
def spec_view(P, v, depth_seq=0):
    """what a reader of the DDS must learn about the source object `v`: a variable that holds data has one
    record axis per enclosing sequence, which is not declared; a variable without data has its declared shape"""
    if isinstance(v, P["BaseType"]):
        shape = tuple(int(n) for n in v.shape)
        if not isinstance(v.data, P["DummyData"]):
            shape = shape[depth_seq:]
        dims = tuple(v.dims)
        if not dims and len(shape) == 1:
            dims = (v.name,)
        return ("b", v.name, SPEC_TYPES[v.dtype.char][1], shape, dims)
    tag = "g" if isinstance(v, P["GridType"]) else "sq" if isinstance(v, P["SequenceType"]) else \
        "ds" if isinstance(v, P["DatasetType"]) else "st"
    d = depth_seq + (1 if tag == "sq" else 0)
    return (tag, v.name, [spec_view(P, c, d) for c in v.children()])


def parsed_view(P, v):
    if isinstance(v, P["BaseType"]):
        return ("b", v.name, v.dtype.str, tuple(int(n) for n in v.shape), tuple(v.dims))
    tag = "g" if isinstance(v, P["GridType"]) else "sq" if isinstance(v, P["SequenceType"]) else \
        "ds" if isinstance(v, P["DatasetType"]) else "st"
    return (tag, v.name, [parsed_view(P, c) for c in v.children()])


def norm_dt(view):
    """compare dtypes as numpy dtypes, not as strings"""
    if view[0] == "b":
        return ("b", view[1], np.dtype(view[2]).str, view[3], view[4])
    return (view[0], view[1], [norm_dt(k) for k in view[2]])


# ---------------------------------------------------------------------------------------------------
# foreign-style rendering of a declared structure (harness's own printer)
def rnd_case(rng, w):
    r = rng.random()
    if r < 0.4:
        return w
    if r < 0.6:
        return w.upper()
    if r < 0.8:
        return w.lower()
    return "".join(c.upper() if rng.random() < 0.5 else c.lower() for c in w)


def ws(rng, must=False):
    r = rng.random()
    if r < 0.5:
        return " " if must or rng.random() < 0.5 else ""
    return "".join(rng.choice([" ", "\n", "\t", "  ", "\r\n"]) for _ in range(rng.randint(1 if must else 0, 3)))


def gen_foreign(rng, depth=1, in_grid=False):
    """returns (declared view, token list) for one declaration"""
    used = set()          # names of the container being generated (siblings are distinct; scopes nest)
    anc = []              # names already used in the enclosing scopes (may be reused inside)
    RAW = {}              # quoted name -> the spelling used in the text (the last one drawn for it)

    def name(members=(), raw=False):
        """members: the views of the container being named (a container may be named like one of its members).
        raw: the name may be spelled with characters pydap quotes (`a.b c`); the text carries the raw spelling, the
        declared view the quoted one (`RAW[quoted] = raw spelling`)"""
        for _ in range(30):
            r = rng.random()
            if members and r < 0.10:
                s = rng.choice(members)[1]
            elif anc and r < 0.08:
                s = rng.choice(anc)
            elif r < 0.16:
                s = rng.choice([k for k in KEYWORDS if ":" not in k])
            elif raw and r < 0.36:
                s = gen_raw_name(rng)
            elif r < 0.39:
                s = dap4_identifier(rng)
            else:
                s = rng.choice("abcxyzABCXYZ_") + "".join(rng.choice(IDENT + "%-~") for _ in range(rng.randint(0, 5)))
            q = own_quote(s)
            if q not in used and not dap4_outside(s):
                used.add(q)
                RAW[q] = s
                return q
        raise RuntimeError

    class scope(object):
        """a fresh sibling scope; names of the enclosing scopes may be reused inside"""
        def __enter__(self):
            self.save = set(used)
            anc.extend(sorted(used))
            used.clear()

        def __exit__(self, *a):
            del anc[len(anc) - len(self.save):]
            used.clear()
            used.update(self.save)

    def base(n=None, dimspec=None):
        """dimspec: [(dimension name or None, extent)] (default: random)"""
        t = rng.choice(list(FOREIGN_TYPES))
        n, spelled = (lambda q: (q, RAW[q]))(name(raw=True)) if n is None else (n, n)
        if dimspec is None:
            named = rng.random() < 0.5
            dimspec = [(gen_dim(rng) if named else None, gen_extent(rng)) for _ in range(rng.choice([0, 1, 1, 2, 3]))]
        shape, dims, toks = [], [], [("kw", t), ("ws1",), ("name", spelled)]
        for d, e in dimspec:
            shape.append(e)
            toks.append(("p", "["))
            if d is not None:
                dims.append(d)
                toks += [("t", d), ("p", "="), ("t", str(e))]
            else:
                toks.append(("t", str(e)))
            toks.append(("p", "]"))
        toks.append(("p;",))
        return ("b", n, FOREIGN_TYPES[t], tuple(shape), tuple(dims)), toks

    def grid():
        """maps in any declared order, named after the array's dimensions or not (see plan_grid)"""
        with scope():
            dnames, ext, axes = plan_grid(rng, name, used)
            arr, t0 = base(dimspec=[(dnames[i] if dnames else None, ext[i]) for i in range(len(ext))])
            maps = []
            for a, e in axes:
                r = rng.random()
                maps.append(base(a, [(a if r < 0.5 else None if r < 0.8 else gen_dim(rng), e)] if r < 0.95 else None))
        return arr, t0, maps

    def decl(depth):
        r = rng.random()
        if depth >= 4 or r < 0.55:
            return base()
        if r < 0.7:
            if rng.random() < 0.7:
                arr, t0, maps = grid()
            else:
                with scope():
                    arr, t0 = base()
                    maps = [base() for _ in range(rng.randint(0, 3))]
            n = name([arr] + [m for m, _ in maps], raw=True)
            toks = [("kw", "Grid"), ("p", "{"), ("kw", "Array"), ("p", ":")] + t0 + [("kw", "Maps"), ("p", ":")]
            for _, t in maps:
                toks += t
            toks += [("p", "}"), ("name", RAW[n]), ("p;",)]
            return ("g", n, [arr] + [m for m, _ in maps]), toks
        kw, tag = rng.choice([("Structure", "st"), ("Sequence", "sq")])
        with scope():
            kids = [decl(depth + 1) for _ in range(rng.randint(0, 3))]
        n = name([k for k, _ in kids], raw=True)
        toks = [("kw", kw), ("p", "{")]
        for _, t in kids:
            toks += t
        toks += [("p", "}"), ("name", RAW[n]), ("p;",)]
        return (tag, n, [k for k, _ in kids]), toks

    kids = [decl(1) for _ in range(rng.randint(0, 4))]
    anc.extend(sorted(used))
    used.clear()
    n = name([k for k, _ in kids], raw=True)
    toks = [("kw", "Dataset"), ("p", "{")]
    for _, t in kids:
        toks += t
    toks += [("p", "}"), ("name", RAW[n]), ("p;",)]
    return ("ds", n, [k for k, _ in kids]), toks


def render_foreign(rng, toks):
    out = []
    for t in toks:
        if t[0] == "kw":
            out.append(rnd_case(rng, t[1]) + ("" if t[1] in ("Array", "Maps") and rng.random() < 0.5 else ws(rng)))
            if t[1] not in ("Array", "Maps", "Dataset", "Structure", "Sequence", "Grid") and not out[-1][-1:].isspace():
                out[-1] += " "
        elif t[0] == "ws1":
            pass
        elif t[0] == "name":
            out.append(t[1])           # no whitespace after a name: it would become part of the name
        elif t[0] == "t":
            out.append(t[1] + ws(rng))
        elif t[0] == "p":
            out.append(t[1] + ws(rng))
        elif t[0] == "p;":
            out.append(";" + ws(rng))
    return "".join(out)


# ---------------------------------------------------------------------------------------------------
# the reference rendering of a declared structure: what a DAP2 server writes (libdap layout: four blanks per level,
# `Array:` / `Maps:` one level in, members and maps in declared order, `[name = n]` for a named dimension).  The
# harness's own printer: independent of pydap's printer, of its tables and of the Lean model.
OWN_DAP2 = {">f8": "Float64", ">f4": "Float32", ">i2": "Int16", ">u2": "UInt16", ">i4": "Int32", ">u4": "UInt32",
            "|u1": "Byte", "|S128": "String"}


def implicit_dims(view):
    """a one-dimensional array declared without a dimension name has its own name as dimension name"""
    if view[0] == "b":
        dims = tuple(view[4])
        if not dims and len(view[3]) == 1:
            dims = (view[1],)
        return ("b", view[1], view[2], tuple(view[3]), dims)
    return (view[0], view[1], [implicit_dims(k) for k in view[2]])


def partially_named(view):
    """some array declares names for some of its dimensions only (`Int32 a[x = 2][3]`, legal DAP2): a BaseType's `dims`
    is a tuple of names that every consumer pairs with the extents one to one, so it cannot say which axes are named"""
    if view[0] == "b":
        return 0 < len(view[4]) < len(view[3])
    return any(partially_named(k) for k in view[2])


def declared_structure(view):
    """the structure a foreign text declares, as far as pydap's model can hold it: the spelled view, except that an
    array naming only some of its dimensions keeps its SHAPE and has no dimension names (repair of round 7: the parser
    used to keep the partial tuple of names, and dds() - zipping names with extents - then declared a shorter array)"""
    if view[0] == "b":
        return view[:4] + ((),) if partially_named(view) else view
    return (view[0], view[1], [declared_structure(k) for k in view[2]])


def reference_text(view, level=0):
    ind = "    " * level
    if view[0] == "b":
        _, name, dt, shape, dims = view
        if dims:
            assert len(dims) == len(shape)
            sh = "".join("[%s = %d]" % (d, e) for d, e in zip(dims, shape))
        else:
            sh = "".join("[%d]" % e for e in shape)
        return "%s%s %s%s;\n" % (ind, OWN_DAP2[dt], name, sh)
    if view[0] == "g":
        return (ind + "Grid {\n" + ind + "    Array:\n" + reference_text(view[2][0], level + 2) + ind + "    Maps:\n"
                + "".join(reference_text(m, level + 2) for m in view[2][1:]) + ind + "} " + view[1] + ";\n")
    kw = {"ds": "Dataset", "st": "Structure", "sq": "Sequence"}[view[0]]
    return ind + kw + " {\n" + "".join(reference_text(k, level + 1) for k in view[2]) + ind + "} " + view[1] + ";\n"


def judge_foreign(P, text, view):
    """a foreign-style DDS `text` declaring `view`: [(what, observed, expected)] of everything that is wrong.
    (1) it parses to what it declares; (2) pydap's DDS of the parsed dataset is the reference rendering of what was
    declared — members and MAPS in declared order, names, types, extents, dimension names; (3) that reference text
    parses to the same structure and (4) is reproduced exactly when printed again."""
    bad = []
    view = declared_structure(view)
    d, dump = impl_parse(P, text)
    if d is None:
        return [("foreign-style DDS does not parse", dump, repr(view))], None, dump
    got = norm_dt(parsed_view(P, d))
    if got != norm_dt(view):
        bad.append(("foreign-style DDS parses to a different structure than it declares", repr(got),
                    repr(norm_dt(view))))
    exp = implicit_dims(view)
    ref = reference_text(exp)
    try:
        text2 = "".join(P["dds"](d))
    except Exception as e:
        text2 = "raised " + type(e).__name__
    if text2 != ref:
        bad.append(("the DDS of a dataset parsed from a foreign-style DDS is not the reference rendering of what was "
                    "declared (order of members and maps, names, types, extents, dimension names)", text2, ref))
    d3, dump3 = impl_parse(P, ref)
    if d3 is None:
        bad.append(("reference DDS does not parse", dump3, ref))
    else:
        got3 = norm_dt(parsed_view(P, d3))
        if got3 != norm_dt(exp):
            bad.append(("reference DDS parses to a different structure than it declares", repr(got3), repr(norm_dt(exp))))
        try:
            text4 = "".join(P["dds"](d3))
        except Exception as e:
            text4 = "raised " + type(e).__name__
        if text4 != ref:
            bad.append(("print(parse(T)) != T for a reference DDS T", text4, ref))
    return bad, d, dump


RAW_ESCAPES = tuple("%%%02X" % ord(c) for c in RAW_EXTRA if own_quote(c) != c)


def foreign_features(view, out=None):
    out = set() if out is None else out
    if any(e in view[1] for e in RAW_ESCAPES):
        out.add("foreign-name-spelled-raw(quoted-by-the-parser)")
    if view[0] == "g":
        if any(e in b[1] for b in view[2] for e in RAW_ESCAPES):
            out.add("foreign-name-spelled-raw(quoted-by-the-parser)")
        spec = ("g", view[1], [("b", b[1], "d", b[3], b[4], True) for b in view[2]])
        out |= set("foreign-" + f for f in grid_features(spec))
    elif view[0] != "b":
        for k in view[2]:
            foreign_features(k, out)
    return out


# ---------------------------------------------------------------------------------------------------
# decorated foreign trees for the Lean foreign-style printer (`ftextDs`, the printer of theorem C07_foreign)
WS_CHARS = [" ", "\n", "\t", "\r", "\x0b", "\x0c", "\x1c", "\x1d", "\x1e", "\x1f"]
LOWER_TYPES = {"float64": ">f8", "float32": ">f4", "int16": ">i2", "uint16": ">u2", "int32": ">i4", "uint32": ">u4",
               "byte": "|u1", "string": "|S128", "url": "|S128", "int": ">i4", "uint": ">u4"}


def gen_gaps(rng, n):
    style = rng.random()
    out = []
    for _ in range(n):
        if style < 0.2:
            out.append("")
        elif style < 0.5:
            out.append(rng.choice(["", " ", "\n", "\n    "]))
        else:
            out.append("".join(rng.choice(WS_CHARS) for _ in range(rng.randint(0, 3))))
    return out


def gs_sexp(gs):
    return "(" + " ".join(hexb(g.encode()) for g in gs) + ")"


def gen_fds(rng):
    """returns (sexp for the driver, declared view) of a decorated foreign dataset"""
    RAW = {}              # quoted name -> the spelling given to the Lean printer (the last one drawn for it)

    def name(used, prefer=(), raw=False):
        """prefer: names of the members / of enclosing scopes (legal, unconventional).  raw: may be a name pydap
        quotes (`a.b c`): the printer gets the raw spelling (`RAW[quoted]`), the declared view the quoted name"""
        for _ in range(30):
            r = rng.random()
            if prefer and r < 0.10:
                s = rng.choice(prefer)
            elif r < 0.18:
                s = rng.choice([k for k in KEYWORDS if ":" not in k])
            elif raw and r < 0.40:
                s = gen_raw_name(rng)
            elif r < 0.43:
                s = dap4_identifier(rng)
            else:
                s = "".join(rng.choice(IDENT + DIM_EXTRA) for _ in range(rng.randint(1, 5)))
            q = own_quote(s)
            if q not in used and not dap4_outside(s):
                used.add(q)
                RAW[q] = s
                return q
        raise RuntimeError

    def fbase(used, n=None, dims=None, anc=()):
        t = rng.choice(list(LOWER_TYPES))
        n, spelled = (lambda q: (q, RAW[q]))(name(used, anc, raw=True)) if n is None else (n, n)
        if dims is None:
            dims = []
            for _ in range(rng.choice([0, 1, 1, 2, 3])):
                dims.append((gen_dim(rng) if rng.random() < 0.5 else None, gen_extent(rng)))
        sx = "(fb %s %s (%s) %s)" % (tx(rnd_case(rng, t)), tx(spelled),
                                     " ".join("(%s %d)" % ("none" if d is None else tx(d), e) for d, e in dims),
                                     gs_sexp(gen_gaps(rng, 7)))
        return sx, ("b", n, LOWER_TYPES[t], tuple(e for _, e in dims), tuple(d for d, _ in dims if d is not None))

    def decl(depth, used, anc=()):
        r = rng.random()
        if depth >= 4 or r < 0.5:
            return fbase(used, anc=anc)
        if r < 0.65:
            inner = set()
            if rng.random() < 0.7:        # maps in any declared order, named after the array's dimensions or not
                dnames, ext, axes = plan_grid(rng, lambda: name(inner, anc), inner)
                arr, va = fbase(inner, dims=[(dnames[i] if dnames else None, ext[i]) for i in range(len(ext))], anc=anc)
                maps = []
                for a, e in axes:
                    r2 = rng.random()
                    maps.append(fbase(inner, a, [(a if r2 < 0.5 else None if r2 < 0.8 else gen_dim(rng), e)]
                                      if r2 < 0.95 else None))
            else:
                arr, va = fbase(inner, anc=anc)
                maps = [fbase(inner, anc=anc) for _ in range(rng.randint(0, 3))]
            n = name(used, [va[1]] + [v[1] for _, v in maps], raw=True)
            sx = "(fg %s %s %s %s %s %s (%s))" % (tx(rnd_case(rng, "grid")), tx(rnd_case(rng, "array")),
                                                 tx(rnd_case(rng, "maps")), tx(RAW[n]), gs_sexp(gen_gaps(rng, 8)), arr,
                                                 " ".join(m for m, _ in maps))
            return sx, ("g", n, [va] + [v for _, v in maps])
        is_seq = rng.random() < 0.4
        inner = set()
        kids = [decl(depth + 1, inner, anc + tuple(sorted(used))) for _ in range(rng.randint(0, 3))]
        n = name(used, [v[1] for _, v in kids], raw=True)
        sx = "(fc %d %s %s %s (%s))" % (1 if is_seq else 0, tx(rnd_case(rng, "sequence" if is_seq else "structure")),
                                        tx(RAW[n]), gs_sexp(gen_gaps(rng, 4)), " ".join(k for k, _ in kids))
        return sx, ("sq" if is_seq else "st", n, [v for _, v in kids])

    used = set()
    kids = [decl(1, used) for _ in range(rng.randint(0, 4))]
    n = name(set(), [v[1] for _, v in kids], raw=True)
    sx = "(fds %s %s %s (%s))" % (tx(rnd_case(rng, "dataset")), tx(RAW[n]), gs_sexp(gen_gaps(rng, 4)),
                                  " ".join(k for k, _ in kids))
    return sx, ("ds", n, [v for _, v in kids])


def check_lean_foreign(ctx, P, rng, n, cases):
    """texts printed by the Lean foreign-style printer, parsed by the real parser, judged against the declared
    structure (this is theorem C07_foreign, run on the implementation)"""
    specs = [gen_fds(rng) for _ in range(n)]
    texts = common.run_driver(["dds-fprint " + sx for sx, _ in specs])
    for (sx, view), hx in zip(specs, texts):
        text = bytes.fromhex(hx[1:]).decode("latin-1")
        case = {"kind": "foreign", "text": text, "declared": view}
        bad, d, dump = judge_foreign(P, text, view)
        cases.append(("dds-fdecl " + sx, dump, {"text": text}))
        cases.append(("dds-parse " + hexb(text.encode("latin-1")), dump, {"text": text}))
        ctx.count(("lean-foreign", text), True, tag="foreign:lean-printer", sample={"foreign(lean)": text[:200]})
        for f in sorted(foreign_features(view) | ({"foreign-partially-named-dimensions(shape kept, names dropped)"}
                                                  if partially_named(view) else set())):
            ctx.tags["feature:" + f] += 1
        for what, obs, exp in bad:
            ctx.oracle_fail(what, case, obs, exp, size=len(text))


def mutate(rng, text):
    if not text:
        return text
    n = rng.randint(1, 3)
    s = list(text)
    for _ in range(n):
        i = rng.randrange(len(s) + 1)
        r = rng.random()
        c = rng.choice("{}[];:= \n_-%9aZ/.\x1c\"'")
        if r < 0.4 and i < len(s):
            del s[i]
        elif r < 0.7:
            s.insert(i, c)
        elif i < len(s):
            s[i] = c
        if not s:
            break
    if rng.random() < 0.1:
        s = s[:rng.randrange(len(s) + 1)]
    return "".join(s)


# ---------------------------------------------------------------------------------------------------
def numpy_sequence(P):
    """a Sequence holding a REAL numpy structured array: 5 records of (3 int16 values, one float64)"""
    ds = P["DatasetType"]("d")
    q = P["SequenceType"]("Q")
    q["i"] = P["BaseType"]("i")
    q["k"] = P["BaseType"]("k")
    q.data = np.zeros(5, dtype=[("i", "<i2", (3,)), ("k", "<f8")])
    ds["Q"] = q
    return ds


NUMPY_SEQUENCE_SPEC = ("ds", "d", [("sq", "Q", [("b", "i", "h", (5, 3), (), False), ("b", "k", "d", (5,), (), False)])])
LIVE = {"numpy_sequence": (numpy_sequence, NUMPY_SEQUENCE_SPEC, "        Int16 i[i = 3];\n")}


def check_tree(ctx, P, spec, cases, where, live=None):
    """`live`: key of LIVE — the dataset is built by that function (real data objects) and `spec` describes it"""
    spec = full(spec)
    ds = LIVE[live][0](P) if live else build(P, spec)
    src = dump_live(P, ds, "char")
    case = {"kind": "tree", "spec": spec}
    if live:
        case["live"] = live
    try:
        text = "".join(P["dds"](ds))
    except Exception as e:
        ctx.oracle_fail("dds() raised on a dataset tree", case, type(e).__name__, "a DDS text")
        return
    if not ascii_ok(text):
        ctx.oracle_fail("DDS text is not ASCII", case, repr(text), "ascii")
        return
    if live and LIVE[live][2] not in text:
        ctx.oracle_fail("DDS does not declare the per-record shape of a sequence member", case, text, LIVE[live][2])
    cases.append(("dds-print " + src, hexb(text.encode()), {"spec": spec, "text": text}))
    d2, dump2 = impl_parse(P, text)
    cases.append(("dds-parse " + hexb(text.encode()), dump2, {"text": text}))
    if dims_parseable(spec):      # `norm` is what a *well-formed* tree parses to (theorem C07_parse_print)
        cases.append(("dds-norm " + src, dump2, {"spec": spec, "text": text}))
    if not dims_parseable(spec):
        ctx.count(("outside", src), False, tag="outside:dimension-name-not-in-name_regexp:" +
                  ("parses" if d2 is not None else "does-not-parse"))
        return
    dom = in_domain(spec)
    ctx.count(("tree", src), True, tag=where + (":domain" if dom else ":odd")
              + ("+array-in-sequence" if in_seq_array_class(spec) else "") + ("+nodata" if has_nodata(spec) else ""),
              sample={"spec": repr(spec)[:300], "text": text[:300]})
    for f in sorted(grid_features(spec) | tree_features(spec)):
        ctx.tags["feature:" + f] += 1
    if d2 is None:
        ctx.oracle_fail("printed DDS does not parse", case, dump2, "a dataset", size=len(text))
        return
    # (1) same tree, as far as a DDS can say it
    exp, got = norm_dt(spec_view(P, ds)), norm_dt(parsed_view(P, d2))
    if dom and exp != got:
        ctx.oracle_fail("parsed dataset differs from the printed one (kinds, names, order, types, shapes, dims)",
                        case, repr(got), repr(exp), size=len(text))
    # (2) text fixpoint: every tree whose text parses (theorem C07_fixpoint has no hypothesis; the odd trees'
    # dims/shape mismatch is truncated by the printer once and for all)
    try:
        text2 = "".join(P["dds"](d2))
    except Exception as e:
        text2 = "raised " + type(e).__name__
    if text2 != text:
        ctx.oracle_fail("printing the parsed dataset does not reproduce the DDS", case, text2, text, size=len(text))


def check_foreign(ctx, P, rng, cases):
    view, toks = gen_foreign(rng)
    text = render_foreign(rng, toks)
    case = {"kind": "foreign", "text": text, "declared": view}
    bad, d, dump = judge_foreign(P, text, view)
    cases.append(("dds-parse " + hexb(text.encode()), dump, {"text": text}))
    ref = reference_text(implicit_dims(declared_structure(view)))
    cases.append(("dds-parse " + hexb(ref.encode()), impl_parse(P, ref)[1], {"text": ref}))
    ctx.count(("foreign", text), True, tag="foreign", sample={"foreign": text[:300]})
    for f in sorted(foreign_features(view) | ({"foreign-partially-named-dimensions(shape kept, names dropped)"}
                                              if partially_named(view) else set())):
        ctx.tags["feature:" + f] += 1
    for what, obs, exp in bad:
        ctx.oracle_fail(what, case, obs, exp, size=len(text))
    return text if d is not None else None


def explore(ctx, tier, search=False):
    P = load()
    cases = []
    rng = ctx.rng("trees")
    n = ctx.budget(15000, 90000) if not search else 20000
    for i in range(n):
        mode = "domain" if rng.random() < 0.8 else "odd"
        check_tree(ctx, P, gen_dataset(rng, mode), cases, mode)
    for spec in FIXED_TREES:
        check_tree(ctx, P, spec, cases, "fixed")
    for key in sorted(LIVE):
        check_tree(ctx, P, LIVE[key][1], cases, "fixed-live", live=key)
    ctx.correspond("dds()/dds_to_dataset on printed trees", cases, known_class=None)
    # `_quote` on raw ASCII names (the bridge from raw names to the theorems' domain `NameOk`)
    from pydap.lib import _quote
    cases = []
    rngq = ctx.rng("quote")
    raws = ["a b", "Period.", "a[0]", "x&y", "dap4", "dap4 is odd.", "%", "a/b", "~-_!*'\"", "\t", "{};:=,()#"]
    for _ in range(ctx.budget(2000, 20000)):
        raws.append("".join(rngq.choice(IDENT + QUOTE_NEEDED.replace("é", "").replace("中", "") + "/dap4")
                            for _ in range(rngq.randint(1, 9))))
    for raw in raws:
        q = _quote(raw)
        cases.append(("dds-quote " + hexb(raw.encode()), hexb(q.encode()), {"raw": raw}))
        ctx.count(("quote", raw), q != raw, tag="quote:" + ("changed" if q != raw else "identity"))
        if not raw.startswith("dap4") and "/" not in raw and not DIM_RE_OK(q):
            ctx.oracle_fail("_quote leaves a character the DDS parser's name_regexp does not accept",
                            {"kind": "quote", "raw": raw}, q, "[\\w%!~\"'*-]+")
    ctx.correspond("_quote on ASCII names", cases)
    cases = []
    rngf = ctx.rng("foreign")
    texts = []
    for i in range(ctx.budget(7000, 40000)):
        t = check_foreign(ctx, P, rngf, cases)
        if t:
            texts.append(t)
    check_lean_foreign(ctx, P, ctx.rng("lean-foreign"), ctx.budget(6000, 35000), cases)
    ctx.correspond("dds_to_dataset on foreign-style texts", cases)
    # malformed stream: error classes / accepted trees must agree
    cases = []
    rngm = ctx.rng("malformed")
    pool = texts[:3000] + MALFORMED
    for i in range(ctx.budget(15000, 90000)):
        base = rngm.choice(pool)
        text = base if base in MALFORMED and rngm.random() < 0.5 else mutate(rngm, base)
        if not ascii_ok(text) or not model_scope(text):
            continue
        d, dump = impl_parse(P, text)
        cases.append(("dds-parse " + hexb(text.encode()), dump, {"text": text}))
        ctx.count(("mal", text), True, tag="malformed:" + ("ok" if d is not None else dump))
    for text in MALFORMED:
        d, dump = impl_parse(P, text)
        cases.append(("dds-parse " + hexb(text.encode()), dump, {"text": text}))
    ctx.correspond("dds_to_dataset on malformed texts", cases)


def model_scope(text):
    """texts whose parse goes through `DatasetType.__setitem__`'s DAP4 path splitting (a name starting with
    `dap4` keeps 8 raw characters) are outside the model"""
    return "dap4" not in text.lower()


MALFORMED = [
    "", "Dataset", "Dataset {", "Dataset { }", "Dataset { } x", "Dataset { } ;", "Dataset { } x;", " Dataset { } x;",
    "Dataset { Int32 a[1_0]; } x;", "Dataset { Int32 a[-5]; } x;", "Dataset { Int32 a[x=-5]; } x;",
    "Dataset { Int32 a [3]; } x;", "Dataset { Int32 a[ 3 ] ; } x ;", "Dataset { Foo a; } x;",
    "Dataset { Int32 a[b]; } x;", "dataset{int32 a;url b;STRUCTURE{uint c;}s;}x;",
    "Dataset { Int32 a; Int32 a[3]; Float32 b; } x;", "Dataset { Int32 a; } ",
    "Dataset { Grid { Array: Int32 a[2]; Maps: Int32 a[2]; } g; } x;", "Dataset { Int32 a\x1c; } x;",
    "Dataset {\x1c Int32 a; } x;", "Dataset { Int32 a[/y = 4]; } x;", "Dataset { Int32 a[y = 4_0]; } x;",
    "Dataset { Int32 a[--4]; } x;", "Dataset { Int32 a[4-]; } x;", "Dataset { Int32 a[%]; } x;",
    "Dataset { Structure { } s; } x;", "Dataset { Sequence { Structure { Int16 q[2][3]; } t; } s; } x;",
    "Dataset { Grid { Array: Structure { Int32 a; } s; Maps: } g; } x;", "Dataset { Grid { } g; } x;",
    "Dataset { Grid { Array: Int32 a[2]; } g; } x;", "Dataset { Grid { Array: Int32 a[2]; Maps: } g; } x;",
    "Dataset { grid a; } x;", "Dataset { Structure a; } x;", "Dataset { Int32 a.b; Int32 c d; } x y;",
    "Dataset { Int32 a[x y = 3]; } x;", "Dataset { Int32 a[3][x = 4]; } x;", "Dataset { Int32 a[x = 4][3]; } x;",
    "Dataset { Int32 a[_1]; Int32 b[1__0]; } x;", "Dataset { Int32 a[1_]; } x;", "Dataset { Int32; } x;",
    "Dataset { Int32 ; } x;", "Dataset { _ a; } x;", "Dataset { Int32 a }", "Dataset { Int32 a; } x; trailing",
    "Dataset { Int32 a;;} x;", "Dataset { Int32 a[3]]; } x;", "Dataset { Int32 a[[3]; } x;",
    "Dataset { Url u; Int i; UInt j; } x;", "Dataset { STRING s[s = 2]; BYTE b; } x;",
]

FIXED_TREES = [
    ("ds", "d", [("sq", "Q", [("b", "i", "h", (5, 3), ())])]),
    ("ds", "d", [("sq", "Q", [("b", "j", "h", (5, 3, 2), ("n", "x", "y"))])]),
    ("ds", "my ds", [("b", "a b", "f", (2, 3), ("x", "y")), ("b", "c", "i", (4,), ()), ("b", "d", "B", (4, 2), ()),
                     ("b", "e", "d", (), ()), ("st", "S", [("b", "u", "U", (2,), ())]),
                     ("sq", "Q", [("b", "i", "h", (0,), ())]),
                     ("g", "G", [("b", "arr", "d", (2, 3), ("x", "y")), ("b", "x", "d", (2,), ("x",)),
                                 ("b", "y", "d", (3,), ("y",))])]),
    ("ds", "e", []),
    ("ds", "x", [("b", "v", "d", (2, 3), ("x",))]),
    ("ds", "x", [("b", "v", "d", (4,), ("/y",))]),
    ("ds", "x", [("b", "v", "d", (4, 2), ("a b", "c"))]),
    ("ds", "x", [("g", "g", [("b", "a", "d", (2,), ("lat[",)), ("b", "lat[", "d", (2,), ())])]),
    # variables without data (what the parser builds): the declared shape is printed whole, at any depth
    ("ds", "d", [("sq", "Q", [("b", "i", "h", (3,), (), True)])]),
    ("ds", "d", [("sq", "Q", [("b", "i", "h", (5, 3), (), True), ("b", "j", "h", (5, 3), (), False),
                              ("sq", "R", [("b", "m", "f", (2, 4), ("x", "y"), True),
                                           ("b", "n", "f", (5, 6, 2, 4), ("x", "y"), False)]),
                              ("g", "G", [("b", "a", "d", (5, 2), ("x",), False), ("b", "x", "d", (2,), ("x",), True)])])]),
]


def run(ctx):
    ctx.rule = ("seeded random dataset trees following the property's quantifier (every numpy dtype char of the DAP2 "
                "table, rank 0..3, extents 0..2^31-1, with/without named dimensions, Structure/Grid/Sequence nested "
                "to depth 4, array members and grids inside sequences, names from identifiers plus characters that "
                "need quoting incl. non-ASCII; per tree every leaf holds data (record axes + declared shape; 60%), no "
                "leaf has data (DummyData, declared shape only; 25%) or mixed per leaf (15%)) plus 20% 'odd' trees "
                "(dims/shape length mismatch), fixed regression trees incl. a Sequence holding a real numpy "
                "structured array, "
                "foreign-style texts from the harness's own printer (Url/Int/UInt, anonymous dimensions, random "
                "keyword case, random inter-token whitespace; names of variables and containers spelled RAW in ~20% "
                "of the draws: blank, '.', '&', '(', ']' ... inside a name, expected quoted - own_quote, the harness's "
                "independent reference) and a malformed stream (mutated texts); identifiers starting with 'dap4' (3%); "
                "Grids (trees, "
                "foreign texts, input of the Lean foreign printer) hold their maps in dimension order (25%), reversed "
                "(15%) or shuffled (60%), with maps that are no dimension of the array inserted anywhere (30%, half of "
                "them first), a dimension without a map (15%), repeated (15%) or anonymous (15%) dimension names, "
                "maps named differently from the dimensions (10%), 0-d/2-d maps, no maps; names are also grammar "
                "words (Grid, Maps, Array:, Int32, dataset ...), names of enclosing containers, of members; empty "
                "containers at any depth (feature:* tags = measured distribution); every case "
                "counts as non-trivial; distinct by canonical tree / text")
    ctx.assumptions = ["DDS text is ASCII (DDSResponse encodes with 'ascii'); the model's character classes are the "
                       "ASCII restrictions of \\w, \\d, str.lstrip and re.IGNORECASE",
                       "np.dtype(s).char, int(), '{}'.format(int) and urllib.parse.quote are trusted Python/numpy",
                       "names starting with 'dap4' whose first 8 characters are not all name_regexp characters "
                       "(_quote passes them through raw; DAP4 path handling in DatasetType.__setitem__) are outside "
                       "the model; identifiers starting with 'dap4' are generated"]
    ctx.proof_phase()
    explore(ctx, ctx.tier)
    return ctx.finish(search=lambda c: explore(c, "thorough", search=True), witnesses={})


def replay(payload):
    P = load()
    f = payload.get("failure")
    if not f:
        print("nothing to replay: %s" % payload.get("no_longer_checks"))
        return False
    c = f["case"]

    def tup(x):
        if isinstance(x, (list, tuple)):
            if x and x[0] == "b":
                return full(x)          # 5 elements (older replay files): a variable holding data
            return (x[0], x[1], [tup(k) for k in x[2]])
        return x

    if c["kind"] == "quote":
        from pydap.lib import _quote
        q = _quote(c["raw"])
        print("quoted:", q)
        return DIM_RE_OK(q)
    if c["kind"] == "tree":
        spec = tup(c["spec"])
        ds = LIVE[c["live"]][0](P) if c.get("live") else build(P, spec)
        text = "".join(P["dds"](ds))
        ok = True
        if c.get("live") and LIVE[c["live"]][2] not in text:
            print("DDS does not declare %r:\n%s" % (LIVE[c["live"]][2], text))
            ok = False
        try:
            d2 = P["dds_to_dataset"](text)
        except Exception as e:
            print("printed DDS does not parse:", type(e).__name__, e)
            return False
        if in_domain(spec):
            exp, got = norm_dt(spec_view(P, ds)), norm_dt(parsed_view(P, d2))
            if exp != got:
                print("tree differs:\n observed %r\n expected %r" % (got, exp))
                ok = False
        text2 = "".join(P["dds"](d2))
        if text2 != text:
            print("not a fixpoint:\n%s\nvs\n%s" % (text2, text))
            ok = False
        return ok
    text = c["text"]

    def tupv(x):
        if x[0] == "b":
            return ("b", x[1], x[2], tuple(x[3]), tuple(x[4]))
        return (x[0], x[1], [tupv(k) for k in x[2]])

    bad, _, _ = judge_foreign(P, text, tupv(c["declared"]))
    for what, obs, exp in bad:
        print("%s\n observed %s\n expected %s" % (what, obs, exp))
    return not bad
