"""C13 ownership oracle, part 2: module-level state.

The noninterference theorem needs every store of a request to go to an object the request allocated
(`Owned t`).  The write tracer of c13_trace.py sees stores into DAP objects only.  This module covers the other
place where two requests can meet: every mutable container (dict / list / set / deque / bytearray / ndarray,
subclasses included) that is reachable *without going through a request* from a loaded `pydap.*` module:

  * module globals (containers, and instances of classes defined in pydap: their state through `__dict__`),
  * attributes of classes defined in a pydap module (class-level caches, registries),
  * default arguments, keyword defaults, closure cells and function attributes of functions (module-level,
    methods, static/class methods) whose code lives under $VERIF_REPO/src/pydap.

Each container gets a deep, address-free fingerprint (nested containers, numpy buffers by content, arbitrary
objects through their `__dict__`, depth-limited, cycle-safe).  `changed(before, after)` lists the labels whose
fingerprint differs, appeared or vanished.  A change caused by serving a request is a store outside `Owned t`.

Not scanned, hence benign by construction (none of them is consulted when a response is computed from the
dataset and the request; they memoise pure functions of their key):
  * `re`'s pattern cache, `functools.singledispatch` dispatch caches and registries (closures of functools code,
    not of pydap code), `functools.lru_cache` internals, the import system, `warnings` registries
    (`__warningregistry__` is skipped by name), numpy/webob internals.
WHITELIST below names containers inside pydap that are allowed to change, with the reason.
"""
import collections
import os
import sys
import types

import numpy as np

import common

SRC = os.path.join(common.REPO, "src", "pydap") + os.sep
MUTABLE = (dict, list, set, bytearray, np.ndarray, collections.deque)
SKIP_NAMES = {"__warningregistry__", "__builtins__", "__annotations__", "__dict__", "__weakref__", "__doc__",
              "__slots__", "__all__", "__path__", "__cached__", "__spec__", "__loader__", "__file__"}

# label -> reason.  (empty on the pinned tree: serving a request changes no scanned container)
WHITELIST = {}

MAX_DEPTH = 7


def _is_pydap_mod(name):
    return name == "pydap" or name.startswith("pydap.")


def _pydap_code(fn):
    code = getattr(fn, "__code__", None)
    return code is not None and code.co_filename.startswith(SRC)


def _func_roots(label, fn, out):
    if not _pydap_code(fn):
        return
    for i, d in enumerate(fn.__defaults__ or ()):
        if isinstance(d, MUTABLE):
            out["%s.__defaults__[%d]" % (label, i)] = d
    for k, d in (fn.__kwdefaults__ or {}).items():
        if isinstance(d, MUTABLE):
            out["%s.__kwdefaults__[%s]" % (label, k)] = d
    for name, cell in zip(fn.__code__.co_freevars, fn.__closure__ or ()):
        try:
            v = cell.cell_contents
        except ValueError:
            continue
        if isinstance(v, MUTABLE):
            out["%s.<closure %s>" % (label, name)] = v
    for k, v in list(getattr(fn, "__dict__", {}).items()):
        if k not in SKIP_NAMES and isinstance(v, MUTABLE):
            out["%s.%s" % (label, k)] = v


def _unwrap(v):
    if isinstance(v, (staticmethod, classmethod)):
        return v.__func__
    if isinstance(v, property):
        return v.fget
    return v


def roots():
    """label -> container, for everything reachable from loaded pydap modules without a request"""
    out = {}
    for modname, mod in list(sys.modules.items()):
        if mod is None or not _is_pydap_mod(modname):
            continue
        for k, v in list(vars(mod).items()):
            if k in SKIP_NAMES:
                continue
            label = "%s.%s" % (modname, k)
            if isinstance(v, MUTABLE):
                out[label] = v
            elif _is_pydap_mod(getattr(type(v), "__module__", "") or "") and not isinstance(v, type):
                out[label] = v      # a module-level instance of a pydap class: its whole state (through __dict__)
            elif isinstance(v, type):
                if getattr(v, "__module__", None) != modname:
                    continue        # listed where it is defined
                for ak, av in list(vars(v).items()):
                    if ak in SKIP_NAMES:
                        continue
                    av = _unwrap(av)
                    if isinstance(av, MUTABLE):
                        out["%s.%s" % (label, ak)] = av
                    elif isinstance(av, types.FunctionType):
                        _func_roots("%s.%s" % (label, ak), av, out)
            elif isinstance(v, types.FunctionType):
                if getattr(v, "__module__", None) not in (None, modname) and _is_pydap_mod(v.__module__ or ""):
                    continue        # imported from another pydap module: listed there
                _func_roots(label, v, out)
                w = getattr(v, "__wrapped__", None)
                if isinstance(w, types.FunctionType):
                    _func_roots(label + ".__wrapped__", w, out)
    return out


def fp(v, depth=0, seen=None):
    """deep fingerprint without addresses"""
    if v is None or isinstance(v, (bool, int, str, bytes)):
        return v
    if isinstance(v, float):
        return ("f", repr(v))
    if isinstance(v, complex):
        return ("c", repr(v))
    if seen is None:
        seen = set()
    if id(v) in seen:
        return ("cycle", type(v).__name__)
    if depth > MAX_DEPTH:
        return ("deep", type(v).__name__)
    if isinstance(v, np.ndarray):
        if v.dtype.hasobject:
            return ("nd-obj", v.shape, tuple(fp(x, depth + 1, seen) for x in v.ravel().tolist()))
        return ("nd", str(v.dtype), v.shape, v.tobytes())
    if isinstance(v, np.generic):
        return ("np", str(v.dtype), v.tobytes())
    if isinstance(v, (types.FunctionType, types.BuiltinFunctionType, types.MethodType, type, types.ModuleType)):
        return ("ref", getattr(v, "__module__", None), getattr(v, "__qualname__", getattr(v, "__name__", "?")))
    seen = seen | {id(v)}
    if isinstance(v, dict):
        return ("dict", type(v).__name__, tuple((fp(k, depth + 1, seen), fp(x, depth + 1, seen)) for k, x in list(v.items())))
    if isinstance(v, (list, tuple, collections.deque)):
        return (type(v).__name__, tuple(fp(x, depth + 1, seen) for x in list(v)))
    if isinstance(v, (set, frozenset)):
        return ("set", tuple(sorted(repr(fp(x, depth + 1, seen)) for x in list(v))))
    if isinstance(v, bytearray):
        return ("bytearray", bytes(v))
    d = getattr(v, "__dict__", None)
    if isinstance(d, dict):
        return ("obj", type(v).__name__, fp(d, depth + 1, seen))
    slots = getattr(type(v), "__slots__", None)
    if slots:
        return ("obj", type(v).__name__, tuple((s, fp(getattr(v, s, None), depth + 1, seen)) for s in slots
                                               if isinstance(s, str)))
    return ("opaque", type(v).__name__)


MODS = "<loaded pydap modules>"


def snapshot_all():
    out = {label: fp(v) for label, v in roots().items()}
    out[MODS] = frozenset(n for n, m in list(sys.modules.items()) if m is not None and _is_pydap_mod(n))
    return out


def changed(before, after):
    """labels written between two snapshots (changed content, created, or removed), whitelist excluded.
    A container that appears only because its *module* was imported in between (a response that imports its
    dependencies on first use) is not a write: the import system is outside the property."""
    out = []
    old_mods = before[MODS]
    for label in sorted(set(before) | set(after)):
        if label == MODS or label in WHITELIST:
            continue
        if label not in before and any(label.startswith(m + ".") for m in after[MODS] - old_mods):
            continue
        if before.get(label, "<absent>") != after.get(label, "<absent>"):
            out.append(label)
    return out


def watcher(labels):
    """a cheap re-fingerprinter of a few containers (by label), used at every line of a traced solo run"""
    def read():
        r = roots()
        return tuple(fp(r[l]) if l in r else "<absent>" for l in labels)
    return read


def short_name(label):
    """the identifier under which pydap code refers to the container (global name, attribute name,
    closure variable)"""
    tail = label.rsplit(".", 1)[1]
    if tail.startswith("<closure "):
        return tail[len("<closure "):-1]
    if tail.startswith("__defaults__") or tail.startswith("__kwdefaults__"):
        return None
    return tail


def _codes(code, acc):
    acc.append(code)
    for c in code.co_consts:
        if isinstance(c, types.CodeType):
            _codes(c, acc)


def functions_naming(labels):
    """(relative filename, function name) of every pydap code object that mentions the container of one of
    `labels` (as a global, an attribute or a closure variable; a mutable default argument: the function that
    has it): the static over-approximation of the readers and writers of the containers"""
    names = set()
    owners = set()
    for l in labels:
        n = short_name(l)
        if n:
            names.add(n)
        else:
            owners.add(l.split(".__defaults__")[0].split(".__kwdefaults__")[0].rsplit(".", 1)[1])
    out = set()
    seen = set()
    for modname, mod in list(sys.modules.items()):
        if mod is None or not _is_pydap_mod(modname):
            continue
        stack = list(vars(mod).values())
        for v in stack:
            if isinstance(v, type) and getattr(v, "__module__", None) == modname:
                stack.extend(_unwrap(a) for a in vars(v).values())
        for v in stack:
            for f in (v, getattr(v, "__wrapped__", None)):
                code = getattr(f, "__code__", None)
                if code is None or not code.co_filename.startswith(SRC) or id(code) in seen:
                    continue
                seen.add(id(code))
                acc = []
                _codes(code, acc)
                for c in acc:
                    if names & (set(c.co_names) | set(c.co_freevars) | set(c.co_cellvars)) or c.co_name in owners:
                        out.add((c.co_filename[len(SRC):], c.co_name))
    return out
