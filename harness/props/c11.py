"""C11 — a DMR parses to exactly what it declares; the server's DMR round-trips.
Proof: lean/Props/C11.lean.  Tie: generated abstract specs -> independent XML renderer (harness/oracle/refdap4.py)
-> pydap.parsers.dmr.dmr_to_dataset -> canonical dump in walk order, vs the Lean model on ElementTree's tree of the
same text; get_atomic_attr on single attribute elements; the server's DMR for generated datasets with groups.
The spec itself goes to Lean as well: `renderRoot spec` must be ElementTree's tree of the rendered text (modulo the
indentation text of container elements) and `expectVars spec` (right-hand side of C11_parse) must be what
dmr_to_dataset returns, variable by variable in document order.  The server: `renderServer` vs ET's tree of dmr(ds).
Oracle: the abstract spec itself (lookup by group path, type, shape, fully qualified dims, maps, attributes)."""
import re
import warnings

import numpy as np

import common
from oracle import gen_dap4 as G
from oracle import refdap4 as R

LEVEL = "proof"

QV = G.NAMES[:3] + G.QUOTED_ASCII + G.QUOTED_UNICODE
QG = G.GROUP_NAMES[:2] + G.QUOTED_GROUPS
QD = G.NAMES[:3] + G.QUOTED_DIMS

BYTE_WITNESS = {"k": "attr", "name": "flag", "type": "Byte", "values": [["text", "007"]]}   # former finding (fix 78a1746)


# open finding C11.reserved_attribute_name: pydap stores its own `Maps` (always) and `path` (members of groups) in
# the attributes dict of a parsed variable; a declared attribute of that name is overwritten
RESERVED_KEY = "C11.reserved_attribute_name"
RESERVED_NAMES = ("Maps", "path", "checksum")       # checksum is pydap's own key only once data is decoded (C10)
RESERVED_WITNESS = {"name": "d", "items": [{"k": "var", "type": "Int32", "name": "v", "dims": [], "maps": [], "attrs": [
    {"k": "attr", "name": "Maps", "type": "String", "values": [["text", "x"]]}]}]}


def reserved_class(path, v):
    """the class of the finding, per declared variable: it declares an attribute named `Maps`, or named `path`
    while it is a member of a group"""
    return any(a["name"] == "Maps" or (a["name"] == "path" and len(path) > 0) for a in v["attrs"])


def spec_in_reserved_class(spec):
    return any(reserved_class(p, v) for p, v in R.walk_vars(spec))


def add_reserved(rng, spec):
    """every ~8th spec with attributes: one attribute of one variable is renamed to Maps / path / checksum (own PRNG
    stream, so the specs themselves are those of earlier rounds)"""
    cands = [(p, v) for p, v in R.walk_vars(spec) if v["attrs"]]
    if not cands or rng.random() >= 0.12:
        return
    _, v = rng.choice(cands)
    name = rng.choice(RESERVED_NAMES)
    if name not in [a["name"] for a in v["attrs"]]:
        rng.choice(v["attrs"])["name"] = name


def reserved_witness_fails(fns):
    ds, _ = parse_dump(fns, R.render_dmr(RESERVED_WITNESS))
    try:
        return ds["v"].attributes.get("Maps") != "x"
    except BaseException:
        return True


def byte_witness_fails(fns):
    from xml.etree import ElementTree as ET
    try:
        _, val = fns[1](ET.fromstring("\n".join(R._attr_xml(BYTE_WITNESS, ""))))
        return not (type(val) is int and val == 7)
    except BaseException:
        return True


def load():
    from pydap.lib import walk
    from pydap.model import BaseType, DatasetType
    from pydap.parsers.dmr import dmr_to_dataset, get_atomic_attr
    from pydap.responses.dmr import dmr as dmr_response

    return dmr_to_dataset, get_atomic_attr, walk, BaseType, DatasetType, dmr_response


def err_class(e):
    return type(e).__name__


def parse_dump(fns, text):
    dmr_to_dataset, _, walk, BaseType = fns[:4]
    with warnings.catch_warnings():
        warnings.simplefilter("ignore")
        try:
            ds = dmr_to_dataset(text)
        except Exception as e:
            return None, "(err %s)" % err_class(e)
        return ds, "(ok" + "".join(" " + G.rec_str(v, G.own_keys(v)) for v in walk(ds, BaseType)) + ")"


def judge_spec(ctx, fns, spec, text, ds, dump, cls_of=None):
    """direct oracle: the parsed dataset against the abstract spec"""
    walk, BaseType = fns[2], fns[3]
    case = {"kind": "spec", "spec": spec}
    size = len(text)
    if ds is None:
        ctx.oracle_fail("DMR of a valid spec does not parse", case, dump, "a dataset", size=size)
        return
    declared = list(R.walk_vars(spec))
    got_n = len(list(walk(ds, BaseType)))
    if got_n != len(declared):
        ctx.oracle_fail("number of variables differs from the number declared", case, got_n, len(declared), size=size)
        return
    for path, v in declared:
        fq = R.fqn(path, v["name"])
        qfq = G.dap_quote(fq) if path else G.dap_quote(v["name"])
        try:
            with warnings.catch_warnings():
                warnings.simplefilter("ignore")
                var = ds[fq] if path else ds[v["name"]]
                qvar = ds[qfq]
        except Exception as e:
            ctx.oracle_fail("declared variable not addressable by its group path", dict(case, var=fq), err_class(e), fq,
                            size=size, cls=cls_of(spec, path, v) if cls_of else None)
            continue
        if not isinstance(qvar, BaseType):
            ctx.oracle_fail("declared variable not addressable by its quoted group path", dict(case, var=fq),
                            type(qvar).__name__, qfq, size=size)
            continue
        if var is not qvar:
            ctx.oracle_fail("declared variable not addressable by its group path (declared names)", dict(case, var=fq),
                            type(var).__name__, "the variable stored as " + qfq, size=size)
            var = qvar
        exp_path = G.dap_quote("/" + "/".join(path)) if path else None
        # the group path of a parsed variable (var.path, kept on its DummyData; attributes['path'] of a root-level
        # variable may be a declared attribute of that name)
        if var.path != exp_path or (path and var.attributes.get("path") != exp_path):
            ctx.oracle_fail("variable carries another group path than the one it is declared in", dict(case, var=fq),
                            repr((var.path, var.attributes.get("path"))), repr(exp_path), size=size)
        exp_dt = np.dtype(R.NUMERIC[v["type"]])
        dt = np.dtype(var.dtype)
        if (dt.kind, dt.itemsize) != (exp_dt.kind, exp_dt.itemsize):
            ctx.oracle_fail("variable type differs from the declared type", dict(case, var=fq), str(dt), str(exp_dt),
                            size=size)
        exp_shape = R.var_shape(spec, v)
        if tuple(var.shape) != tuple(exp_shape):
            ctx.oracle_fail("variable shape differs from the resolved dimensions", dict(case, var=fq),
                            list(var.shape), list(exp_shape), size=size)
        exp_dims = R.var_dim_names(v)
        if list(var.dims) != exp_dims:
            ctx.oracle_fail("dimension names are not the fully qualified declared ones", dict(case, var=fq),
                            list(var.dims), exp_dims, size=size)
        if list(var.attributes.get("Maps", ())) != list(v["maps"]):
            ctx.oracle_fail("maps differ from the declared maps", dict(case, var=fq),
                            list(var.attributes.get("Maps", ())), v["maps"], size=size)
        exp_attrs = {}
        for a in v["attrs"]:
            exp_attrs[a["name"]] = G.expected_attr(a)
        # pydap keeps two entries of its own in the same dict (Maps; path for a member of a group): they are judged
        # above.  A *declared* attribute of such a name must still come back with its declared value.
        got_attrs = {k: val for k, val in var.attributes.items() if k not in G.own_keys(var) or k in exp_attrs}
        if sorted(got_attrs) != sorted(exp_attrs) or not all(G.attr_equal(got_attrs[k], exp_attrs[k]) for k in exp_attrs):
            ctx.oracle_fail("attributes differ from the declared names/types/values", dict(case, var=fq),
                            repr(got_attrs), repr(exp_attrs), size=size,
                            cls=RESERVED_KEY if reserved_class(path, v) else None)


def spec_tags(spec):
    tags = []
    d = R.max_depth(spec)
    tags.append("depth=%d" % d)
    if G.has_mixed(spec):
        tags.append("mixed-dims")
    names = [v["name"] for _, v in R.walk_vars(spec)]
    if len(set(names)) < len(names):
        tags.append("same-short-name")
    return tags


def check_specs(ctx, fns, n, label, **kw):
    rng = ctx.rng(label)
    rng_res = ctx.rng(label + "-reserved-attr-names")
    cases, tree_cases, vars_cases, find_cases = [], [], [], []
    for i in range(n):
        spec = G.gen_spec(rng, **kw)
        add_reserved(rng_res, spec)
        for p, v in R.walk_vars(spec):
            for a in v["attrs"]:
                if a["name"] in RESERVED_NAMES:
                    ctx.tags["%s:attr-named-%s:%s" % (label, a["name"], "group" if p else "root")] += 1
        text = R.render_dmr(spec, xml_decl=rng.random() < 0.5)
        ds, dump = parse_dump(fns, text)
        et = G.et_of_dmr(text)
        cases.append(("dmr-walk " + G.xnode_sexp(et), dump, {"spec": spec}))
        sx = G.spec_sexp(spec)
        # the Lean rendering of the spec is ET's tree of the independently rendered text
        tree_cases.append(("dmr-spec-tree %s %s" % (G.hexs(spec["name"]), sx), G.norm_tree_sexp(et), {"spec": spec}))
        # what the spec declares (right-hand side of C11_parse) is what pydap returns, in document order
        vars_cases.append(("dmr-spec-vars " + sx, doc_order_dump(fns, spec, ds, dump), {"spec": spec}))
        find_cases.append(("dmr-find %s (%s)" % (G.xnode_sexp(et), " ".join(G.hexs(k) for k in find_keys(spec))),
                           find_dump(fns, spec, ds, dump), {"spec": spec}))
        for t in G.layout_tags(spec):
            ctx.tags[label + ":" + t] += 1
        judge_spec(ctx, fns, spec, text, ds, dump)
        nvars = len(list(R.walk_vars(spec)))
        for t in spec_tags(spec):
            ctx.tags[label + ":" + t] += 1
        ctx.count(("spec", text), nvars > 0 and (R.max_depth(spec) > 0 or nvars > 1), tag=label,
                  sample={"dmr": text[:400]} if i < 2 else None)
    ctx.correspond("dmr_to_dataset (walk dump)", cases)
    ctx.correspond("spec rendering = ElementTree's tree (renderRoot)", tree_cases)
    # inside the class of the open finding the declared records are NOT what pydap returns (C11_parse_refuted);
    # the model itself (dmr-walk above) follows the code there too and must agree
    ctx.correspond("declared variables = dmr_to_dataset (expectVars, C11_parse)", vars_cases,
                   known_class=lambda m: RESERVED_KEY if spec_in_reserved_class(m["spec"]) else None)
    ctx.correspond("dataset[group path/name] (findVar, C11_addressable)", find_cases)


def find_keys(spec):
    """the declared and the stored spelling of every declared variable's path, document order"""
    keys = []
    for p, v in R.walk_vars(spec):
        key = R.fqn(p, v["name"]) if p else v["name"]
        keys += [key, G.dap_quote(key)]
    return keys


def find_dump(fns, spec, ds, dump):
    """dataset[<group path>/<name>] for every declared variable in document order, under its declared and its
    stored spelling: the stored key of what comes back"""
    if ds is None:
        return dump
    BaseType = fns[3]
    out = "(ok"
    for key in find_keys(spec):
        try:
            with warnings.catch_warnings():
                warnings.simplefilter("ignore")
                got = ds[key]
            found = G.hexs(G.var_key(got)) if isinstance(got, BaseType) else "none"
        except Exception:
            found = "none"
        out += " (%s %s)" % (G.hexs(key), found)
    return out + ")"


def doc_order_dump(fns, spec, ds, dump):
    """the parsed variables in the order the document declares them (looked up by key)"""
    if ds is None:
        return dump
    walk, BaseType = fns[2], fns[3]
    by_key = {}
    for v in walk(ds, BaseType):
        by_key.setdefault(G.var_key(v), []).append(v)
    out = "(ok"
    for p, v in R.walk_vars(spec):
        key = G.dap_quote(R.fqn(p, v["name"]) if p else v["name"])
        got = by_key.get(key, [])
        out += " " + (G.rec_str(got[0], G.own_keys(got[0])) if len(got) == 1 else "(%s x%d)" % (G.hexs(key), len(got)))
    if sum(len(x) for x in by_key.values()) != len(list(R.walk_vars(spec))):
        out += " (extra)"
    return out + ")"


def check_attrs(ctx, fns, n):
    """get_atomic_attr alone: every atomic type, the three value syntaxes, 0..3 values, messy integer texts"""
    get_atomic_attr = fns[1]
    rng = ctx.rng("attrs")
    cases = []
    from xml.etree import ElementTree as ET
    for i in range(n):
        a = G.gen_attr(rng, set(), types=G.ATTR_TYPES + ["Char", "URI", "Url"])
        if a["type"] in ("URI", "Url"):
            for v in a["values"]:
                v[1] = "http://x/y"
        xml = "\n".join(R._attr_xml(a, ""))
        el = ET.fromstring(xml)
        try:
            name, val = get_atomic_attr(el)
            impl = "(ok %s %s)" % (G.hexs(name), G.attr_str(val))
        except BaseException as e:
            val = e
            impl = "(err %s)" % err_class(e)
        cases.append(("dmr-attr " + G.xnode_sexp(el), impl, {"attr": a}))
        if a["type"] in ("URI", "Url"):
            exp = [t for _, t in a["values"]]
            exp = None if not exp else exp[0] if len(exp) == 1 else exp
        elif a["type"] == "Char":
            exp = G.expected_attr(dict(a, type="UInt8"))
        else:
            exp = G.expected_attr(a)
        if isinstance(val, BaseException) or not G.attr_equal(val, exp):
            ctx.oracle_fail("attribute value differs from its declared type/values", {"kind": "attr", "attr": a},
                            impl, repr(exp), size=len(xml))
        ctx.count(("attr", xml), True, tag="attr:%s:%d" % (a["type"], len(a["values"])))
    ctx.correspond("get_atomic_attr", cases)
    if byte_witness_fails(fns):
        ctx.oracle_fail("Byte attribute with leading zeros is not the integer it denotes", {"kind": "attr", "attr": BYTE_WITNESS},
                        "error or other value", "7", size=1)


# ---------------------------------------------------------------------------------------------
# the server's DMR
def build_server_dataset(fns, spec, arrays, with_dimensions=True):
    """a pydap DatasetType for the spec, built the way tests/datasets.py builds SimpleGroup"""
    DatasetType = fns[4]
    root_dims = {it["name"]: it["size"] for it in spec["items"] if it["k"] == "dim"}
    with warnings.catch_warnings():
        warnings.simplefilter("ignore")
        ds = DatasetType(spec["name"], dimensions=root_dims) if (with_dimensions or root_dims) else DatasetType(spec["name"])
        for path, g in R.walk_groups(spec):
            dims = {it["name"]: it["size"] for it in g["items"] if it["k"] == "dim"}
            ds.createGroup("/" + "/".join(path), dimensions=dims)
        for path, v in R.walk_vars(spec):
            fq = R.fqn(path, v["name"])
            kw = {}
            if v.get("srv_attrs"):
                kw["attributes"] = {k: srv_value(val) for k, val in v["srv_attrs"]}
            if v.get("maps"):
                kw["Maps"] = tuple(v["maps"])
            ds.createVariable(name=fq, data=arrays[fq], dims=tuple(R.var_dim_names(v)), **kw)
    return ds


SRV_ATTR_NAMES = ["units", "scale", "valid", "n", "code", "long_name", "flag"]


def gen_srv_attrs(rng):
    """attributes as a server-side dataset holds them: Python ints, floats, strings (XML-special characters
    included), numpy scalars, lists of them (two or more values: a one-element list is a scalar in a DMR)"""
    out = []
    for name in rng.sample(SRV_ATTR_NAMES, rng.choice([0, 0, 1, 2, 3])):
        kind = rng.choice(["int", "float", "str", "npint", "npfloat", "ints", "floats", "strs"])
        ints = [0, 1, -1, 7, 255, -32768, 2 ** 31, -2 ** 63, 2 ** 63 - 1, rng.randint(-1000, 1000)]
        floats = [0.0, 1.5, -2.25, 1e20, 3e-05, float("inf"), -0.0, 6.02e23]
        strs = ["m", "deg C", "a<b&c", "x_y", "K", "it's \"q\"", "1"]
        if kind == "int":
            val = rng.choice(ints)
        elif kind == "float":
            val = rng.choice(floats)
        elif kind == "str":
            val = rng.choice(strs)
        elif kind == "npint":
            val = rng.choice([{"np": "int8", "v": -3}, {"np": "int16", "v": 300}, {"np": "uint8", "v": 200},
                              {"np": "uint16", "v": 65535}, {"np": "int32", "v": -7}, {"np": "uint32", "v": 9},
                              {"np": "int64", "v": 5}, {"np": "uint64", "v": 2 ** 63 + 1}])
        elif kind == "npfloat":
            val = rng.choice([{"np": "float32", "v": 1.5}, {"np": "float64", "v": -2.25}])
        elif kind == "ints":
            val = [rng.choice(ints) for _ in range(rng.randint(2, 3))]
        elif kind == "floats":
            val = [rng.choice(floats) for _ in range(rng.randint(2, 3))]
        else:
            val = [rng.choice(strs) for _ in range(rng.randint(2, 3))]
        out.append([name, val])
    return out


def srv_value(val):
    """the Python object of a generated (JSON-serialisable) attribute value"""
    if isinstance(val, list):
        return [srv_value(x) for x in val]
    if isinstance(val, dict):
        return np.dtype(val["np"]).type(val["v"])
    return val


def srv_attr_equal(got, exp):
    """same value and the same kind of type (int / float / str; numpy width is the DMR's business)"""
    if isinstance(exp, list):
        return isinstance(got, list) and len(got) == len(exp) and all(srv_attr_equal(g, e) for g, e in zip(got, exp))
    if isinstance(exp, str):
        return isinstance(got, str) and got == exp
    if isinstance(exp, (float, np.floating)):
        return isinstance(got, float) and repr(float(got)) == repr(float(exp))
    return type(got) is int and got == int(exp)


def check_server(ctx, fns, n):
    dmr_to_dataset, _, walk, BaseType, DatasetType, dmr_response = fns
    rng = ctx.rng("server")
    tag_cases = []
    for name in ["int8", "uint8", "int16", "uint16", "int32", "uint32", "int64", "uint64", "float32", "float64"]:
        dt = np.dtype(name)
        it = iter(dmr_response(fns[3]("v", np.zeros((), dtype=dt))))
        first = next(it)
        tag = first.strip()[1:].split(" ")[0]
        tag_cases.append(("dmr-tag %s %s" % (dt.kind, G.hexs(str(dt))), G.hexs(tag), {"dtype": name}))
    ctx.correspond("responses/dmr.py element tag", tag_cases)
    srv_cases = []
    for i in range(n):
        # the server renders shared dimensions only: named Dims, all numeric types
        spec = G.gen_spec(rng, mixed=False, attrs=False, max_depth=rng.choice([0, 1, 2, 3]))
        seen_vars = []
        for pth, v in R.walk_vars(spec):
            v["dims"] = [d for d in v["dims"] if "ref" in d]
            # served attributes and Maps (every second dataset, so that the plain stream stays as it was)
            if i % 2:
                v["srv_attrs"] = gen_srv_attrs(rng)
                if seen_vars and rng.random() < 0.4:
                    v["maps"] = [rng.choice(seen_vars) for _ in range(rng.randint(1, 2))]
            seen_vars.append(R.fqn(pth, v["name"]))
        arrays = G.gen_arrays(rng, spec)
        with_dims = rng.random() < 0.8
        case = {"kind": "server", "spec": spec, "with_dimensions": with_dims}
        try:
            ds = build_server_dataset(fns, spec, arrays, with_dims)
            with warnings.catch_warnings():
                warnings.simplefilter("ignore")
                text = "".join(dmr_response(ds))
        except Exception as e:
            ctx.oracle_fail("the server cannot render the DMR of a dataset", case, err_class(e), "a DMR", size=len(repr(spec)))
            continue
        try:
            with warnings.catch_warnings():
                warnings.simplefilter("ignore")
                back = dmr_to_dataset(text)
        except Exception as e:
            ctx.oracle_fail("the server's DMR does not parse", dict(case, dmr=text), err_class(e), "a dataset",
                            size=len(text))
            continue
        srv_cases.append(("dmr-srv-tree %s" % srv_sexp(ds), G.norm_tree_sexp(G.et_of_dmr(text), top=False),
                          {"spec": spec}))
        declared = list(R.walk_vars(spec))
        ok = True
        if len(list(walk(back, BaseType))) != len(declared):
            ctx.oracle_fail("server DMR parses to a different number of variables", dict(case, dmr=text),
                            len(list(walk(back, BaseType))), len(declared), size=len(text))
            ok = False
        for path, v in declared if ok else []:
            fq = R.fqn(path, v["name"])
            try:
                var = back[fq] if path else back[v["name"]]
            except Exception as e:
                ctx.oracle_fail("variable lost in the server DMR round trip", dict(case, var=fq), err_class(e), fq,
                                size=len(text))
                continue
            dt, exp = np.dtype(var.dtype), arrays[fq].dtype
            if (dt.kind, dt.itemsize) != (exp.kind, exp.itemsize) or tuple(var.shape) != arrays[fq].shape:
                ctx.oracle_fail("type/shape changed in the server DMR round trip", dict(case, var=fq),
                                [str(dt), list(var.shape)], [str(exp), list(arrays[fq].shape)], size=len(text))
            judge_srv_attrs(ctx, case, fq, var, v, len(text))
        ctx.count(("server", text), len(declared) > 0, tag="server:depth=%d" % R.max_depth(spec),
                  sample=None)
    ctx.correspond("responses/dmr.py dmr() = renderServer (element tree)", srv_cases)


def judge_srv_attrs(ctx, case, fq, var, v, size):
    got = {k: val for k, val in var.attributes.items() if k not in G.HIDDEN}
    exp = dict((k, srv_value(val)) for k, val in v.get("srv_attrs", []))
    if sorted(got) != sorted(exp) or not all(srv_attr_equal(got[k], exp[k]) for k in exp):
        ctx.oracle_fail("served attributes change name, kind of type or value in the server DMR round trip",
                        dict(case, var=fq), repr(got), repr(exp), size=size)
    if list(var.attributes.get("Maps", ())) != list(v.get("maps", [])):
        ctx.oracle_fail("served Maps change in the server DMR round trip", dict(case, var=fq),
                        list(var.attributes.get("Maps", ())), list(v.get("maps", [])), size=size)


def srv_val_sexp(x):
    """one attribute value of the served dataset object as the Lean server model sees it (what
    np.asarray(value).dtype says, and str(value))"""
    if isinstance(x, (str, bytes, bool, np.bool_)):
        return "(t %s)" % G.hexs(str(x))
    dt = np.asarray(x).dtype
    if dt.kind in "iu" and dt.itemsize in (1, 2, 4, 8):
        return "(i %d %d %d)" % (1 if dt.kind == "u" else 0, {1: 0, 2: 1, 4: 2, 8: 3}[dt.itemsize], int(x))
    if dt.kind == "f" and dt.itemsize in (4, 8):
        return "(f %d %s)" % (dt.itemsize, G.hexs(str(x)))
    return "(t %s)" % G.hexs(str(x))


def srv_sexp(ds):
    """the served dataset object as the Lean server model sees it: name, dimensions, children() in order;
    a variable = name, numpy kind, str(dtype), var.dims with the extents of its data"""
    from pydap.model import BaseType, GroupType

    def dims_of(d):
        return " ".join("(%s %d)" % (G.hexs(k), int(v)) for k, v in (d or {}).items())

    def kids(c):
        out = []
        for ch in c.children():
            if isinstance(ch, GroupType):
                out.append("(group %s (%s) (%s))" % (G.hexs(ch.name), dims_of(ch.attributes.get("dimensions", {})), kids(ch)))
            elif isinstance(ch, BaseType):
                dt = np.dtype(ch.dtype)
                shape = tuple(ch.shape)
                out.append("(var %s %s %s (%s) (%s) (%s))" % (
                    G.hexs(ch.name), dt.kind, G.hexs(str(dt)),
                    " ".join("(%s %d)" % (G.hexs(d), shape[i] if i < len(shape) else -1) for i, d in enumerate(ch.dims)),
                    " ".join("(%s (%s))" % (G.hexs(k), " ".join(srv_val_sexp(x) for x in (
                        list(val) if isinstance(val, (list, tuple)) else [val])))
                        for k, val in ch.attributes.items() if k not in ("dims", "Maps")),
                    " ".join(G.hexs(m) for m in ch.attributes.get("Maps", ()))))
        return " ".join(out)
    return "%s (%s) (%s)" % (G.hexs(ds.name), dims_of(getattr(ds, "dimensions", {})), kids(ds))


def run(ctx):
    ctx.rule = ("seeded random abstract specs (groups to depth 3, dimensions at any level, repeated short names, "
                "named/anonymous/mixed Dims, all numeric types, attributes of every atomic type in the three value "
                "syntaxes with 0-3 values, Maps; two sub-streams with variable, group and dimension names that DAP "
                "quoting changes: blank, brackets, '.', '&', '%', non-ASCII) rendered by harness/oracle/refdap4.py; a "
                "spec is non-trivial when it has a group or more than one variable; distinct by document text; plus "
                "single-attribute documents and server-side datasets with groups, every second one with attributes "
                "(ints, floats, strings, numpy scalars, lists) and Maps")
    ctx.assumptions = ["xml.etree.ElementTree (text -> element tree) is trusted: the model receives ET's tree",
                       "names do not start with 'dap4' and contain no '/'; strings travel as UTF-8 bytes; declared "
                       "attributes named Maps / path / checksum are generated (open finding "
                       "C11.reserved_attribute_name: Maps anywhere and path in a group are overwritten by pydap's own entries)",
                       "float(text) is Python's: float attribute texts are compared as repr(float)"]
    ctx.proof_phase()
    fns = load()
    explore(ctx, fns, ctx.tier)
    return ctx.finish(search=lambda c: explore(c, fns, "thorough"),
                      witnesses={RESERVED_KEY: lambda: reserved_witness_fails(fns)})


def explore(ctx, fns, tier):
    k = 1 if tier == "quick" else 12
    check_specs(ctx, fns, 250 * k, "flat", groups=False)
    check_specs(ctx, fns, 700 * k, "groups")
    # names that DAP quoting changes (blank, brackets, `&`, `.`, `%`, non-ASCII) for variables, groups and dimensions
    check_specs(ctx, fns, 120 * k, "quoted-flat", groups=False, var_names=QV, dim_names=QD)
    check_specs(ctx, fns, 280 * k, "quoted-groups", var_names=QV, group_names=QG, dim_names=QD)
    check_attrs(ctx, fns, 600 * k)
    check_server(ctx, fns, 150 * k)


def replay(payload):
    fns = load()
    f = payload.get("failure")
    if not f:
        print("nothing to replay: %s" % payload.get("no_longer_checks"))
        return False
    c = f["case"]
    ctx = common.Ctx("C11", "quick", 0)
    if c["kind"] == "spec":
        text = R.render_dmr(c["spec"])
        ds, dump = parse_dump(fns, text)
        judge_spec(ctx, fns, c["spec"], text, ds, dump)
    elif c["kind"] == "attr":
        from xml.etree import ElementTree as ET
        a = c["attr"]
        el = ET.fromstring("\n".join(R._attr_xml(a, "")))
        try:
            _, val = fns[1](el)
            exp = G.expected_attr(dict(a, type="UInt8") if a["type"] == "Char" else a) \
                if a["type"] not in ("URI", "Url") else None
            if a["type"] in ("URI", "Url"):
                exp = [t for _, t in a["values"]]
                exp = None if not exp else exp[0] if len(exp) == 1 else exp
            if not G.attr_equal(val, exp):
                ctx.oracle_fail("attr", c, repr(val), repr(exp))
        except BaseException as e:
            ctx.oracle_fail("attr", c, err_class(e), "value")
    else:
        replay_server(ctx, fns, c)
    for fl in ctx.oracle_failures[:3]:
        print("observed", fl["observed"], "expected", fl["expected"], "--", fl["what"])
    return not ctx.oracle_failures


def replay_server(ctx, fns, c):
    import random
    dmr_to_dataset, _, walk, BaseType, DatasetType, dmr_response = fns
    spec = c["spec"]
    arrays = G.gen_arrays(random.Random(0), spec)
    try:
        ds = build_server_dataset(fns, spec, arrays, c.get("with_dimensions", True))
        with warnings.catch_warnings():
            warnings.simplefilter("ignore")
            back = dmr_to_dataset("".join(dmr_response(ds)))
        declared = list(R.walk_vars(spec))
        if len(list(walk(back, BaseType))) != len(declared):
            ctx.oracle_fail("server", c, len(list(walk(back, BaseType))), len(declared))
        for path, v in declared:
            fq = R.fqn(path, v["name"])
            var = back[fq] if path else back[v["name"]]
            dt, exp = np.dtype(var.dtype), arrays[fq].dtype
            if (dt.kind, dt.itemsize) != (exp.kind, exp.itemsize) or tuple(var.shape) != arrays[fq].shape:
                ctx.oracle_fail("server", c, [str(dt), list(var.shape)], [str(exp), list(arrays[fq].shape)])
            judge_srv_attrs(ctx, c, fq, var, v, 1)
    except Exception as e:
        ctx.oracle_fail("server", c, err_class(e), "round trip")
