"""C19 — server-side functions compute what they name and are transparent otherwise.
Proof: lean/Props/C19.lean (model lean/PydapModel/Ssf.lean).  Tie: (a) what the middleware does with a request
(pass-through / inner request with the calls stripped / error) observed through an instrumented inner application vs
`Ssf.route`; (b) decoded results of mean(...) requests (shape, dims, maps, values as exact sums over the common
denominator) vs `Ssf.meanArr/meanGrid` chains; (c) rows kept by bounds(...) vs `Ssf.bounds`; (d) the id string built by
the client's function proxy vs `Ssf.parseCall`.  Oracle (no model): ServerSideFunctions(BaseHandler(ds)) vs
BaseHandler(ds) byte for byte on function-free requests; mean vs exact integer sums / axis lengths computed from the
source; bounds vs a Python filter; client functions.mean(...) vs the raw request.  Round 6: (e) whole answers of
ServerSideFunctions(BaseHandler(ds)) for calls beside ordinary projection items vs `Ssf.ssfHandle` (`ssf-handle`), oracle: the
ordinary variables are the bare handler's answer to the request without the calls, the results follow in call order and are numpy
means; (f) the function tables of several applications of one process vs `Ssf.buildApps` (`ssf-tables`), oracle: stock + own
keywords by object identity."""
import itertools
from fractions import Fraction

import numpy as np

import common
import handler_gen as G
import props.c15 as c15
from common import hexb

LEVEL = "proof"


_DECOY = {"planted": False}


def load():
    from pydap.handlers.lib import BaseHandler
    from pydap.wsgi.ssf import ServerSideFunctions

    if not _DECOY["planted"]:
        # another application of the same process has its own functions under the stock names (the keyword
        # functions of ServerSideFunctions are per instance): they must stay that application's
        _DECOY["planted"] = True
        from pydap.model import BaseType, DatasetType

        def decoy(dataset, *args):
            out = DatasetType("decoy")
            out["decoy"] = BaseType("decoy", np.array([-12345.0]))
            return out

        ds0 = DatasetType("d0")
        ds0["a"] = BaseType("a", np.arange(4, dtype="i4"))
        other = ServerSideFunctions(BaseHandler(ds0), mean=decoy, bounds=decoy)
        _DECOY["answer"] = G.run_request(other, "/d0.dods", "mean(a,0)")["status"]
    return BaseHandler, ServerSideFunctions


class Spy(object):
    """inner application that records how it was called"""

    def __init__(self, app):
        self.app = app
        self.seen = []

    def __call__(self, environ, start_response):
        self.seen.append((environ, environ.get("QUERY_STRING", "")))
        return self.app(environ, start_response)


def observe_route(SSF, handler, path, q):
    from webob import Request
    spy = Spy(handler)
    app = SSF(spy)
    req = Request.blank(path + "?" + q)
    if req.path != path or req.query_string != q:
        return None
    try:
        res = req.get_response(app)
        res.body
    except Exception:
        pass
    if not spy.seen:
        return "error"
    env, qs = spy.seen[0]
    # webob hands the very same environ dict to the inner application in both branches; what differs is the query
    if qs == q:
        return "pass"
    return "function:" + hexb(qs.encode())


# ------------------------------------------------------------------------------------------------ (a)
def transparency(ctx, tier, rng):
    BaseHandler, SSF = load()
    cases = []
    n_ds = 60 if tier == "quick" else 500
    for _ in range(n_ds):
        spec = G.gen_dataset(rng)
        sx = G.ds_sexp(spec)
        ds = G.build(spec)
        bare, wrapped = BaseHandler(ds), SSF(BaseHandler(ds))
        arrays = [v["name"] for v in spec["vars"] if v["k"] == "b" and v["shape"]] or ["a"]
        for _ in range(8):
            q, _exp = G.gen_valid_ce(rng, spec)
            ext = rng.choice(["dds", "dods", "ascii", "das", "asc"])
            path = "/d." + ext
            a, b = G.run_request(bare, path, q), G.run_request(wrapped, path, q)
            same = all(a[k] == b[k] for k in ("exc", "status", "ctype", "cdesc", "body", "body_exc"))
            case = {"kind": "transparency", "dataset": sx, "path": path, "query": q}
            if not same or a["exc"] or a["status"] != 200:
                ctx.oracle_fail("function-free request answered differently with and without the middleware", case,
                                c15.canon_impl(b)[:200], c15.canon_impl(a)[:200], size=len(q))
            ctx.count(("tr", sx, path, q), bool(q), tag="transparent|%s|%s" % (ext, "same" if same else "DIFFERENT"),
                      sample={"path": path, "query": q})
            r = observe_route(SSF, bare, path, q)
            if r is not None:
                cases.append(("ssf-route %s %s" % (G.hx(path), G.hx(q)), r, case))
        # function-free clauses whose string constant contains parentheses (a literal is not a call)
        for v in spec["vars"]:
            if v["k"] != "sq":
                continue
            for cname, cty in v["cols"]:
                if cty != "U" or rng.random() < 0.5:
                    continue
                lit = rng.choice(["(a)", "f(1)", "a(b)c", "()", "mean(a,0)", "x)(y)"])
                q = '%s&%s.%s%s"%s"' % (v["name"], v["name"], cname, rng.choice(["=", "!=", "<", ">="]), lit)
                ext = rng.choice(["dds", "dods", "ascii"])
                path = "/d." + ext
                a, b = G.run_request(bare, path, q), G.run_request(wrapped, path, q)
                same = all(a[k] == b[k] for k in ("exc", "status", "ctype", "cdesc", "body", "body_exc"))
                case = {"kind": "transparency", "dataset": sx, "path": path, "query": q}
                if not same or a["exc"] or a["status"] != 200:
                    ctx.oracle_fail("function-free request answered differently with and without the middleware", case,
                                    c15.canon_impl(b)[:200], c15.canon_impl(a)[:200], size=len(q))
                ctx.count(("tr", sx, path, q), True, tag="transparent-paren-literal|%s|%s" % (ext, "same" if same else "DIFFERENT"),
                          sample={"path": path, "query": q})
                r = observe_route(SSF, bare, path, q)
                if r is not None:
                    cases.append(("ssf-route %s %s" % (G.hx(path), G.hx(q)), r, case))
        # requests with calls, das, unparsable CEs, paths without dot: only the routing is compared here
        a0 = rng.choice(arrays)
        extra = ["mean(%s,0)" % a0, "%s,mean(%s,0)" % (a0, a0), "mean(mean(g,0),0)", "s&bounds(0,1,0,1,0,1,00Z01JAN1970,00Z01JAN1970)",
                 "bounds(0,1,0,1,0,1,00Z01JAN1970,00Z01JAN1970)", "s&s.i>1&foo(s.i)>2&s.j<3", "s.i&foo(1)", "%s[x]" % a0, "%s[1:2:3:4]" % a0,
                 "dap4.ce=a", "s&s.i>(1", "s&s.i>1)", "a(", ")(", "s&)(=1", "mean(a", "(", "s&()", "s&x()=1&s.i>2", "%s&f(g(1),2)" % a0]
        for q in extra:
            for path in ("/d.dods", "/d.das", "/d", "/d.dds"):
                if rng.random() < 0.5:
                    r = observe_route(SSF, bare, path, q)
                    if r is not None:
                        cases.append(("ssf-route %s %s" % (G.hx(path), G.hx(q)), r, {"kind": "route", "path": path, "query": q}))
                        ctx.count(("rt", path, q), True, tag="route|" + r.split(":")[0])
    ctx.correspond("ServerSideFunctions routing (pass / stripped inner request / error)", cases)


# ------------------------------------------------------------------------------------------------ (b)
def mean_dataset(rng):
    from pydap.model import BaseType, DatasetType, GridType
    rank = rng.randint(1, 3)
    shape = [rng.randint(1, 4) for _ in range(rank)]
    dt = rng.choice(["i4", "i2", "f8", "f4", "u2", "u1"])
    lo = 0 if dt[0] == "u" else -50
    hi = 255 if dt == "u1" else 50          # Byte: the whole range, a sum of two values may exceed 255 (no wrap-around in the mean)
    data = np.array([rng.randint(lo, hi) for _ in range(int(np.prod(shape)))], dtype=dt).reshape(shape)
    dims = ["z", "y", "x"][-rank:]
    maps = [[rng.randint(-9, 9) + 10 * i for i in range(n)] for n in shape]
    ds = DatasetType("d")
    with_dims = rng.random() < 0.7
    a_dims = list(dims)
    if with_dims and rank >= 2 and rng.random() < 0.4:
        # a plain array may name two axes alike (legal in DAP2, e.g. a covariance cov[x][x])
        pairs = [(i, j) for i in range(rank) for j in range(i + 1, rank) if shape[i] == shape[j]]
        if pairs:
            i, j = rng.choice(pairs)
            a_dims[j] = a_dims[i]
    ds["a"] = BaseType("a", data, dims=tuple(a_dims)) if with_dims else BaseType("a", data)
    g = GridType("g")
    g["v"] = BaseType("v", data, dims=tuple(dims))
    for d, m in zip(dims, maps):
        g[d] = BaseType(d, np.array(m, dtype="i4"), dims=(d,))
    ds["g"] = g
    ds["w"] = BaseType("w", np.arange(3, dtype="i4"))
    return ds, {"dt": dt, "shape": shape, "dims": dims, "data": [int(x) for x in data.reshape(-1)], "maps": maps, "a_dims": a_dims if with_dims else []}


def mean_checks(ctx, tier, rng):
    BaseHandler, SSF = load()
    from pydap.client import open_url
    cases = []
    n = 250 if tier == "quick" else 2500
    for _ in range(n):
        ds, info = mean_dataset(rng)
        app = SSF(BaseHandler(ds))
        rank = len(info["shape"])
        depth = rng.randint(1, min(3, rank))
        axes, sent, r = [], [], rank
        for _ in range(depth):
            k = rng.randrange(r)
            axes.append(k)
            # round 7: numpy reads a negative axis from the last one (-1 = the last axis); the request spells 30 % of the axes so
            sent.append(k - r if rng.random() < 0.3 else k)
            r -= 1
        target = rng.choice(["a", "g", "g.v"])
        call = target
        for k in sent:
            call = "mean(%s,%d)" % (call, k) if not (k == 0 and rng.random() < 0.15) else "mean(%s)" % call
        # an ordinary projection beside the call, with and without a hyperslab of its own (it must be served as without
        # the call: the middleware hands the ordinary items to the handler)
        wsel, wvals = rng.choice([("w", [0, 1, 2]), ("w", [0, 1, 2]), ("w[1:2]", [1, 2]), ("w[0:2:2]", [0, 2]), ("w[2]", [2])])
        beside = rng.choice(["", wsel + ",", wsel + ","]) if target != "a" else rng.choice(["", wsel + ","])
        q = beside + call + rng.choice(["", "", "," + wsel] if not beside else [""])
        res = G.run_request(app, "/d.dods", q)
        case = {"kind": "mean", "info": info, "target": target, "axes": axes, "sent": sent, "query": q}
        # expectation from the source: exact integer sums, common denominator = product of the removed axis lengths
        src = np.array(info["data"], dtype="i8").reshape(info["shape"])
        shp, dims, den = list(info["shape"]), list(info["dims"] if target != "a" else info["a_dims"]), 1
        maps = list(zip(info["dims"], info["maps"]))
        for k in axes:
            src = src.sum(axis=k)
            den *= shp[k]
            del shp[k]
            if dims:
                del dims[k]
            del maps[k]
        want_sums = [int(x) for x in np.asarray(src).reshape(-1)]
        if res["exc"] or res["status"] != 200 or res["body_exc"]:
            ctx.oracle_fail("mean request failed", case, res["exc"] or res["body_exc"] or (res["body"] or b"")[-300:].decode("utf-8", "replace"),
                            "status 200", size=len(q) + sum(info["shape"]))
            continue
        head, _, payload = res["body"].partition(b"Data:\n")
        ddstext = head.decode("ascii")
        try:
            _, decl, _ = G.parse_dds(ddstext)
            vals = G.decode_dods_values(decl, payload)
        except Exception as e:      # the declaration and the data of the answer do not fit together
            ctx.oracle_fail("mean: the declaration of the result disagrees with the data sent", case,
                            "%s: %s | %s" % (type(e).__name__, e, ddstext[:200]), {"shape": shp, "dims": dims},
                            size=len(q) + sum(info["shape"]))
            continue
        # locate the function result in the declaration
        if target == "g":
            ent = [e for e in decl if e[0] == "g" and e[1] == "g"]
            ok_decl = bool(ent) and ent[0][2][0][1] in ("Float64", "Float32") and list(ent[0][2][0][2]) == shp \
                and [m[0] for m in ent[0][2][1:]] == ["g." + d for d, _ in maps] \
                and all(list(m[2]) == [len(mv)] for m, (_, mv) in zip(ent[0][2][1:], maps))
        else:
            nm = "a" if target == "a" else "v"
            ent = [e for e in decl if e[0] == "b" and e[1] == nm]
            ok_decl = bool(ent) and ent[0][2] in ("Float64", "Float32") and list(ent[0][3]) == shp
        got_dims = None
        import re
        m = re.search(r"Float(?:64|32) (?:a|v)((?:\[[^\]]*\])*);", ddstext)
        if m:
            got_dims = [x.split("=")[0].strip() for x in re.findall(r"\[([^\]]*)\]", m.group(1)) if "=" in x]
        if target == "a" and not info["a_dims"]:
            got_dims = []   # a rank-1 variable without dims is printed with its own name as dimension: not a dimension name
        if not ok_decl or (dims and got_dims != dims):
            ctx.oracle_fail("mean: shape / dimensions / maps are not the source's with the axis removed", case,
                            ddstext[:300], {"shape": shp, "dims": dims, "maps": [d for d, _ in maps]}, size=len(q) + sum(info["shape"]))
            continue
        # values: skip what stands before the result (w), then the result, then maps
        has_w = q.startswith(wsel + ",") or q.endswith("," + wsel)
        pre = len(wvals) if has_w else 0  # ordinary projections come first, function results are appended
        if has_w and [float(x) for x in vals[:pre]] != [float(x) for x in wvals]:
            ctx.oracle_fail("an ordinary projection beside a function call is not served as without the call", case,
                            vals[:pre + 2], wvals, size=len(q) + sum(info["shape"]))
            continue
        nres = int(np.prod(shp)) if shp else 1
        got = vals[pre:pre + nres]
        exact = [Fraction(s_, den) for s_ in want_sums]
        f32 = "Float32" in ddstext   # np.mean of a float32 array is a float32
        bad = [i for i, (g_, e_) in enumerate(zip(got, exact))
               if (depth == 1 and not f32 and float(g_) != s_div(e_))
               or abs(Fraction(float(g_)) - e_) > Fraction(1, 10 ** (5 if f32 else 9)) * max(1, abs(e_))]
        if len(got) != len(exact) or bad:
            ctx.oracle_fail("mean: values are not the arithmetic mean of the source along the axis", case, got[:20],
                            [float(e_) for e_ in exact][:20], size=len(q) + sum(info["shape"]))
            continue
        if target == "g":
            got_maps = vals[pre + nres:pre + nres + sum(len(mv) for _, mv in maps)]
            if [float(x) for x in got_maps] != [float(x) for _, mv in maps for x in mv]:
                ctx.oracle_fail("mean on a grid: the remaining maps do not carry the source maps' values", case, got_maps[:20],
                                [x for _, mv in maps for x in mv][:20], size=len(q) + sum(info["shape"]))
                continue
        ctx.count(("mean", repr(info), q), True, tag="mean|%s|rank%d|depth%d%s%s" % (target, rank, depth, "|negative-axis" if any(k < 0 for k in sent) else "", ("|beside-sliced" if "[" in wsel else "|beside") if has_w else ""),
                  sample={"query": q, "shape": info["shape"]})
        # correspondence with the model: sums over the common denominator
        sums = [int(round(Fraction(float(g_)) * den)) for g_ in got]
        mdims = info["dims"] if target != "a" else info["a_dims"]
        if target == "g":
            line = "ssf-meangrid (%s) (%s) (%s) (%s) (%s)" % (
                " ".join(map(str, info["shape"])), " ".join(G.hx(d) for d in info["dims"]), " ".join(map(str, info["data"])),
                " ".join("(%s (%s))" % (G.hx(d), " ".join(map(str, mv))) for d, mv in zip(info["dims"], info["maps"])),
                " ".join(map(str, sent)))
            impl = "(((%s) (%s) (%s) %d) (%s))" % (" ".join(map(str, ent[0][2][0][2])), " ".join(G.hx(d) for d in (got_dims or [])),
                                                   " ".join(map(str, sums)), den,
                                                   " ".join("(%s (%s))" % (G.hx(mm[0].split(".")[1]), " ".join(str(int(x)) for x in mv_))
                                                            for mm, mv_ in zip(ent[0][2][1:], split_maps(got_maps, ent[0][2][1:]))))
        else:
            line = "ssf-mean (%s) (%s) (%s) (%s)" % (" ".join(map(str, info["shape"])), " ".join(G.hx(d) for d in mdims),
                                                     " ".join(map(str, info["data"])), " ".join(map(str, sent)))
            impl = "((%s) (%s) (%s) %d)" % (" ".join(map(str, ent[0][3])), " ".join(G.hx(d) for d in (got_dims or [])),
                                            " ".join(map(str, sums)), den)
        cases.append((line, impl, case))
        if target != "g":
            # round 7: the call TEXT through the model's eval_function (parseCall + evalMean), not the list of axes
            cases.append(("ssf-meaneval %s %s (%s) (%s) (%s)" % (G.hx(call), G.hx(target), " ".join(map(str, info["shape"])),
                                                                " ".join(G.hx(d) for d in mdims), " ".join(map(str, info["data"]))),
                          impl, case))
        # (d) the same call through the client's function proxy
        if rng.random() < (0.5 if tier == "quick" else 0.3) and target in ("a", "g"):
            try:
                c = open_url("http://localhost/d", application=app)
                obj = c[target]
                res_ = obj
                tree = ["tok", target]
                for k in axes:
                    res_ = c.functions.mean(res_, k)
                    tree = ["call", "mean", [tree, ["tok", str(k)]]]
                leaf_ = res_["a"] if target == "a" else res_["g"]["v"]
                cvals = [float(x) for x in np.asarray(leaf_.data).reshape(-1)]
                raw = G.run_request(app, "/d.dods", res_.id)
                h2, _, p2 = raw["body"].partition(b"Data:\n")
                _, d2, _ = G.parse_dds(h2.decode("ascii"))
                rvals = [float(x) for x in G.decode_dods_values(d2, p2)][:len(cvals)]
                if cvals != rvals:
                    ctx.oracle_fail("client function proxy returns other values than the raw request", dict(case, kind="proxy", id=res_.id),
                                    cvals[:20], rvals[:20], size=len(q) + sum(info["shape"]))
                cases.append(("ssf-parsecall %s" % G.hx(res_.id), tree_sexp(tree), {"kind": "proxy-id", "id": res_.id}))
                ctx.count(("proxy", res_.id, repr(info["shape"])), True, tag="proxy|depth%d" % depth)
            except Exception as e:
                ctx.oracle_fail("client function proxy raised %s" % type(e).__name__, dict(case, kind="proxy"), repr(e)[:200], "values",
                                size=len(q) + sum(info["shape"]))
    ctx.correspond("mean (shape, dims, maps, sums, denominator) and proxy id strings", cases)


def s_div(fr):
    return fr.numerator / fr.denominator


def split_maps(vals, ents):
    out, pos = [], 0
    for e in ents:
        n = int(np.prod(e[2])) if e[2] else 1
        out.append(vals[pos:pos + n])
        pos += n
    return out


def tree_sexp(t):
    if t[0] == "tok":
        return G.hx(t[1])
    return "(call %s %s)" % (G.hx(t[1]), " ".join(tree_sexp(x) for x in t[2]))


# ------------------------------------------------------------------------------------------------ (c)
def bounds_checks(ctx, tier, rng):
    BaseHandler, SSF = load()
    from pydap.model import BaseType, DatasetType, SequenceType
    cases = []
    n = 300 if tier == "quick" else 3000
    for _ in range(n):
        ncols = rng.randint(1, 5)
        axes = [rng.choice(["x", "y", "z", "-", "-"]) for _ in range(ncols)]
        if rng.random() < 0.7:  # usually one column per axis
            seen = set()
            axes = [a if a == "-" or (a not in seen and not seen.add(a)) else "-" for a in axes]
        names = ["c%d" % i for i in range(ncols)]
        rows = [[rng.randint(-4, 6) for _ in range(ncols)] for _ in range(rng.randint(1, 9))]
        ds = DatasetType("d")
        s = SequenceType("s")
        for nm, ax in zip(names, axes):
            s[nm] = BaseType(nm, axis=rng.choice([ax.upper(), ax])) if ax != "-" else (BaseType(nm, units="m") if rng.random() < 0.5 else BaseType(nm))
        s.data = np.array([tuple(r) for r in rows], dtype=[(nm, "i4") for nm in names]).view(np.recarray)
        ds["s"] = s
        iv = []
        for _ in range(3):
            lo = rng.randint(-5, 6)
            hi = lo if rng.random() < 0.3 else rng.randint(lo, 7)
            iv += [lo, hi]
        args = ",".join(map(str, iv)) + ",00Z01JAN1970,00Z01JAN1970"
        pos = rng.choice(["selection", "projection", "selection+cols"])
        cols_req = list(range(ncols))
        extra = None
        if pos == "selection":
            q = "s&bounds(%s)" % args
            if rng.random() < 0.4:   # an ordinary clause beside the call must still be applied (it travels in the inner request)
                extra = (rng.randrange(ncols), rng.randint(-3, 5))
                q = rng.choice(["s&s.%s>=%d&bounds(%s)", "s&bounds(%%s)&s.%s>=%d"]) if False else q
                q = "s&s.%s>=%d&bounds(%s)" % (names[extra[0]], extra[1], args) if rng.random() < 0.5 else \
                    "s&bounds(%s)&s.%s>=%d" % (args, names[extra[0]], extra[1])
        elif pos == "projection":
            q = "bounds(%s)" % args
        else:
            cols_req = sorted(rng.sample(range(ncols), rng.randint(1, ncols)))
            q = ",".join("s.%s" % names[i] for i in cols_req) + "&bounds(%s)" % args
        app = SSF(BaseHandler(ds))
        res = G.run_request(app, "/d.dods", q)
        case = {"kind": "bounds", "axes": axes, "rows": rows, "intervals": iv, "query": q, "cols": cols_req}
        lohi = {"x": (iv[0], iv[1]), "y": (iv[2], iv[3]), "z": (iv[4], iv[5])}
        want = [r for r in rows if all(a == "-" or lohi[a][0] <= r[i] <= lohi[a][1] for i, a in enumerate(axes))]
        if extra:
            want = [r for r in want if r[extra[0]] >= extra[1]]
            case["extra"] = list(extra)
        if res["exc"] or res["status"] != 200 or res["body_exc"]:
            ctx.oracle_fail("bounds request failed", case, res["exc"] or res["body_exc"] or (res["body"] or b"")[-300:].decode("utf-8", "replace"),
                            "status 200", size=len(rows) * ncols)
            continue
        head, _, payload = res["body"].partition(b"Data:\n")
        try:
            _, decl, _ = G.parse_dds(head.decode("ascii"))
            vals = [int(v) for v in G.decode_dods_values(decl, payload)]
        except Exception as e:      # an answer that is not the declared sequence at all
            ctx.oracle_fail("bounds answer does not decode as the requested columns", case,
                            "%s: %s" % (type(e).__name__, head[:120].decode("ascii", "replace")), "a sequence of the requested columns",
                            size=len(rows) * ncols)
            continue
        k = len(cols_req)
        got = [vals[i:i + k] for i in range(0, len(vals), k)]
        if got != [[r[i] for i in cols_req] for r in want]:
            ctx.oracle_fail("bounds does not keep exactly the records inside the closed intervals (in order)", case, got[:12],
                            [[r[i] for i in cols_req] for r in want][:12], size=len(rows) * ncols)
            continue
        degenerate = any(iv[2 * j] == iv[2 * j + 1] for j in range(3))
        ctx.count(("bounds", repr(axes), repr(rows), repr(iv), pos), True,
                  tag="bounds|%s|%s|kept%s" % (pos, "degenerate" if degenerate else "interval", "0" if not want else "all" if len(want) == len(rows) else "some"),
                  sample={"query": q, "axes": axes})
        if pos != "selection+cols" and not extra:
            cases.append(("ssf-bounds (%s) (%s) (%s)" % (" ".join(axes), " ".join(map(str, iv)), " ".join("(%s)" % " ".join(map(str, r)) for r in rows)),
                          "(%s)" % " ".join("(%s)" % " ".join(map(str, r)) for r in got), case))
    ctx.correspond("bounds (rows kept, order)", cases)



# ------------------------------------------------------------------------------------------------ (d)
class RawTok(object):
    """what the instrumented `ast.literal_eval` hands back: the raw token text"""

    def __init__(self, text):
        self.text = text


class Nothing(object):
    """a dataset without anything (a real empty DatasetType still answers `ds[""]` with itself)"""

    def __getitem__(self, key):
        raise KeyError(key)


class Spies(dict):
    """`functions[name]` for any name: the function answers with the call tree it was given"""

    def __missing__(self, name):
        return lambda dataset, *args: ("call", name, list(args))


def server_tree(ds, id_, raw=False):
    """the call tree `eval_function` evaluates for an id string.  raw=False: on the real dataset, leaves are what the
    server function receives.  raw=True: on an empty dataset with `ast.literal_eval` (as seen by wsgi/ssf.py) replaced by
    a recorder, so that every leaf is the raw token text (every dataset lookup fails first: `Nothing`)."""
    import pydap.wsgi.ssf as ssf
    from pydap.model import DatasetType
    if not ssf.FUNCTION.match(id_):
        return RawTok(id_) if raw else id_
    if not raw:
        return ssf.eval_function(ds, id_, Spies())
    real_ast = ssf.ast

    class FakeAst(object):
        @staticmethod
        def literal_eval(tok):
            return RawTok(tok)

    ssf.ast = FakeAst
    try:
        return ssf.eval_function(Nothing(), id_, Spies())
    finally:
        ssf.ast = real_ast


def raw_sexp(t):
    if isinstance(t, RawTok):
        return G.hx(t.text) if all(ord(c) < 128 for c in t.text) else None
    return "(call %s %s)" % (G.hx(t[1]), " ".join(raw_sexp(x) for x in t[2])) if t[2] else "(call %s)" % G.hx(t[1])


PLAIN = "abcxyzABZ019_ .-+:/=<>[]"


def gen_leaf(rng, client, in_guard=True):
    k = rng.choice(["var", "var", "int", "float", "str", "npint", "npfloat", "bigfloat"] + ([] if in_guard else ["exotic"] * 8))
    if k == "var":
        vid = rng.choice(["a", "g", "g.v", "g.x", "s", "s.c0", "s.c1", "w"])
        obj = client
        for part in vid.split("."):
            obj = obj[part]
        return ("var", vid), obj
    if k == "int":
        n = rng.choice([0, 1, -1, rng.randint(-99999, 99999)])
        return ("num", float("%.6g" % n)), n
    if k == "npint":
        n = rng.randint(-300, 300)
        return ("num", float(n)), rng.choice([np.int32, np.int16, np.int64])(n)
    if k == "float":
        x = rng.choice([0.5, -2.25, rng.uniform(-100, 100), rng.randint(-50, 50) / 8.0])
        return ("num", float("%.6g" % x)), x
    if k == "npfloat":
        x = rng.randint(-500, 500) / 16.0
        return ("num", float("%.6g" % x)), rng.choice([np.float32, np.float64])(x)
    if k == "bigfloat":
        x = rng.choice([1e6, 1.5e10, 1e-5, -3.25e-7, 123456789.0, 2.0 ** 40])
        return ("num", float("%.6g" % x)), x
    if k == "str":
        t = "".join(rng.choice(PLAIN) for _ in range(rng.randint(0, 6)))
        return ("str", t), t
    t = "".join(rng.choice('ab,()"\\ ') for _ in range(rng.randint(1, 5)))
    return ("str", t), t


def gen_call(rng, client, depth, in_guard=True):
    """-> (sent tree, proxy result)"""
    name = rng.choice(["f", "g2", "mean", "h_1", "Fn", "bounds", "x.y"])
    arity = rng.choice([0, 1, 1, 1, 2, 2, 3, 4])
    sent, args = [], []
    for _ in range(arity):
        if depth > 1 and rng.random() < 0.45:
            t, o = gen_call(rng, client, depth - 1, in_guard)
        else:
            t, o = gen_leaf(rng, client, in_guard)
        sent.append(t)
        args.append(o)
    return ("call", name, sent), getattr(client.functions, name)(*args)


def same_tree(ds, sent, got):
    if sent[0] == "call":
        return isinstance(got, tuple) and got[0] == "call" and got[1] == sent[1] and len(got[2]) == len(sent[2]) \
            and all(same_tree(ds, a, b) for a, b in zip(sent[2], got[2]))
    if sent[0] == "var":
        obj = ds
        for part in sent[1].split("."):
            obj = obj[part]
        return got is obj
    if sent[0] == "num":
        return isinstance(got, (int, float)) and not isinstance(got, bool) and float(got) == sent[1]
    return isinstance(got, str) and got == sent[1]


def show_tree(t):
    from pydap.model import DapType
    if isinstance(t, tuple) and t and t[0] == "call":
        return ["call", t[1], [show_tree(x) for x in t[2]]]
    if isinstance(t, DapType):
        return "<%s %s>" % (type(t).__name__, t.id)
    return repr(t)


def tree_is_plain(sent):
    if sent[0] == "call":
        return not (set(sent[1]) & set("(),")) and all(tree_is_plain(x) for x in sent[2])
    return sent[0] != "str" or not (set(sent[1]) & set('(),"\\'))


def proxy_dataset(rng):
    from pydap.model import BaseType, DatasetType, GridType, SequenceType
    ds = DatasetType("d")
    shape = [rng.randint(1, 3), rng.randint(1, 3)]
    data = np.arange(shape[0] * shape[1], dtype="i4").reshape(shape)
    ds["a"] = BaseType("a", data, dims=("y", "x"))
    g = GridType("g")
    g["v"] = BaseType("v", data, dims=("y", "x"))
    g["y"] = BaseType("y", np.arange(shape[0], dtype="i4"), dims=("y",))
    g["x"] = BaseType("x", np.arange(shape[1], dtype="i4"), dims=("x",))
    ds["g"] = g
    s = SequenceType("s")
    s["c0"] = BaseType("c0")
    s["c1"] = BaseType("c1")
    s.data = np.array([(1, 2), (3, 4)], dtype=[("c0", "i4"), ("c1", "i4")]).view(np.recarray)
    ds["s"] = s
    ds["w"] = BaseType("w", np.arange(3, dtype="i4"))
    return ds


def proxy_tree_checks(ctx, tier, rng):
    """the id string of the client's function proxy, evaluated by the server: same call tree, same arguments"""
    BaseHandler, SSF = load()
    from pydap.client import open_url
    cases = []
    n = 400 if tier == "quick" else 6000
    ds = proxy_dataset(rng)
    client = open_url("http://localhost/d", application=SSF(BaseHandler(ds)))
    for i in range(n):
        in_guard = rng.random() < 0.85
        sent, res = gen_call(rng, client, rng.randint(1, 4), in_guard)
        id_ = res.id
        case = {"kind": "proxy-tree", "id": id_, "sent": sent}
        plain = tree_is_plain(sent)
        try:
            got = server_tree(ds, id_)
            ok = same_tree(ds, sent, got)
            shown = show_tree(got)
        except Exception as e:
            ok, shown = False, "%s: %s" % (type(e).__name__, str(e)[:100])
        if not ok and plain:
            ctx.oracle_fail("the server evaluates another call tree / other arguments than the client's function proxy was given",
                            case, shown, sent, size=len(id_))
        depth = tree_depth(sent)
        ctx.count(("ptree", id_), True, tag="proxy-tree|%s|depth%d|%s" % (
            "plain" if plain else "string-with-()-,-quote", depth, "same" if ok else "DIFFERENT"), sample={"id": id_})
        try:
            rs = raw_sexp(server_tree(ds, id_, raw=True))
        except Exception as e:
            rs = "(err %s)" % type(e).__name__
        if rs is not None:
            cases.append(("ssf-parsecall %s" % G.hx(id_), rs, case))
    # the tokeniser / FUNCTION regexp on arbitrary text (no proxy): character level
    for i in range(n):
        id_ = "".join(rng.choice('fg1(),(),." ') for _ in range(rng.randint(1, 14)))
        try:
            rs = raw_sexp(server_tree(ds, id_, raw=True))
        except Exception as e:
            rs = "(err %s)" % type(e).__name__
        cases.append(("ssf-parsecall %s" % G.hx(id_), rs, {"kind": "parse-text", "id": id_}))
        ctx.count(("ptext", id_), True, tag="parse-text|%s" % ("call" if rs.startswith("(call") else "token"))
    ctx.correspond("eval_function's call tree (raw tokens) of proxy id strings and of arbitrary text", cases)


def tuplify(t):
    return ("call", t[1], [tuplify(x) for x in t[2]]) if t[0] == "call" else (t[0], t[1])


def mean_ds_from_info(info):
    from pydap.model import BaseType, DatasetType, GridType
    data = np.array(info["data"], dtype=info.get("dt", "i4")).reshape(info["shape"])
    ds = DatasetType("d")
    ds["a"] = BaseType("a", data, dims=tuple(info["a_dims"])) if info["a_dims"] else BaseType("a", data)
    g = GridType("g")
    g["v"] = BaseType("v", data, dims=tuple(info["dims"]))
    for d, m in zip(info["dims"], info["maps"]):
        g[d] = BaseType(d, np.array(m, dtype="i4"), dims=(d,))
    ds["g"] = g
    ds["w"] = BaseType("w", np.arange(3, dtype="i4"))
    return ds


def tree_depth(t):
    return 0 if t[0] != "call" else 1 + max([tree_depth(x) for x in t[2]] or [0])


def session_checks(ctx, tier, rng):
    """the function proxy over a requests session (an adapter dispatching to the WSGI application) vs the raw request"""
    BaseHandler, SSF = load()
    from pydap.client import open_url
    import xdrlib as X
    n = 25 if tier == "quick" else 250
    for _ in range(n):
        ds, info = mean_dataset(rng)
        app = SSF(BaseHandler(ds))
        rank = len(info["shape"])
        axes, r = [], rank
        for _ in range(rng.randint(1, min(3, rank))):
            axes.append(rng.randrange(r))
            r -= 1
        target = rng.choice(["a", "g"])
        gz = rng.random() < 0.3
        # what the process did before (the last two proxy sessions): a replay repeats it first, so that state kept across
        # datasets in one process (a memo keyed by function name, ...) is there again
        case = {"kind": "proxy-session", "info": info, "target": target, "axes": axes, "gzip": gz, "query": "",
                "before": list(session_checks.history[-2:])}
        session_checks.history.append({"info": info, "target": target, "axes": axes, "gzip": gz})
        try:
            c = open_url("http://localhost/d", session=X.wsgi_session(app, gz=gz))
            res_ = c[target]
            for k in axes:
                res_ = c.functions.mean(res_, k)
            case["query"] = res_.id
            leaf_ = res_["a"] if target == "a" else res_["g"]["v"]
            cvals = [float(x) for x in np.asarray(leaf_.data).reshape(-1)]
            raw = G.run_request(app, "/d.dods", res_.id)
            h2, _, p2 = raw["body"].partition(b"Data:\n")
            _, d2, _ = G.parse_dds(h2.decode("ascii"))
            rvals = [float(x) for x in G.decode_dods_values(d2, p2)][:len(cvals)]
            if cvals != rvals or not cvals:
                ctx.oracle_fail("function proxy over a requests session returns other values than the raw request", case,
                                cvals[:20], rvals[:20], size=sum(info["shape"]))
        except Exception as e:
            ctx.oracle_fail("function proxy over a requests session raised %s" % type(e).__name__, case, repr(e)[:200],
                            "the values of the raw request", size=sum(info["shape"]))
        ctx.count(("psess", repr(info), repr(axes), target, gz), True, tag="proxy-session|%s|depth%d%s" % (target, len(axes), "|gzip" if gz else ""))


session_checks.history = []


# ------------------------------------------------------------------------------------------------ (e) round 6
# the function branch past the routing: calls beside ordinary projection items
MEAN_DT = ("i4", "u4", "f8", "f4")


def mean_targets(spec, scale=True):
    """[(id, shape, base)] of the arrays a `mean` can be asked of; with `scale` their values are multiplied by the
    number of their elements, so that every (nested) mean is an integer (the model's values are integers)"""
    out = []

    def visit(path, b):
        if b["dt"] in MEAN_DT and b["shape"] and all(b["shape"]):
            if scale:
                n = int(np.prod(b["shape"]))
                b["data"] = [x * n for x in b["data"]]
            out.append((".".join(path + [b["name"]]), list(b["shape"]), b))

    for v in spec["vars"]:
        if v["k"] == "b":
            visit([], v)
        elif v["k"] == "st":
            for m in v["members"]:
                if m["k"] == "st":
                    for b in m["members"]:
                        visit([v["name"], m["name"]], b)
                else:
                    visit([v["name"]], m)
        elif v["k"] == "g":
            n0 = len(out)
            visit([v["name"]], v["array"])
            if len(out) > n0:
                out.append((v["name"], list(v["array"]["shape"]), v))      # the grid itself
    return out


def gen_fcall(rng, targets):
    """one call: {"text", "id", "axes", "valid"}"""
    r = rng.random()
    if not targets or r < 0.03:
        return {"text": rng.choice(["mean(zz,0)", "nofun(1)", "mean()", "mean(1,0)"]), "id": None, "axes": [], "valid": False}
    tid, shape, _ = rng.choice(targets)
    rank = len(shape)
    axes, text, left, valid = [], tid, rank, True
    for _ in range(rng.randint(1, min(rank, 3))):
        k = rng.randrange(left)
        if rng.random() < 0.025:
            k, valid = left, False          # no such axis
        axes.append(k)
        text = "mean(%s)" % text if (k == 0 and rng.random() < 0.15) else "mean(%s,%d)" % (text, k)
        left -= 1
        if not valid:
            break
    return {"text": text, "id": tid, "axes": axes, "valid": valid}


def split_query(q):
    """(projection items, selection text) of a generated function-free constraint"""
    first, _, rest = q.partition("&")
    if any(c in first for c in "<>="):
        return [], q
    items, cur, depth = [], "", 0
    for ch in first:
        if ch == "," and depth == 0:
            items.append(cur)
            cur = ""
            continue
        depth += ch == "("
        depth -= ch == ")"
        cur += ch
    if cur:
        items.append(cur)
    return items, rest


def join_query(items, sel):
    return ",".join(items) + ("&" + sel if sel else "")


class NotIntegral(Exception):
    pass


def result_sexp(var):
    """a variable returned by a server-side function, in the model's notation"""
    from pydap.lib import NUMPY_TO_DAP2_TYPEMAP
    from pydap.model import BaseType, GridType

    def base(b):
        data = np.asarray(b.data)
        vals = []
        for x in data.reshape(-1):
            if not float(x).is_integer():
                raise NotIntegral()
            vals.append(str(int(x)))
        return "(b %s %s (%s) (%s) (%s))" % (G.hx(b.name), G.hx(NUMPY_TO_DAP2_TYPEMAP[data.dtype.char]), " ".join(map(str, data.shape)),
                                             " ".join(G.hx(d) for d in b.dims), " ".join(vals))
    if isinstance(var, GridType):
        return "(g %s %s (%s))" % (G.hx(var.name), base(var.array), " ".join(base(m) for m in var.maps.values()))
    if isinstance(var, BaseType):
        return base(var)
    raise NotIntegral()


class EvalRecorder(object):
    """spy on wsgi/ssf.py `eval_function`: the top-level calls the middleware evaluates and what they return"""

    def __enter__(self):
        import pydap.wsgi.ssf as ssf
        self.ssf, self.real, self.depth, self.seen = ssf, ssf.eval_function, 0, []

        def spy(dataset, function, functions):
            self.depth += 1
            try:
                out = self.real(dataset, function, functions)
            except Exception as e:
                self.depth -= 1
                if self.depth == 0:
                    self.seen.append((function, None, type(e).__name__))
                raise
            self.depth -= 1
            if self.depth == 0:
                try:
                    self.seen.append((function, result_sexp(out), None))
                except NotIntegral:
                    self.seen.append((function, None, "not-integral"))
            return out
        ssf.eval_function = spy
        return self

    def __exit__(self, *a):
        self.ssf.eval_function = self.real


def source_mean(spec, call):
    """numpy on the generated source: (name, kind, shape, values of the array, [(map name, values)])"""
    tid, axes = call["id"], call["axes"]
    by = {t[0]: t for t in mean_targets(spec, scale=False)}
    _, shape, obj = by[tid]
    b = obj["array"] if obj["k"] == "g" else obj
    arr = np.array(b["data"], dtype="f8").reshape(b["shape"])
    maps = [(m["name"], [float(x) for x in m["data"]]) for m in obj["maps"]] if obj["k"] == "g" else []
    for k in axes:
        arr = arr.mean(axis=k)
        if maps:
            del maps[k]
    return tid.split(".")[-1], obj["k"], list(np.shape(arr)), [float(x) for x in np.asarray(arr).reshape(-1)], maps


def top_names(decl):
    return [e[1] for e in decl]


def entry_leaves(e):
    return G.decl_leaves([e])


def split_values(decl, vals):
    """values per top-level entry (sequences: all their values)"""
    out, pos = [], 0
    for i, e in enumerate(decl):
        if e[0] == "sq":
            return None         # the number of records is not in the declaration: callers compare whole prefixes
        n = sum(int(np.prod(l[2])) if l[2] else 1 for l in entry_leaves(e))
        out.append(vals[pos:pos + n])
        pos += n
    return out


def decode_answer(res):
    head, _, payload = res["body"].partition(b"Data:\n")
    _, decl, _ = G.parse_dds(head.decode("ascii"))
    return decl, G.decode_dods_values(decl, payload)


def judge_beside(BaseHandler, SSF, spec, items, calls, sel, order):
    """the oracle, without the model.  `order`: the projection as a list of ("o", i) / ("c", j).
    -> (verdict tag, None) or (tag, (what, observed, expected))"""
    ds = G.build(spec)
    q = join_query([items[i] if k == "o" else calls[i]["text"] for k, i in order], sel)
    r = G.run_request(SSF(BaseHandler(ds)), "/d.dods", q)
    if r["exc"]:
        return "escaped", ("an exception leaves the middleware", r["exc"], "an answer")
    any_invalid = any(not c["valid"] for c in calls)
    # the handler's own answer to the request without the calls (without ordinary items: to the selection alone, which
    # is the inner request of the middleware)
    bare = G.run_request(BaseHandler(G.build(spec)), "/d.dods", join_query(items, sel) if items else sel) if (items or sel) else None
    bare_ok = bare is None or (bare["status"] == 200 and not bare["body_exc"])
    if any_invalid or not bare_ok:
        if r["status"] == 200:
            return "should-fail", ("a request with a failing call / a failing ordinary item is answered 200", q,
                                   "error document (the handler answers the request without the calls with %s)" % (bare["status"] if bare else "-"))
        return "error-both" if not bare_ok else "error-call", None
    if r["status"] != 200 or r["body_exc"]:
        return "should-answer", ("valid ordinary items beside valid calls are not answered", (r["body"] or b"")[-200:].decode("utf-8", "replace"),
                                 "200 (the handler answers the request without the calls)")
    try:
        decl, vals = decode_answer(r)
    except Exception as e:
        return "undecodable", ("the answer does not decode", "%s: %s" % (type(e).__name__, e), "a data response")
    bdecl, bvals = decode_answer(bare) if items else ([], [])
    names = top_names(bdecl)
    # a result that has the name of a constructor already in the answer is merged into it: outside the oracle
    taken = list(names)
    for c in [calls[i] for k, i in order if k == "c"]:
        nm, kind, _, _, _ = source_mean(spec, c)
        if kind == "g" and c["id"].count(".") == 0 and nm in taken:      # taken by an ordinary variable or an earlier result
            return "merge", None
        taken.append(nm)
    if decl[:len(bdecl)] != bdecl or vals[:len(bvals)] != bvals:
        return "ordinary-differ", ("the ordinary variables beside the calls are not what the handler serves without the calls",
                                   [decl[:len(bdecl)], vals[:12]], [bdecl, bvals[:12]])
    want = []
    for c in [calls[i] for k, i in order if k == "c"]:
        nm, kind, shp, arr, maps = source_mean(spec, c)
        if nm in names:
            continue            # its name is taken: not in the answer
        names.append(nm)
        want.append((nm, kind if c["id"].count(".") == 0 or kind == "b" else "b", shp, arr, maps))
    tail, tvals = decl[len(bdecl):], vals[len(bvals):]
    got_names = top_names(tail)
    if got_names != [w[0] for w in want]:
        return "result-order", ("the results are not appended in the order of the calls", got_names, [w[0] for w in want])
    pos = 0
    for e, (nm, kind, shp, arr, maps) in zip(tail, want):
        leaves = entry_leaves(e)
        n = sum(int(np.prod(l[2])) if l[2] else 1 for l in leaves)
        got = [float(x) for x in tvals[pos:pos + n]]
        pos += n
        exp = arr + [x for _, mv in maps for x in mv]
        shapes = [list(l[2]) for l in leaves]
        exp_shapes = [shp] + [[len(mv)] for _, mv in maps]
        if shapes != exp_shapes or len(got) != len(exp) or any(abs(a - b) > 1e-9 * max(1.0, abs(b)) for a, b in zip(got, exp)):
            return "result-value", ("a result beside ordinary items is not the mean of the source", [shapes, got[:12]], [exp_shapes, exp[:12]])
    return "ok", None


def handle_checks(ctx, tier, rng):
    BaseHandler, SSF = load()
    cases = []
    n = ctx.budget(130, 1500)
    for _ in range(n):
        spec = G.gen_dataset(rng, strings=rng.random() < 0.7)
        targets = mean_targets(spec)
        sx = G.ds_sexp(spec)
        q0, _exp = G.gen_valid_ce(rng, spec)
        fault = None
        if rng.random() < 0.15:
            fault = rng.choice(["unknown-var", "over-long", "inverted", "out-of-range", "too-many-index", "nested-path", "negative",
                                "non-numeric", "repeated-item"])
            q0 = G.inject_fault(rng, spec, q0, fault)
            if any(ord(ch) > 126 or ord(ch) < 33 or ch in "#()" for ch in q0):
                continue
        items, sel = split_query(q0)
        if rng.random() < 0.25:
            items = items[:1]
        calls = [gen_fcall(rng, targets) for _ in range(rng.choice([1, 1, 1, 2, 2, 3]))]
        if targets and rng.random() < 0.2:
            # a call on the very variable an ordinary item slices (functions see the source, not the slice)
            for it in items:
                hit = [t for t in targets if it.split("[")[0] == t[0]]
                if hit:
                    calls[0] = gen_fcall(rng, hit)
                    break
        order = [("o", i) for i in range(len(items))]
        for j in range(len(calls)):
            order.insert(rng.randint(0, len(order)), ("c", j))
        q = join_query([items[i] if k == "o" else calls[i]["text"] for k, i in order], sel)
        case = {"kind": "beside", "dataset": sx, "items": items, "calls": calls, "sel": sel, "order": [list(o) for o in order], "query": q}
        tag, fail = judge_beside(BaseHandler, SSF, spec, items, calls, sel, order)
        if fail:
            ctx.oracle_fail(fail[0], case, fail[1], fail[2], size=len(q))
        where = "only" if not items else "+".join(sorted({"first" if order[0][0] == "c" else "", "last" if order[-1][0] == "c" else "",
                                                         "middle" if any(k == "c" for k, _ in order[1:-1]) else ""} - {""}))
        ctx.count(("beside", sx, q), True, tag="beside|calls%d|%s|%s%s%s|%s" % (
            len(calls), where, "sel" if sel else "nosel", "|hyperslab" if "[" in ",".join(items) else "", "|fault:" + fault if fault else "", tag),
            sample={"query": q, "verdict": tag})
        ds = G.build(spec)
        for ext in rng.sample(["dds", "dods", "ascii"], 2):
            with EvalRecorder() as rec:
                res = G.run_request(SSF(BaseHandler(ds)), "/d." + ext, q)
            if any(err == "not-integral" for _, _, err in rec.seen):
                ctx.tags["beside-model:skipped (a result is not integer-valued)"] += 1
                continue
            results = " ".join("(%s %s)" % (G.hx(t), sx_) for t, sx_, err in rec.seen if sx_ is not None)
            cases.append(("ssf-handle %s %s %s (%s)" % (sx, G.hx("/d." + ext), G.hx(q), results), c15.canon_impl(res), dict(case, ext=ext)))
    outs = common.run_driver([c[0] for c in cases])
    adj = []
    for (line, impl, meta), mod in zip(cases, outs):
        if mod == "answered" and not impl.startswith("escaped") and not impl.startswith("status"):
            ctx.tags["beside-model:unresolved"] += 1
            impl = "answered"
        else:
            ctx.tags["beside-model:resolved|" + impl.split(":")[0]] += 1
        adj.append((line, impl, meta))
    ctx.correspond("ServerSideFunctions.handle past the routing: whole answer for calls beside ordinary items", adj)


# ------------------------------------------------------------------------------------------------ (f) round 6
# per-application function tables
TABLE_NAMES = ["mean", "bounds", "f", "g"]


def make_decoy(fid):
    """a keyword function: answers every call with the one-element variable `decoy` = its own id"""
    from pydap.model import BaseType

    def fn(dataset, *args, _fid=fid):
        return BaseType("decoy", np.array([float(_fid)]))
    return fn


def table_checks(ctx, tier, rng):
    BaseHandler, SSF = load()
    import pydap.wsgi.ssf as ssf
    from pydap.model import BaseType, DatasetType
    cases = []
    n = ctx.budget(120, 1200)
    for h in range(n):
        stock_before = ssf.load_functions()
        stock_names = list(stock_before.keys())
        ids = {id(f): i for i, f in enumerate(stock_before.values())}
        keep = list(stock_before.values())
        kws, apps, next_id = [], [], 100
        src = [rng.randint(-20, 20) for _ in range(rng.randint(1, 5))]
        for _ in range(rng.randint(1, 5)):
            kw = {}
            for nm in rng.sample(TABLE_NAMES, rng.choice([0, 0, 1, 1, 2, 3])):
                fid = next_id
                next_id += 1
                fn = make_decoy(fid)
                ids[id(fn)] = fid
                keep.append(fn)
                kw[nm] = fn
            kws.append(kw)
            ds = DatasetType("d")
            ds["a"] = BaseType("a", np.array(src, dtype="i4"))
            apps.append(SSF(BaseHandler(ds), **kw))
        again = ssf.load_functions()
        queries = [(rng.randrange(len(apps)), rng.choice(TABLE_NAMES + ["density"])) for _ in range(6)]
        case = {"kind": "tables", "kws": [{k: ids[id(f)] for k, f in kw.items()} for kw in kws], "queries": [list(q_) for q_ in queries], "src": src}

        def show(t):
            return "(%s)" % " ".join("(%s %s)" % (G.hx(k), ids.get(id(f), "foreign")) for k, f in t.items())
        impl = "%s | %s | %s" % (" ".join(show(a.functions) for a in apps), show(again),
                                 " ".join(str(ids.get(id(apps[i].functions[nm]), "foreign")) if nm in apps[i].functions else "none" for i, nm in queries))
        line = "ssf-tables (%s) (%s) (%s)" % (" ".join("(%s %d)" % (G.hx(k), i) for i, k in enumerate(stock_names)),
                                             " ".join("(%s)" % " ".join("(%s %d)" % (G.hx(k), ids[id(f)]) for k, f in kw.items()) for kw in kws),
                                             " ".join("(%d %s)" % (i, G.hx(nm)) for i, nm in queries))
        cases.append((line, impl, case))
        ok, obs, exp = judge_tables(ssf, apps, kws, stock_before, again, src)
        if not ok:
            ctx.oracle_fail("the function table of an application is not the stock functions plus its own keyword functions", case, obs, exp,
                            size=sum(len(kw) for kw in kws) + len(kws))
        ctx.count(("tables", repr(case["kws"])), True, tag="tables|apps%d|%s" % (len(apps), "override-stock" if any(k in stock_names for kw in kws for k in kw) else "new-names-only" if any(kws) else "defaults"))
    ctx.correspond("function tables of the applications of one process (ServerSideFunctions.__init__)", cases)


def judge_tables(ssf, apps, kws, stock_before, again, src):
    """each instance's table = stock ∪ own keywords; load_functions() unchanged; a default instance still computes the mean"""
    for i, (a, kw) in enumerate(zip(apps, kws)):
        want = dict(stock_before)
        want.update(kw)
        if list(a.functions.keys()) != list(want.keys()) or any(a.functions[k] is not want[k] for k in want):
            return False, "application %d: %s" % (i, sorted((k, getattr(f, "__module__", "?")) for k, f in a.functions.items() if f is not want.get(k))), \
                "stock functions + its own keywords %s" % sorted(kw)
    if list(again.keys()) != list(stock_before.keys()) or any(again[k] is not stock_before[k] for k in again):
        return False, "load_functions() afterwards: %s" % sorted(again), "the stock functions %s" % sorted(stock_before)
    for i, (a, kw) in enumerate(zip(apps, kws)):
        r = G.run_request(a, "/d.dods", "mean(a,0)")
        try:
            decl, vals = decode_answer(r)
        except Exception as e:
            return False, "application %d mean(a,0): %s" % (i, type(e).__name__), "a data response"
        if "mean" in kw:
            want_v, want_n = [float(kw["mean"].__kwdefaults__["_fid"])], "decoy"
        else:
            want_v, want_n = [float(np.mean(np.array(src, dtype="i4")))], "a"
        if [e[1] for e in decl] != [want_n] or [float(v) for v in vals] != want_v:
            return False, "application %d mean(a,0) -> %s %s" % (i, [e[1] for e in decl], vals[:4]), "%s %s" % (want_n, want_v)
    return True, None, None


def explore(ctx, tier, search=False):
    sfx = "-search" if search else ""
    transparency(ctx, tier, ctx.rng("transparency" + sfx))
    mean_checks(ctx, tier, ctx.rng("mean" + sfx))
    bounds_checks(ctx, tier, ctx.rng("bounds" + sfx))
    proxy_tree_checks(ctx, tier, ctx.rng("proxytree" + sfx))
    session_checks(ctx, tier, ctx.rng("session" + sfx))
    handle_checks(ctx, tier, ctx.rng("beside" + sfx))
    table_checks(ctx, tier, ctx.rng("tables" + sfx))


def run(ctx):
    ctx.rule = ("(a) per generated dataset 8 function-free valid CEs x {dds,dods,ascii,asc,das} with and without the middleware, "
                "plus a fixed list of call-bearing / unparsable queries x paths for the routing; (b) arrays and grids of rank "
                "1..3 (extents 1..4, six dtypes incl. Byte 0..255, integer-valued), every valid axis, nesting depth 1..3, alone or beside an "
                "ordinary projection, default axis, through the raw request and through the client's function proxy; (c) "
                "sequences of 1..5 Int32 columns with X/Y/Z axis attributes (either case), intervals incl. min=max and empty "
                "results, call in selection / projection position / beside a column projection; (e) handler_gen datasets and "
                "valid CEs (15 % with an injected item fault) with 1..3 mean calls (nested, default / invalid axis, unknown names; on "
                "top-level arrays, structure members, nested members, grids, grid arrays) inserted first / middle / last / alone, "
                "whole answers for two of dds/dods/ascii; (f) histories of 1..5 ServerSideFunctions constructions with keyword "
                "tables over {mean,bounds,f,g}; distinct by the whole case")
    ctx.assumptions = ["np.mean on small integers: sums are exact in float64, so mean = sum/n is compared exactly for one "
                       "level and to 1e-9 relative for nested calls (inner means are rounded before the outer sum)",
                       "the time arguments of bounds (T axis, needs the optional `coards` package) are outside the model and the generator",
                       "transparency is proved for constraints parse_ce accepts (the property's own quantifier)",
                       "(e) the values of the arrays a mean is asked of are multiplied by their element count, so that every (nested) "
                       "mean is an integer (the model's values are integers); the model's evaluator is the table of results recorded "
                       "by a spy on eval_function during the very request",
                       "(e) a constructor result whose name is already in the answer is merged into that variable: outside the model "
                       "(`answered`) and outside the oracle (tag merge)"]
    ctx.proof_phase()
    explore(ctx, ctx.tier)
    return ctx.finish(search=lambda c: explore(c, "thorough", search=True))


def replay(payload):
    BaseHandler, SSF = load()
    f = payload.get("failure")
    if not f:
        print("nothing to replay: %s" % payload.get("no_longer_checks"))
        return False
    c = f["case"]
    q = c.get("query", "")
    if c["kind"] == "beside":
        spec = c15.spec_from_sexp(c["dataset"])
        tag, fail = judge_beside(BaseHandler, SSF, spec, c["items"], c["calls"], c["sel"], [tuple(o) for o in c["order"]])
        print("%s -> %s%s" % (c["query"], tag, "" if not fail else ": %s; observed %s, expected %s" % (fail[0], str(fail[1])[:300], str(fail[2])[:300])))
        return fail is None
    if c["kind"] == "tables":
        import pydap.wsgi.ssf as ssf
        from pydap.model import BaseType, DatasetType
        stock_before = ssf.load_functions()
        kws, apps = [], []
        for kw_ids in c["kws"]:
            kw = {k: make_decoy(fid) for k, fid in kw_ids.items()}
            kws.append(kw)
            ds = DatasetType("d")
            ds["a"] = BaseType("a", np.array(c["src"], dtype="i4"))
            apps.append(SSF(BaseHandler(ds), **kw))
        ok, obs, exp = judge_tables(ssf, apps, kws, stock_before, ssf.load_functions(), c["src"])
        print("applications built with %s: %s" % ([sorted(k) for k in c["kws"]], "each has the stock functions plus its own" if ok else "%s; expected %s" % (obs, exp)))
        return ok
    if c["kind"] == "transparency":
        ds = G.build(c15.spec_from_sexp(c["dataset"]))
        a, b = G.run_request(BaseHandler(ds), c["path"], q), G.run_request(SSF(BaseHandler(ds)), c["path"], q)
        ok = all(a[k] == b[k] for k in ("exc", "status", "ctype", "cdesc", "body", "body_exc")) and not a["exc"] and a["status"] == 200
        print("%s?%s with/without middleware: %s" % (c["path"], q, "identical" if ok else "DIFFERENT"))
        return ok
    if c["kind"] == "bounds":
        from pydap.model import BaseType, DatasetType, SequenceType
        ds = DatasetType("d")
        s = SequenceType("s")
        names = ["c%d" % i for i in range(len(c["axes"]))]
        for nm, ax in zip(names, c["axes"]):
            s[nm] = BaseType(nm, axis=ax.upper()) if ax != "-" else BaseType(nm)
        s.data = np.array([tuple(r) for r in c["rows"]], dtype=[(nm, "i4") for nm in names]).view(np.recarray)
        ds["s"] = s
        res = G.run_request(SSF(BaseHandler(ds)), "/d.dods", q)
        iv = c["intervals"]
        lohi = {"x": (iv[0], iv[1]), "y": (iv[2], iv[3]), "z": (iv[4], iv[5])}
        want = [[r[i] for i in c["cols"]] for r in c["rows"] if all(a == "-" or lohi[a][0] <= r[i] <= lohi[a][1] for i, a in enumerate(c["axes"]))
                and (not c.get("extra") or r[c["extra"][0]] >= c["extra"][1])]
        if res["exc"] or res["status"] != 200 or res["body_exc"]:
            print("request failed:", res["exc"] or res["status"])
            return False
        head, _, payload_ = res["body"].partition(b"Data:\n")
        try:
            _, decl, _ = G.parse_dds(head.decode("ascii"))
            vals = [int(v) for v in G.decode_dods_values(decl, payload_)]
        except Exception as e:
            print("answer does not decode:", type(e).__name__)
            return False
        k = len(c["cols"])
        got = [vals[i:i + k] for i in range(0, len(vals), k)]
        print("observed", got, "expected", want)
        return got == want
    if c["kind"] in ("proxy-tree", "parse-text"):
        from pydap.client import open_url
        rng = __import__("random").Random(0)
        ds = proxy_dataset(rng)
        client = open_url("http://localhost/d", application=SSF(BaseHandler(ds)))

        def rebuild(t):
            if t[0] == "call":
                return getattr(client.functions, t[1])(*[rebuild(x) for x in t[2]])
            if t[0] == "var":
                obj = client
                for part in t[1].split("."):
                    obj = obj[part]
                return obj
            return t[1]

        sent = tuplify(c["sent"])
        id_ = rebuild(sent).id
        try:
            got = server_tree(ds, id_)
            ok = same_tree(ds, sent, got)
            print("id %r -> server tree %r" % (id_, show_tree(got)))
        except Exception as e:
            ok = False
            print("id %r -> %s" % (id_, type(e).__name__))
        return ok
    if c["kind"] == "proxy-session":
        from pydap.client import open_url
        from pydap.model import BaseType, DatasetType, GridType
        import xdrlib as X
        for b in c.get("before", []):
            try:        # the process's earlier proxy sessions, for the state they leave behind
                app0 = SSF(BaseHandler(mean_ds_from_info(b["info"])))
                cl0 = open_url("http://localhost/d", session=X.wsgi_session(app0, gz=b.get("gzip", False)))
                r0 = cl0[b["target"]]
                for k in b["axes"]:
                    r0 = cl0.functions.mean(r0, k)
                np.asarray((r0["a"] if b["target"] == "a" else r0["g"]["v"]).data)
            except Exception:
                pass
        ds = mean_ds_from_info(c["info"])
        app = SSF(BaseHandler(ds))
        try:
            cl = open_url("http://localhost/d", session=X.wsgi_session(app, gz=c.get("gzip", False)))
            res_ = cl[c["target"]]
            for k in c["axes"]:
                res_ = cl.functions.mean(res_, k)
            leaf_ = res_["a"] if c["target"] == "a" else res_["g"]["v"]
            cvals = [float(x) for x in np.asarray(leaf_.data).reshape(-1)]
            raw = G.run_request(app, "/d.dods", res_.id)
            h2, _, p2 = raw["body"].partition(b"Data:\n")
            _, d2, _ = G.parse_dds(h2.decode("ascii"))
            rvals = [float(x) for x in G.decode_dods_values(d2, p2)][:len(cvals)]
            print("proxy over a session", cvals[:8], "raw request", rvals[:8])
            return bool(cvals) and cvals == rvals
        except Exception as e:
            print("proxy over a session raised %s: %s" % (type(e).__name__, e))
            return False
    # mean / proxy
    from pydap.model import BaseType, DatasetType, GridType
    info = c["info"]
    data = np.array(info["data"], dtype=info.get("dt", "i4")).reshape(info["shape"])
    ds = DatasetType("d")
    ds["a"] = BaseType("a", data, dims=tuple(info["a_dims"])) if info["a_dims"] else BaseType("a", data)
    g = GridType("g")
    g["v"] = BaseType("v", data, dims=tuple(info["dims"]))
    for d, m in zip(info["dims"], info["maps"]):
        g[d] = BaseType(d, np.array(m, dtype="i4"), dims=(d,))
    ds["g"] = g
    ds["w"] = BaseType("w", np.arange(3, dtype="i4"))
    res = G.run_request(SSF(BaseHandler(ds)), "/d.dods", q)
    if res["exc"] or res["status"] != 200 or res["body_exc"]:
        print("request failed:", res["exc"] or res["status"])
        return False
    head, _, payload_ = res["body"].partition(b"Data:\n")
    try:
        _, decl, _ = G.parse_dds(head.decode("ascii"))
        vals = G.decode_dods_values(decl, payload_)
    except Exception as e:
        print("answer does not decode:", type(e).__name__)
        return False
    src = np.array(info["data"], dtype="f8").reshape(info["shape"])
    for k in c["axes"]:
        src = src.mean(axis=k)
    want = [float(x) for x in np.asarray(src).reshape(-1)]
    import re as _re
    mw = _re.match(r"(w(?:\[[0-9:]*\])?),", q) or _re.search(r",(w(?:\[[0-9:]*\])?)$", q)
    wvals = []
    if mw:
        wvals = {"w": [0, 1, 2], "w[1:2]": [1, 2], "w[0:2:2]": [0, 2], "w[2]": [2]}.get(mw.group(1), [0, 1, 2])
    pre = len(wvals)
    if [float(x) for x in vals[:pre]] != [float(x) for x in wvals]:
        print("ordinary projection beside the call: observed", vals[:pre + 2], "expected", wvals)
        return False
    got = [float(x) for x in vals[pre:pre + len(want)]]
    print("observed", got[:12], "expected", want[:12])
    import re
    dims = list(info["dims"] if c["target"] != "a" else info["a_dims"])
    mapnames = list(info["dims"])
    for k in c["axes"]:
        if dims:
            del dims[k]
        del mapnames[k]
    m = re.search(r"Float(?:64|32) (?:a|v)((?:\[[^\]]*\])*);", head.decode("ascii"))
    got_dims = [x.split("=")[0].strip() for x in re.findall(r"\[([^\]]*)\]", m.group(1)) if "=" in x] if m else None
    dims_ok = (not dims) or got_dims == dims
    if c["target"] == "g":
        got_maps = [e_[0].split(".")[1] for e in decl if e[0] == "g" for e_ in e[2][1:]]
        dims_ok = dims_ok and got_maps == mapnames
    print("dimensions/maps", "as expected" if dims_ok else "WRONG: %s" % got_dims)
    tol = 1e-5 if info.get("dt") == "f4" else 1e-9
    return dims_ok and len(got) == len(want) and all(abs(a_ - b_) <= tol * max(1, abs(b_)) for a_, b_ in zip(got, want))
