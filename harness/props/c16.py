"""C16 — the file server never leaves its data directory and routes by what is on disk.

Proof: lean/Props/C16.lean (model lean/PydapModel/Path.lean).
Tie: generated directory layouts under a fresh temp dir x request paths (exhaustive to 3 segments over the
layout's alphabet, sampled to 5) -> outcome of `Request.blank(path).get_response(DapServer(root))` vs the
model's `serve`; plus the pure path functions (resolve / containment test / splitext / sort / handler match).
Oracle (independent of the model): own resolver + os calls decide what the property demands; every
open/listdir/scandir/stat/netCDF-open/FileApp/get_handler path recorded during the request must lie under
the root; no response body may contain the marker of a file it should not disclose.
"""
import itertools
import os
import posixpath
import re
import shutil
import sys
import tempfile

import common
from common import hexb

LEVEL = "proof"

# ------------------------------------------------------------------------------------------------
# instrumentation: one audit hook (cannot be removed, so it is gated by a flag) + wrappers
_REC = {"on": False, "events": []}
_HOOKED = {"done": False}


def _audit(event, args):
    if not _REC["on"]:
        return
    if event in ("open", "os.listdir", "os.scandir"):
        p = args[0]
        if isinstance(p, bytes):
            p = os.fsdecode(p)
        if isinstance(p, str):
            _REC["events"].append((event, p))


def install_hooks():
    if _HOOKED["done"]:
        return
    _HOOKED["done"] = True
    sys.addaudithook(_audit)
    real_stat, real_lstat = os.stat, os.lstat

    def stat(path, *a, **k):
        if _REC["on"] and isinstance(path, (str, bytes)):
            _REC["events"].append(("os.stat", os.fsdecode(path)))
        return real_stat(path, *a, **k)

    def lstat(path, *a, **k):
        if _REC["on"] and isinstance(path, (str, bytes)):
            _REC["events"].append(("os.lstat", os.fsdecode(path)))
        return real_lstat(path, *a, **k)

    os.stat, os.lstat = stat, lstat
    import pydap.handlers.netcdf as nc
    import pydap.wsgi.app as appmod

    real_nc = nc.netcdf_file

    def netcdf_file(path, *a, **k):
        if _REC["on"]:
            _REC["events"].append(("netcdf.open", str(path)))
        return real_nc(path, *a, **k)

    nc.netcdf_file = netcdf_file
    real_gh, real_fa = appmod.get_handler, appmod.FileApp

    def get_handler(filepath, handlers=None, instantiate=True):
        if _REC["on"]:
            _REC["events"].append(("get_handler" if instantiate else "supported", filepath))
        return real_gh(filepath, handlers, instantiate)

    def FileApp(path, *a, **k):
        if _REC["on"]:
            _REC["events"].append(("FileApp", path))
        return real_fa(path, *a, **k)

    appmod.get_handler, appmod.FileApp = get_handler, FileApp


def whitelist_prefixes():
    import mimetypes

    out = [os.path.join(common.REPO, "src"), sys.prefix, sys.base_prefix, sys.exec_prefix, "/usr/lib", "/usr/share",
           "/usr/local/lib", "/etc/localtime", "/etc/timezone", "/opt", "/root/.cache", "/proc", "/dev"]
    out += list(mimetypes.knownfiles)
    out += [p for p in sys.path if p]          # the import system stats its search path on lazy imports
    return tuple(dict.fromkeys(os.path.abspath(p) for p in out))


# ------------------------------------------------------------------------------------------------
# layouts
NC_BYTES = {}


def nc_bytes(marker):
    """a tiny real NetCDF file whose global attribute carries the marker"""
    import netCDF4

    fd, path = tempfile.mkstemp(suffix=".nc", prefix="c16nc-")
    os.close(fd)
    try:
        with netCDF4.Dataset(path, "w") as ds:
            ds.createDimension("x", 2)
            v = ds.createVariable("v", "i4", ("x",))
            v[:] = [1, 2]
            ds.note = marker
        with open(path, "rb") as f:
            return f.read()
    finally:
        os.remove(path)


ROOT_NAMES = ["data", "r.nc", "pub", "d", "catalog.xml", "x.csv"]
INNER_DIRS = ["sub", "a", "d.nc", "data", "10", "9", "catalog.xml", "b.d", "deep"]
INNER_FILES = ["t.csv", "T.CSV", "n.nc", "u.txt", "noext", ".hid", ".csv", "x.csv.dds", "catalog.xml", "f9.txt", "f10.txt",
               "f010.txt", "t.csv.json", "m.cdf", "w.nc4", "q.csv.txt", "a.", "mycatalog.xml", "z.html",
               # names that END in the letters of a supported extension without the dot in front
               "oldcsv", "export_csv", "sync", "b.acdf", "xnc4"]


LONG_FILE = "L" * 180 + ".csv"
LONG_DIR = "D" * 150
# glob metacharacters, names that are only an extension, upper/mixed-case extensions, spaces and percent signs, long names
SPECIAL_FILES = ["run[1].csv", "a*b.csv", "q?.csv", "[x].txt", ".nc", ".CSV", ".Csv", "M.Nc", "w.CdF", "a b.csv", "50%.txt",
                 "p%2e.csv", "%41.csv", "100%25.csv", LONG_FILE, "x].nc", "*", "?"]
SPECIAL_DIRS = ["run[1]", "run1", "a b", "%2e%2e", "x*", "d?", "[", LONG_DIR, ".csv.d", "%2F"]


def q(name):
    from urllib.parse import quote
    return quote(name, safe="")


class Layout:
    def __init__(self, rng, idx, quick=True):
        self.base = os.path.realpath(tempfile.mkdtemp(prefix="c16-"))
        self.markers = {}          # abs path -> marker bytes
        self.n = 0
        self.root_name = ROOT_NAMES[idx % len(ROOT_NAMES)] if idx < len(ROOT_NAMES) else rng.choice(ROOT_NAMES)
        self.root = os.path.join(self.base, self.root_name)
        os.mkdir(self.root)
        # siblings sharing the root's name as a prefix (and one that is a proper prefix of it, one unrelated)
        self.siblings = [self.root_name + "2", self.root_name + "-old", "other"]
        if len(self.root_name) > 1:
            self.siblings.append(self.root_name[:-1])
        for s in self.siblings:
            d = os.path.join(self.base, s)
            os.mkdir(d)
            self.put(os.path.join(d, "secret.txt"))
            self.put(os.path.join(d, "s.csv"))
            os.mkdir(os.path.join(d, "sub"))
            self.put(os.path.join(d, "sub", "t.csv"))
        self.put(os.path.join(self.base, self.root_name + ".txt"))
        # inside
        self.populate(rng, self.root, depth=0)
        # always at least one supported file and one plain file and one directory at top level
        # (".csv": a hidden file whose whole name is a supported extension; "noext": no extension at all)
        # ("2020_01.csv": a name that starts with a digit next to names that do not — the listing sorts by text/number chunks)
        for name in ("t.csv", "u.txt", ".csv", "noext", "oldcsv", "2020_01.csv"):
            p = os.path.join(self.root, name)
            if not os.path.exists(p):
                self.put(p)
        if not os.path.isdir(os.path.join(self.root, "sub")):
            if not os.path.exists(os.path.join(self.root, "sub")):
                os.mkdir(os.path.join(self.root, "sub"))
                self.put(os.path.join(self.root, "sub", "t.csv"))
        # special names, systematically: `run[1]` next to `run1` (what a glob of the former would match), and a sample
        self.special = ["run[1]", "run1"] + rng.sample(SPECIAL_DIRS[2:], 2)
        self.special_files = rng.sample(SPECIAL_FILES, 6)
        for i, dn in enumerate(self.special):
            d = os.path.join(self.root, dn)
            if not os.path.exists(d):
                os.mkdir(d)
            self.put(os.path.join(d, "t.csv" if dn != "run1" else "only-in-run1.csv"))
            self.put(os.path.join(d, self.special_files[i % len(self.special_files)]))
        for fn in self.special_files:
            p = os.path.join(self.root, fn)
            if not os.path.exists(p):
                self.put(p)
        # the same special file name outside the root (sibling): must never be reached
        self.put(os.path.join(self.base, self.siblings[0], self.special_files[0]))

    def put(self, path):
        self.n += 1
        marker = ("MK%04dQ" % self.n).encode()
        low = path.lower()
        if low.endswith(".csv"):
            body = b'"a","b"\n1,"' + marker + b'"\n2,"y"\n'
        elif low.endswith((".nc", ".cdf", ".nc4")):
            body = nc_bytes(marker.decode())
        elif low.endswith(".json"):
            body = b'{"NC_GLOBAL": {"note": "' + marker + b'"}}'
        else:
            body = b"content " + marker + b"\n"
        with open(path, "wb") as f:
            f.write(body)
        self.markers[path] = marker

    def populate(self, rng, d, depth):
        nfiles = rng.randint(1, 5) if depth else rng.randint(3, 7)
        for name in rng.sample(INNER_FILES, nfiles):
            p = os.path.join(d, name)
            if not os.path.exists(p):
                self.put(p)
        if depth < 2:
            for name in rng.sample(INNER_DIRS, rng.randint(1, 3) if depth == 0 else rng.randint(0, 2)):
                p = os.path.join(d, name)
                if not os.path.exists(p):
                    os.mkdir(p)
                    self.populate(rng, p, depth + 1)

    def fs_sexp(self):
        """every directory and file below base, as the model's abstract file system (listdir order)"""
        out = []
        for dirpath, dirs, files in os.walk(self.base):
            out.append("(%s d %s)" % (segs_sexp(dirpath), names_sexp(os.listdir(dirpath))))
            for fn in files:
                out.append("(%s f)" % segs_sexp(os.path.join(dirpath, fn)))
        return "(" + " ".join(out) + ")"

    def alphabet(self, rng, size):
        top = sorted(os.listdir(self.root))
        nested = []
        for dirpath, dirs, files in os.walk(self.root):
            if dirpath != self.root:
                nested += dirs + files
        files_top = [q(n) for n in top if os.path.isfile(os.path.join(self.root, n))]
        top = [q(n) for n in top]
        nested = [q(n) for n in nested]
        fixed = ["..", ".", "", "%2e%2e", "%252e%252e", "catalog.xml", self.siblings[0], self.root_name, "secret.txt"]
        derived = []
        for f in files_top[:4]:
            derived.append(f + rng.choice([".dds", ".das", ".dods", ".ver", ".asc"]))
        derived += ["t.csv.dds", "u.txt.dds", "sub.dds", "t.csv.nope", "mycatalog.xml", "%2E", "..%2f" + self.siblings[0],
                    ".csv.dds", "noext.dds", ".hid.dds", "T.CSV.dds",
                    "%2e%2e%2f" + self.siblings[1], "t.csv.", "nope", "s.csv.dds", self.siblings[1], self.siblings[-1]]
        pool = list(dict.fromkeys(top + nested + derived))
        rng.shuffle(pool)
        alpha = list(dict.fromkeys(fixed + pool))[:size]
        return alpha, list(dict.fromkeys(fixed + pool))

    def close(self):
        shutil.rmtree(self.base, ignore_errors=True)


def segs_of(path):
    return [s for s in path.split("/") if s]


def names_sexp(names):
    return "(" + " ".join(hexb(n.encode()) for n in names) + ")"


def segs_sexp(path):
    return names_sexp(segs_of(path))


# ------------------------------------------------------------------------------------------------
# the specification side: own resolver
def spec_resolve(root, path_info):
    stack = segs_of(root)
    for s in path_info.split("/"):
        if s == "" or s == ".":
            continue
        if s == "..":
            if stack:
                stack.pop()
            continue
        stack.append(s)
    return stack


def under(root_segs, segs):
    return segs[:len(root_segs)] == root_segs


def is_supported(handlers, path):
    """by what is on disk: the name ends in a dot and one of the handlers' extensions, in any case.  The extensions are
    read from the handlers' patterns as words; the MEANING (dot + extension at the end of the name) is the documented
    one and is not taken from the pattern, so that a pattern meaning something else is judged against it."""
    low = os.path.basename(path).lower()
    return any(low.endswith("." + e) for e in handler_exts(handlers))


def spec_splitext_name(name):
    """strip one extension from the last component: last dot, unless only dots precede it"""
    i = name.rfind(".")
    if i <= 0 or set(name[:i]) <= {"."}:
        return name
    return name[:i]


LISTING_FILE = re.compile(r'<a title="Download file" href="([^"]*)">')
LISTING_SUP = re.compile(r'<a title="View the DDS response" href="([^"]*)\.dds">')
LISTING_DIR = re.compile(r'<td><a href="([^"]*)/">')
CAT_DIR = re.compile(r'<catalogRef name="([^"]*)"')
CAT_FILE = re.compile(r'<dataset name="([^"]*) " ID=')


N_SPELLINGS = 12


def spellings_of(layout):
    """(working directory or None, spelling) pairs; every one of them names layout.root"""
    head, tail = os.path.split(layout.root)
    sub = os.path.join(layout.root, "sub")
    return [(None, layout.root), (None, os.path.join(head, "other", "..", tail)), (None, layout.root + "/"),
            (None, head + "//" + tail), (None, os.path.join(head, ".", tail)), (None, os.path.join(layout.root, "sub", "..")),
            (head, tail), (head, "./" + tail + "/"), (sub if os.path.isdir(sub) else layout.root, ".." if os.path.isdir(sub) else "."),
            (layout.root, "."), (os.path.join(head, "other"), "../" + tail + "//"), (layout.root, "")]


class Server:
    def __init__(self, layout, spell=None):
        from pydap.wsgi.app import DapServer

        self.layout = layout
        # the data directory as the operator spells it: canonical, through a sibling and `..`, with a trailing slash,
        # with a doubled slash, with a `.` segment, through a sub-directory and `..`, and RELATIVE to the working directory
        # of the moment the server is created (plain, `./x/`, `..` from inside, `.`, `../x//` from a sibling, `""`) —
        # one server object per layout, the spelling a function of the layout
        info = getattr(layout, "seed_info", None) or {}
        k = info.get("spell", info.get("idx", 0)) if spell is None else spell
        self.cwd, self.spelling = spellings_of(layout)[k % N_SPELLINGS]
        old_cwd = os.getcwd()
        if self.cwd is None:
            self.cwd = old_cwd
        try:
            os.chdir(self.cwd)
            self.app = DapServer(self.spelling)
        finally:
            os.chdir(old_cwd)
        self.handlers = list(self.app.handlers)
        self.exts = handler_exts(self.handlers)
        self.white = whitelist_prefixes()
        self.root_segs = segs_of(layout.root)
        # the model is fed the spelling and the working directory, not the normal form
        self.head = "%s %s %s" % (names_sexp(self.exts), segs_sexp(self.cwd), hexb(self.spelling.encode()))
        self.head_normal = "%s %s" % (names_sexp(self.exts), segs_sexp(layout.root))

    def request(self, url):
        """run one request with recording on. Returns dict(path_info, status, ctype, cdesc, body, exc, events)"""
        from webob import Request

        req = Request.blank(url)
        out = {"url": url, "path_info": req.path_info, "status": None, "ctype": None, "cdesc": None, "body": b"",
               "exc": None}
        _REC["events"] = []
        _REC["on"] = True
        try:
            res = req.get_response(self.app)
            out["status"] = res.status_code
            out["ctype"] = res.content_type
            out["cdesc"] = res.headers.get("Content-Description")
            out["body"] = res.body          # reads app_iter to the end (FileApp opens the file here)
        except Exception as e:  # noqa: BLE001
            out["exc"] = type(e).__name__
        finally:
            _REC["on"] = False
        out["events"] = list(_REC["events"])
        return out

    def foreign(self, events):
        """recorded paths that are neither under the root nor whitelisted package/system files"""
        bad = []
        for ev, p in events:
            ap = os.path.abspath(p)
            if under(self.root_segs, segs_of(ap)):
                continue
            if ap.startswith(self.white):
                continue
            bad.append((ev, ap))
        return bad

    # -- canonical outcome of the implementation (same syntax as the driver's) ----------------------
    def canon(self, r):
        ev = r["events"]
        if r["exc"] == "ExtensionNotSupportedError":
            gh = [p for e, p in ev if e == "get_handler"]
            return "(unsupported %s)" % (segs_sexp(gh[-1]) if gh else "?")
        if r["exc"]:
            return "escaped:" + r["exc"]
        if r["status"] == 403:
            return "(forbidden)"
        if r["status"] == 404:
            return "(notfound)"
        gh = [p for e, p in ev if e == "get_handler"]
        if gh:
            return "(dap %s)" % segs_sexp(gh[-1])
        fa = [p for e, p in ev if e == "FileApp"]
        if fa and r["status"] == 200:
            return "(file %s)" % segs_sexp(fa[-1])
        ld = [p for e, p in ev if e == "os.listdir"]
        text = r["body"].decode("utf-8", "replace")
        if r["status"] == 200 and ld and r["ctype"] == "text/html":
            files = LISTING_FILE.findall(text)
            sup = set(LISTING_SUP.findall(text))
            dirs = LISTING_DIR.findall(text)
            return "(listing %s (%s) %s)" % (segs_sexp(ld[0]), " ".join(
                "(%s %d)" % (hexb(f.encode()), 1 if f in sup else 0) for f in files), names_sexp(dirs))
        if r["status"] == 200 and ld and r["ctype"] == "application/xml":
            files = CAT_FILE.findall(text)
            dirs = CAT_DIR.findall(text)
            return "(catalog %s (%s) %s)" % (segs_sexp(ld[0]), " ".join("(%s 1)" % hexb(f.encode()) for f in files),
                                             names_sexp(dirs))
        return "other:%s" % r["status"]

    # -- the direct oracle ----------------------------------------------------------------------------
    def judge(self, ctx, r):
        L = self.layout
        case = {"root": L.root_name, "layout": L.seed_info, "url": r["url"]}
        if "spell" in r:
            case["spell"] = r["spell"]
        fails = []
        target = spec_resolve(L.root, r["path_info"])
        tpath = "/" + "/".join(target)
        inside = under(self.root_segs, target)
        body = r["body"]
        present = set(p for p, m in L.markers.items() if m in body)
        foreign = self.foreign(r["events"])
        if foreign:
            fails.append(("file system access outside the data directory", foreign[:4], "every access under " + L.root_name))
        outside_disclosed = [p for p in present if not under(self.root_segs, segs_of(p))]
        if outside_disclosed:
            fails.append(("response discloses a file outside the data directory", sorted(outside_disclosed)[:3], "nothing"))
        if r["exc"] and r["exc"] != "ExtensionNotSupportedError":
            fails.append(("exception escapes the application", r["exc"], "a response"))
        allowed = set()
        if not inside:
            tag = "outside"
            if r["status"] != 403:
                fails.append(("path resolving outside the data directory is not refused", r["status"] or r["exc"], 403))
            touched = [(e, p) for e, p in r["events"] if os.path.abspath(p).startswith(L.base)]
            if touched:
                fails.append(("refused request still touched the file system", touched[:3], "no access"))
        elif os.path.isfile(tpath):
            tag = "file"
            allowed = {tpath}
            with open(tpath, "rb") as f:
                want = f.read()
            if r["status"] != 200 or body != want:
                fails.append(("existing file is not returned verbatim", (r["status"] or r["exc"], body[:40]), (200, want[:40])))
        elif os.path.isdir(tpath) or (not os.path.exists(tpath) and target and target[-1] == "catalog.xml"
                                      and os.path.isdir(posixpath.dirname(tpath)) and under(self.root_segs, target[:-1])):
            cat = not os.path.isdir(tpath)
            d = posixpath.dirname(tpath) if cat else tpath
            tag = "catalog" if cat else "listing"
            entries = os.listdir(d)
            wfiles = sorted(e for e in entries if os.path.isfile(os.path.join(d, e)))
            wdirs = sorted(e for e in entries if os.path.isdir(os.path.join(d, e)))
            wsup = sorted(e for e in wfiles if is_supported(self.handlers, os.path.join(d, e)))
            text = body.decode("utf-8", "replace")
            if r["status"] != 200:
                fails.append(("directory does not yield a listing", r["status"] or r["exc"], 200))
            elif cat:
                got = (sorted(CAT_FILE.findall(text)), sorted(CAT_DIR.findall(text)))
                if got != (wsup, wdirs):
                    fails.append(("catalog does not list exactly the directory's entries", got, (wsup, wdirs)))
                elif judge_order(ctx, case, "catalog datasets", CAT_FILE.findall(text)) or \
                        judge_order(ctx, case, "catalog directories", CAT_DIR.findall(text)):
                    fails.append(("(order)", None, None))
            else:
                got = (sorted(LISTING_FILE.findall(text)), sorted(LISTING_DIR.findall(text)),
                       sorted(LISTING_SUP.findall(text)))
                if got != (wfiles, wdirs, wsup):
                    fails.append(("listing does not show exactly the directory's entries", got, (wfiles, wdirs, wsup)))
                elif judge_order(ctx, case, "files", LISTING_FILE.findall(text)) or \
                        judge_order(ctx, case, "directories", LISTING_DIR.findall(text)):
                    fails.append(("(order)", None, None))
        else:
            name = target[-1] if target else ""
            base = "/" + "/".join(target[:-1] + [spec_splitext_name(name)]) if target else "/"
            if base != tpath and os.path.isfile(base) and under(self.root_segs, segs_of(base)):
                allowed = {base, base + ".json"}
                if is_supported(self.handlers, base):
                    tag = "dap"
                    resp = r["path_info"].rsplit(".", 1)[-1]
                    known = resp in self.responses()
                    if known and not (r["status"] == 200 and (r["cdesc"] or "").startswith("dods_")):
                        fails.append(("<file>.<response> does not yield the DAP response", (r["status"] or r["exc"], r["cdesc"]),
                                      (200, "dods_*")))
                    if not known:
                        tag = "dap-unknown-response"
                        if r["status"] is not None and r["status"] < 400:
                            fails.append(("unknown response name is not refused", r["status"], ">=400"))
                else:
                    tag = "unsupported"
                    allowed = set()
                    if not (r["exc"] == "ExtensionNotSupportedError" or (r["status"] or 0) >= 400):
                        fails.append(("unsupported format is not rejected", r["status"] or r["exc"], "unsupported"))
            else:
                tag = "notfound"
                if r["status"] not in (403, 404):
                    fails.append(("nonexistent path is not refused", r["status"] or r["exc"], "403/404"))
        leaked = [p for p in present if p not in allowed and under(self.root_segs, segs_of(p))]
        if leaked:
            fails.append(("response discloses a file it was not asked for", sorted(leaked)[:3], sorted(allowed)))
        for what, obs, exp in fails:
            if what != "(order)":            # (already reported by judge_order)
                ctx.oracle_fail(what, case, obs, exp, size=len(r["url"]) * 100 + L.n)
        return tag, bool(fails)

    _resp = None

    def responses(self):
        if Server._resp is None:
            from pydap.responses.lib import load_responses

            Server._resp = set(load_responses())
        return Server._resp


def handler_exts(handlers):
    """the alternatives of the handlers' `^.*\\.(a|b)$` patterns, lower-cased; None if a pattern has another form"""
    out = []
    for h in handlers:
        pat = h.extensions.pattern if hasattr(h.extensions, "pattern") else h.extensions
        m = re.fullmatch(r"\^\.\*\\\.(?:\(([A-Za-z0-9|]+)\)|([A-Za-z0-9]+))\$", pat)
        if not m:
            # not the modelled form: read the alternatives loosely; the model (dot + extension) will then disagree with
            # the code wherever the pattern means something else, which is a broken tie, not an infrastructure error
            out += [e.lower() for e in re.findall(r"[A-Za-z0-9]+", pat)]
            continue
        out += [e.lower() for e in (m.group(1) or m.group(2)).split("|")]
    return out


# ------------------------------------------------------------------------------------------------
def special_urls(layout):
    """requests aimed at the special names: quoted and raw forms, DAP suffixes, listings, glob look-alikes"""
    urls = ["/run*", "/run%5B1%5D", "/run%5B1%5D/", "/run[1]/", "/run1/", "/run%5B1%5D/catalog.xml", "/run%5B1%5D/t.csv.dds",
            "/run1/t.csv.dds", "/run%5B1%5D/only-in-run1.csv", "/run%5B1%5D/only-in-run1.csv.dds", "/run%3F", "/*", "/%2A/", "/?",
            "/%3F", "/.CSV.dds", "/.csv.DDS", "/t.CSV.dds", "/T.csv.dds", "/%2e%2e/", "/%252e%252e/", "/%252e%252e/t.csv",
            "/%252e%252e/../t.csv", "/%252F/", "/%2F/t.csv"]
    for fn in layout.special_files:
        for form in (q(fn), fn):
            urls += ["/" + form, "/" + form + ".dds", "/" + form + ".das", "/" + form + "/", "/" + form + "/catalog.xml",
                     "/sub/../" + form, "/" + form.upper(), "/" + form.lower() + ".dds"]
    for dn in layout.special:
        for form in (q(dn), dn):
            urls += ["/" + form, "/" + form + "/", "/" + form + "/catalog.xml", "/" + form + "/t.csv", "/" + form + "/t.csv.dds",
                     "/" + form + "/../t.csv", "/" + form + ".dds", "/" + form + "/.."]
            for fn in layout.special_files[:3]:
                urls += ["/" + form + "/" + q(fn), "/" + form + "/" + q(fn) + ".dds"]
    return urls


def urls_for(layout, rng, alpha, full, n_sampled, max_exhaustive):
    urls = special_urls(layout)
    for n in range(0, max_exhaustive + 1):
        for t in itertools.product(alpha, repeat=n):
            urls.append("/" + "/".join(t))
    urls.append("")
    # absolute paths smuggled into the request
    for target in (layout.root, os.path.join(layout.base, layout.siblings[0], "secret.txt"),
                   os.path.join(layout.root, "t.csv"), layout.base, "/etc/passwd"):
        urls += ["/" + target, target, "/.." + target, "/%2f" + target.lstrip("/"), "/sub/" + target]
    root_depth = len(segs_of(layout.root))
    urls.append("/" + "../" * (root_depth + 2) + layout.root.lstrip("/") + "/t.csv")
    urls.append("/" + "../" * (root_depth + 2) + layout.root.lstrip("/") + "2/secret.txt")
    urls.append("/" + "../" * root_depth + "etc/passwd")
    for _ in range(n_sampled):
        n = rng.choice([4, 4, 5, 5, 5])
        t = []
        for i in range(n):
            r = rng.random()
            t.append(rng.choice(["..", ".", "", "sub", layout.siblings[0], layout.root_name]) if r < 0.45 else rng.choice(full))
        urls.append("/" + "/".join(t))
    return list(dict.fromkeys(urls))


# ------------------------------------------------------------------------------------------------
# histories on one DapServer object, compared with a fresh server per request
def gen_history(layout, rng, interesting):
    """a list of steps: ("get", url) | ("rm", relpath) | ("add", relpath) | ("swap", relpath)"""
    dirs = [u for u, o in interesting if o.startswith(("(listing", "(catalog"))]
    files = [u for u, o in interesting if o.startswith("(file")]
    daps = [u for u, o in interesting if o.startswith("(dap")]
    other = [u for u, o in interesting if o.startswith(("(unsupported", "(forbidden", "(notfound"))]
    pick = lambda l, dflt: rng.choice(l) if l else dflt  # noqa: E731
    A, F, Dp, O = pick(dirs, "/"), pick(files, "/u.txt"), pick(daps, "/t.csv.dds"), pick(other, "/nope")
    steps = [("get", A), ("get", F), ("get", A), ("get", Dp), ("get", O), ("get", Dp), ("get", F)]
    # same extension, other file: a lookup remembered per extension would answer with the first file
    steps += [("get", "/.csv.dds"), ("get", "/noext.dds"), ("get", "/t.csv.dds"), ("get", "/sub/t.csv.dds"), ("get", "/.csv.dds")]
    for _ in range(rng.randint(2, 6)):
        steps.insert(rng.randrange(len(steps) + 1), ("get", rng.choice([A, F, Dp, O] + [u for u, _ in interesting[:50]])))
    # the file system changes under the long-lived server
    from urllib.parse import unquote
    victim = pick([u for u in files if u.count("/") == 1 and u not in ("/t.csv", "/.csv", "/noext")
                   and os.path.isfile(os.path.join(layout.root, unquote(u.lstrip("/"))))], None)
    if victim:
        rel = unquote(victim.lstrip("/"))
        steps += [("get", "/"), ("get", victim), (rng.choice(["rm", "swap"]), rel), ("get", victim), ("get", "/"),
                  ("get", victim + "/"), ("get", victim + ".dds")]
    new = rng.choice(["new1.csv", "sub/new2.CSV", "run[1]/n3.nc", "brand new.txt"])
    steps += [("get", "/" + q(new)), ("get", "/" + q(new) + ".dds"), ("add", new), ("get", "/" + q(new)),
              ("get", "/" + q(new) + ".dds"), ("get", "/" + q(os.path.dirname(new)) + "/" if os.path.dirname(new) else "/")]
    return steps


def apply_step(layout, step):
    kind, rel = step
    p = os.path.join(layout.root, rel)
    if kind == "rm":
        os.remove(p)
        layout.markers.pop(p, None)
    elif kind == "swap":                      # a file becomes a directory of the same name
        os.remove(p)
        layout.markers.pop(p, None)
        os.mkdir(p)
        layout.put(os.path.join(p, "inner.txt"))
    elif kind == "add":
        layout.put(p)


def run_history(ctx, layout, steps, meta, cases):
    """one long-lived server for the whole history; a fresh server for each request; same answers demanded"""
    long_lived = Server(layout)
    head = long_lived.head
    evs, outs = [], []
    failed = False
    for i, step in enumerate(steps):
        if step[0] != "get":
            apply_step(layout, step)
            continue
        url = step[1]
        r1 = long_lived.request(url)
        tag, bad = long_lived.judge(ctx, r1)
        r2 = Server(layout).request(url)
        obs = (r1["status"], r1["ctype"], r1["cdesc"], r1["exc"], r1["body"])
        exp = (r2["status"], r2["ctype"], r2["cdesc"], r2["exc"], r2["body"])
        ctx.count(("hist", repr(meta), i), i > 0, tag="history:%s" % tag)
        if obs != exp:
            failed = True
            ctx.oracle_fail("answer of a long-lived server differs from a fresh server's (routing depends on earlier requests)",
                            dict(meta, history=steps[:i + 1], url=url), tuple(str(x)[:60] for x in obs),
                            tuple(str(x)[:60] for x in exp), size=10 ** 6 + i)
        failed = failed or bad
        pi = r1["path_info"]
        if pi.isascii() and not any(ord(c) < 32 for c in pi):
            evs.append("(%s %s)" % (hexb(pi.encode()), layout.fs_sexp()))
            outs.append(long_lived.canon(r1))
    cases.append(("path-history-spelled %s (%s)" % (head, " ".join(evs)), "(" + " ".join(outs) + ")", dict(meta, history=steps)))
    return failed


def parse_pattern(h):
    """the live `handler.extensions` in the modelled fragment of `re`: (ignorecase, atoms) with atoms
    ("star",) | ("chr", c) | ("alts", [words]) | ("eol",); None when the pattern is written outside the fragment"""
    ext = h.extensions
    pat, flags = (ext.pattern, ext.flags) if hasattr(ext, "pattern") else (ext, 0)
    ic = bool(flags & re.IGNORECASE)
    if flags & (re.DOTALL | re.MULTILINE | re.VERBOSE):
        return None
    i, atoms = 0, []
    if pat.startswith("^"):
        i = 1
    while i < len(pat):
        c = pat[i]
        if pat.startswith(".*", i):
            atoms.append(("star",))
            i += 2
        elif c == "\\" and i + 1 < len(pat) and not pat[i + 1].isalnum():
            atoms.append(("chr", pat[i + 1]))
            i += 2
        elif c == "(":
            j = pat.find(")", i)
            body = pat[i + 1:j] if j > 0 else ""
            if j < 0 or not re.fullmatch(r"[A-Za-z0-9_]*(\|[A-Za-z0-9_]*)*", body) or body.startswith("?"):
                return None
            atoms.append(("alts", body.split("|")))
            i = j + 1
        elif c == "$":
            atoms.append(("eol",))
            i += 1
        elif c.isalnum() or c == "_":
            j = i
            while j < len(pat) and (pat[j].isalnum() or pat[j] == "_"):
                j += 1
            if j < len(pat) and pat[j] in "*+?{":
                return None
            atoms.append(("alts", [pat[i:j]]))
            i = j
        else:
            return None
    return ic, atoms


def pattern_sexp(parsed):
    ic, atoms = parsed
    out = []
    for a in atoms:
        if a[0] == "star":
            out.append("(star)")
        elif a[0] == "eol":
            out.append("(eol)")
        elif a[0] == "chr":
            out.append("(chr %s)" % hexb(a[1].encode()))
        else:
            out.append("(alts %s)" % names_sexp(a[1]))
    return "(%d (%s))" % (1 if ic else 0, " ".join(out))


def is_dot_ext_form(parsed):
    """`^.*\\.(e1|e2|…)$` with IGNORECASE: the form C16_supported_iff_dot_ext is about"""
    if parsed is None:
        return False
    ic, atoms = parsed
    return ic and len(atoms) == 4 and atoms[0] == ("star",) and atoms[1] == ("chr", ".") and atoms[2][0] == "alts" \
        and all(atoms[2][1]) and atoms[3] == ("eol",)


def live_patterns(ctx, handlers):
    """parsed patterns of the live handlers; a pattern that is not of the dot-extension form is a broken tie (the theorem
    no longer speaks about this code) — the model is then fed the documented meaning, so that the correspondence shows where"""
    out = []
    for h in handlers:
        parsed = parse_pattern(h)
        if not is_dot_ext_form(parsed):
            pat = h.extensions.pattern if hasattr(h.extensions, "pattern") else h.extensions
            ctx.corr_checked += 1
            ctx.corr_disagreements.append({"function": "handler pattern form (C16_supported_iff_dot_ext: ^.*\\.(e1|e2)$, IGNORECASE)",
                                           "line": "pattern of %s" % getattr(h, "__name__", h), "impl": repr(pat),
                                           "model": "^.*\\.(…)$ IGNORECASE", "meta": {"pattern": pat}})
        if parsed is None:
            parsed = (True, [("star",), ("chr", "."), ("alts", handler_exts([h])), ("eol",)])
        out.append(parsed)
    return out


def own_natural_key(name):
    """the documented order of the listing, written independently: maximal runs of ASCII digits compare as numbers, the
    text between them as text; a name is (text, number, text, …)"""
    out, i = [], 0
    while True:
        j = i
        while j < len(name) and not ("0" <= name[j] <= "9"):
            j += 1
        out.append((0, name[i:j]))
        if j == len(name):
            return out
        i = j
        while j < len(name) and "0" <= name[j] <= "9":
            j += 1
        out.append((1, int(name[i:j])))
        i = j


def judge_order(ctx, case, kind, shown):
    keys = [own_natural_key(n) for n in shown]
    if any(keys[i] > keys[i + 1] for i in range(len(keys) - 1)):
        ctx.oracle_fail("listing is not in natural (text/number) order", dict(case, kind=kind), shown[:12],
                        sorted(shown, key=own_natural_key)[:12])
        return True
    return False


SPELL_PARTS = ["a", "b2", "data", "..", ".", "", "x.nc", "..x", "r", "sub", "10", "a b"]


def pure_cases(ctx, rng, handlers, exts, n):
    """the pure path functions against os.path / re / sorted(key=alphanum_key)"""
    from pydap.wsgi.app import alphanum_key, supported

    cases = []
    names = ["a", "b2", "r", "r2", "data", "..", ".", "", "x.nc", "x.NC", ".nc", "a.b.c", "..x", "a.", "t.csv", "T.CsV",
             "catalog.xml", "10", "9", "010", "f10", "f9", "f", "a1b2", "a1b10", "a01b", "_", "-", "~", "a b", "csv", ".csv",
             "x.csvx", "x.cdf", "y.nc4", "x.nc.dds", "...", ". .", "1", "01"]

    def rname():
        if rng.random() < 0.6:
            return rng.choice(names)
        return "".join(rng.choice("ab.19_Z-") for _ in range(rng.randint(0, 6)))

    for _ in range(n):
        root = [s for s in (rname() for _ in range(rng.randint(0, 3))) if s not in ("", ".", "..") and "/" not in s]
        rootp = "/" + "/".join(root)
        pi = "/".join(rname() for _ in range(rng.randint(0, 6)))
        if rng.random() < 0.7:
            pi = "/" + pi
        if rootp == "/" and pi.startswith("//"):
            pi = pi.lstrip("/")          # POSIX keeps exactly two leading slashes; not reachable from abspath(root)
        got = os.path.abspath(os.path.join(rootp, *pi.split("/")))
        if got.startswith("//"):
            continue
        cases.append(("path-resolve %s %s" % (names_sexp(root), hexb(pi.encode())), hexb(got.encode()),
                      {"root": rootp, "path_info": pi}))
        ctx.count(("resolve", rootp, pi), ".." in pi or "//" in pi, tag="pure:resolve")
        p = segs_of(got)
        if rng.random() < 0.5 and p:
            # near misses of the root: extend / shorten the last component, drop or add a level
            k = rng.randint(0, len(p))
            root2 = p[:k]
            if root2 and rng.random() < 0.6:
                root2[-1] = root2[-1] + rng.choice(["2", "-old", "x"]) if rng.random() < 0.5 else root2[-1][:-1] or "q"
        else:
            root2 = root
        r2 = "/" + "/".join(root2)
        fixed = got == r2 or got.startswith(os.path.join(r2, ""))
        cases.append(("path-contained %s %s" % (names_sexp(root2), names_sexp(p)),
                      "%d %d" % (1 if fixed else 0, 1 if got.startswith(r2) else 0), {"root": r2, "path": got}))
        ctx.count(("contained", r2, got), True, tag="pure:contained:%s" % ("in" if under(root2, p) else "out"))
        # the specification itself: component prefix
        if fixed != under(root2, p):
            ctx.oracle_fail("separator-aware text test differs from component prefix", {"root": r2, "path": got}, fixed,
                            under(root2, p))
        s = rname()
        if "/" not in s:
            a, b = os.path.splitext(s)
            cases.append(("path-splitext %s" % hexb(s.encode()), "(%s %s)" % (hexb(a.encode()), hexb(b.encode())), {"s": s}))
            ctx.count(("splitext", s), "." in s, tag="pure:splitext")
        lst = list(dict.fromkeys(rname() for _ in range(rng.randint(0, 7))))
        lst = [x for x in lst if x.isascii()]
        try:
            srt = sorted(lst, key=alphanum_key)
            cases.append(("path-sort %s" % names_sexp(lst), names_sexp(srt), {"names": lst}))
            ctx.count(("sort", tuple(lst)), len(lst) > 1, tag="pure:sort")
        except TypeError:
            pass
        fp = "/" + "/".join(p + [s]) if "/" not in s and s else got
        cases.append(("path-hashandler %s %s" % (names_sexp(exts), segs_sexp(fp)),
                      "1" if supported(fp, handlers) else "0", {"path": fp}))
        ctx.count(("handler", fp), True, tag="pure:handler")
    # ---- the configured directory as spelled: os.path.abspath under a chosen working directory -------------------------
    real_getcwd = os.getcwd
    for _ in range(n // 2):
        cwd = [x for x in (rname() for _ in range(rng.randint(0, 3))) if x not in ("", ".", "..") and "/" not in x]
        cwdp = "/" + "/".join(cwd)
        sp = "/".join(rng.choice(SPELL_PARTS) if rng.random() < 0.7 else rname() for _ in range(rng.randint(0, 5)))
        r = rng.random()
        if r < 0.45:
            sp = "/" + sp
        elif r < 0.55:
            sp = "./" + sp
        if rng.random() < 0.3:
            sp += rng.choice(["/", "//", "/.", "/.."])
        os.getcwd = lambda: cwdp                      # posixpath.abspath asks os.getcwd() for a relative path
        try:
            got = os.path.abspath(sp)
        finally:
            os.getcwd = real_getcwd
        want = "/" + "/".join(spec_resolve(cwdp if not sp.startswith("/") else "/", sp))
        if sp.startswith("//") and not sp.startswith("///"):
            ctx.count(("abspath", cwdp, sp), False, tag="pure:abspath:leading-double-slash (outside the model)")
            continue
        if got != want:
            ctx.oracle_fail("os.path.abspath differs from the stack resolver", {"pure": "abspath", "cwd": cwdp, "spelling": sp}, got, want)
        cases.append(("path-abspath %s %s" % (names_sexp(cwd), hexb(sp.encode())), hexb(got.encode()), {"cwd": cwdp, "spelling": sp}))
        ctx.count(("abspath", cwdp, sp), sp != got, tag="pure:abspath:%s" % ("abs" if sp.startswith("/") else "rel"))
    # ---- the handlers' regular expressions as written, get_handler's first match ------------------------------------
    pats = live_patterns(ctx, handlers)
    pats_sexp = "(" + " ".join(pattern_sexp(p) for p in pats) + ")"
    allexts = [e for p in pats for a in p[1] if a[0] == "alts" for e in a[1]] or ["csv"]
    compiled = [re.compile(h.extensions) for h in handlers]
    stems = ["t", "T", "old", "export_", "x.", "a.b", "", ".", "..", "a b", "x.tar", "10", "r/x", "x\n", "q?"]
    for _ in range(n):
        e = rng.choice(allexts)
        e = "".join(c.upper() if rng.random() < 0.3 else c for c in e)
        r = rng.random()
        stem = rng.choice(stems)
        if r < 0.35:
            name = stem + "." + e
        elif r < 0.55:
            name = stem + e                                   # merely ends in the letters
        elif r < 0.65:
            name = stem + "." + e + rng.choice(["x", ".", " ", "\n", ".txt", "/"])
        elif r < 0.75:
            name = "." + e                                    # hidden file whose whole name is an extension
        else:
            name = rname()
        d = [x for x in (rname() for _ in range(rng.randint(0, 2))) if x not in ("", ".", "..") and "/" not in x]
        fp = "/" + "/".join(d + [name]) if "/" not in name else "/" + name.strip("/")
        if not fp.isascii() or "//" in fp or fp.endswith("/") or any(x in ("", ".", "..") for x in fp.split("/")[1:]):
            fp = "/" + "/".join(d + ["t." + e])
        which = next((i for i, c in enumerate(compiled) if c.match(fp)), None)
        sup = supported(fp, handlers)
        if sup != (which is not None):
            ctx.oracle_fail("supported() differs from the handlers' own patterns", {"pure": "supported", "path": fp}, sup, which)
        base = fp.rsplit("/", 1)[-1]
        documented = any(base.lower().endswith("." + x.lower()) for x in allexts) and "\n" not in fp
        if "\n" not in fp and sup != documented:
            ctx.oracle_fail("supported() is not 'the name ends in a dot and one of the handlers' extensions, in any case'",
                            {"pure": "supported", "path": fp}, sup, documented)
        h0 = rng.randrange(len(pats))
        cases.append(("path-rematch %s %s" % (pattern_sexp(pats[h0]), hexb(fp.encode())), "1" if compiled[h0].match(fp) else "0",
                      {"path": fp, "handler": h0}))
        cases.append(("path-gethandler %s %s" % (pats_sexp, segs_sexp(fp)), "none" if which is None else str(which), {"path": fp}))
        ctx.count(("rematch", fp), sup, tag="pure:rematch:%s" % ("supported" if sup else "letters-only" if base.lower().endswith(
            tuple(x.lower() for x in allexts)) else "no"))
    # names outside ASCII (oracle only: the line protocol is ASCII): digits of other scripts are text to `[0-9]`
    for lst in (["\u0663", "a.txt"], ["x\u00b2", "2", "b"], ["\u0967\u0968", "12", "t.csv"], ["\uff11", "1", "a1"]):
        try:
            sorted(lst, key=alphanum_key)
        except TypeError:
            ctx.oracle_fail("sorting a directory's names raises TypeError (text chunk compared with number chunk)",
                            {"pure": "sort", "names": lst}, "TypeError", "a sorted listing")
        ctx.count(("sortpy-u", tuple(lst)), True, tag="pure:sortpy:non-ascii-digits")
    # ---- alphanum_key and Python's own (partial) comparison of the keys --------------------------------------------
    digitish = ["2020_01.csv", "1", "01", "1a", "a1", "10", "9", "f9", "f10", "f010", "t.csv", "", "_", "0", "00", "a", "B", "007b"]
    for _ in range(n // 2):
        lst = list(dict.fromkeys(rng.choice(digitish) if rng.random() < 0.5 else rname() for _ in range(rng.randint(0, 8))))
        lst = [x for x in lst if x.isascii()]
        try:
            impl = names_sexp(sorted(lst, key=alphanum_key))
        except TypeError:
            impl = "(err TypeError)"
            ctx.oracle_fail("sorting a directory's names raises TypeError (text chunk compared with number chunk)",
                            {"pure": "sort", "names": lst}, "TypeError", "a sorted listing")
        cases.append(("path-sortpy %s" % names_sexp(lst), impl, {"names": lst}))
        ctx.count(("sortpy", tuple(lst)), len(lst) > 1, tag="pure:sortpy")
        if lst:
            k = alphanum_key(lst[0])
            cases.append(("path-key %s" % hexb(lst[0].encode()), "(" + " ".join(
                "(n %d)" % c if isinstance(c, int) else "(s %s)" % hexb(str(c).encode()) for c in k) + ")", {"name": lst[0]}))
    return cases


def explore(ctx, tier, search=False):
    install_hooks()
    n_layouts = 2 if tier == "quick" else 8
    alpha_size = 16 if tier == "quick" else 22
    n_sampled = 1500 if tier == "quick" else 12000
    n_hist = 5 if tier == "quick" else 30
    if search:
        n_layouts, alpha_size, n_sampled = 4, 20, 6000
    exts_seen = handlers_seen = None
    for li in range(n_layouts):
        label = "layout-%d%s" % (li, "-search" if search else "")
        rng = ctx.rng(label)
        idx = (ctx.seed * n_layouts + li) % (len(ROOT_NAMES) + 2)
        L = Layout(rng, idx)
        L.seed_info = {"seed": ctx.seed, "label": label, "idx": idx, "spell": (ctx.seed * n_layouts + li + (5 if search else 0)) % N_SPELLINGS}
        try:
            srv = Server(L)
            exts_seen, handlers_seen = srv.exts, srv.handlers
            alpha, full = L.alphabet(rng, alpha_size)
            urls = urls_for(L, rng, alpha, full, n_sampled, 3)
            fs = L.fs_sexp()
            cases = []
            recs = {}
            trace_line = {}
            for url in urls:
                r = srv.request(url)
                recs[url] = r["events"]
                tag, failed = srv.judge(ctx, r)
                impl = srv.canon(r)
                pi = r["path_info"]
                if not pi.isascii() or any(ord(c) < 32 for c in pi):
                    continue
                meta = {"layout": L.seed_info, "root": L.root_name, "url": url, "spelling": srv.spelling, "cwd": srv.cwd}
                cases.append(("path-serve-spelled %s %s %s" % (srv.head, hexb(pi.encode()), fs), impl, meta))
                trace_line[url] = "path-trace %s %s %s" % (srv.head_normal, hexb(pi.encode()), fs)
                nseg = url.count("/")
                ctx.count((li, url), tag not in ("notfound",), tag="%s:%s" % ("<=3" if nseg <= 3 else ">3", tag),
                          sample={"root": L.root_name, "url": url, "outcome": impl[:80]})
            ctx.correspond("DapServer.__call__ outcome", cases)
            # every OTHER spelling of the same directory (absolute and relative), on a fixed family of requests: each must
            # be judged like the canonical one, and the model is fed that spelling
            scases = []
            probe = ["/", "", "/t.csv", "/t.csv.dds", "/.csv.dds", "/sub/", "/sub/catalog.xml", "/catalog.xml", "/nope",
                     "/../%s/secret.txt" % L.siblings[0], "/../%s/" % L.siblings[0], "/..", "/sub/../u.txt", "/oldcsv.dds",
                     "/../%s/t.csv" % L.root_name, "/./sub/..//t.csv.das"]
            for k in range(N_SPELLINGS):
                sv = Server(L, spell=k)
                for url in probe:
                    r = sv.request(url)
                    case_tag, failed = sv.judge(ctx, dict(r, spell=k))
                    scases.append(("path-serve-spelled %s %s %s" % (sv.head, hexb(r["path_info"].encode()), fs), sv.canon(r),
                                   {"layout": L.seed_info, "root": L.root_name, "url": url, "spell": k, "spelling": sv.spelling, "cwd": sv.cwd}))
                    ctx.count((li, "spell", k, url), True, tag="spelling:%s:%s" % ("relative" if not sv.spelling.startswith("/") else "absolute", case_tag))
            ctx.correspond("DapServer(spelling).__call__ outcome, every spelling of the data directory", scases)
            # histories (they change the layout: run last)
            interesting = [(c[2]["url"], c[1]) for c in cases if c[2]["url"].startswith("/")]
            rng.shuffle(interesting)
            hcases = []
            for hi in range(n_hist):
                hr = ctx.rng("%s-hist-%d" % (label, hi))
                run_history(ctx, L, gen_history(L, hr, interesting), {"layout": L.seed_info, "root": L.root_name, "hist": hi},
                            hcases)
            ctx.correspond("DapServer over a request history (one object)", hcases)
            # the recorded accesses of the implementation are among the model's accesses (+ handler internals)
            tcases = [c for c in cases if c[1].startswith(("(listing", "(catalog", "(file", "(dap"))][:400]
            outs = common.run_driver([trace_line[c[2]["url"]] for c in tcases])
            for (line, impl, meta), tr in zip(tcases, outs):
                events = recs[meta["url"]]
                model_paths = set(re.findall(r"\((?:stat|listdir|serve|handler) (\([^()]*\))\)", tr))
                impl_paths = set(segs_sexp(os.path.abspath(p)) for e, p in events
                                 if os.path.abspath(p).startswith(L.base))
                extra = set()
                for p in impl_paths - model_paths:
                    # handler internals: the data file itself and its JSON side-car
                    if not (impl.startswith("(dap") and any(p[:-1] == m[:-1] + "2e6a736f6e" or p == m for m in model_paths)):
                        extra.add(p)
                ctx.corr_checked += 1
                if extra:
                    ctx.corr_disagreements.append({"function": "accesses of DapServer.__call__", "line": line[:300],
                                                   "impl": sorted(extra)[:5], "model": tr[:300], "meta": meta})
        finally:
            L.close()
    prng = ctx.rng("pure" + ("-search" if search else ""))
    ctx.correspond("path functions (resolve/contained/splitext/sort/handler match)",
                   pure_cases(ctx, prng, handlers_seen, exts_seen, 3000 if tier == "quick" else 40000))
    ctx.exhaustive = True


def run(ctx):
    ctx.rule = ("per generated layout (root + prefix-sharing siblings + nested dirs + supported/unsupported files): every "
                "request path of <=3 segments over the layout's alphabet (names, '..', '.', '', percent-encoded forms, "
                "sibling names, DAP suffixes, catalog.xml) exhaustively, 4-5 segments and absolute-path injections "
                "sampled; non-trivial = outcome other than 'not found'; distinct by (layout, url)")
    ctx.assumptions = ["webob percent-decoding of PATH_INFO, os.path.join/abspath/splitext, os.listdir/stat are trusted "
                       "(compared on every case); symbolic links are out of scope",
                       "an ExtensionNotSupportedError escaping the application is counted as 'rejected as unsupported'",
                       "a DAP error document (status >= 400) for '<supported file>.<unknown response>' is counted as refused"]
    ctx.proof_phase()
    explore(ctx, ctx.tier)
    from collections import Counter
    ctx.extra["oracle_failure_kinds"] = dict(Counter(f["what"] for f in ctx.oracle_failures))
    return ctx.finish(search=lambda c: explore(c, "thorough", search=True))


def replay(payload):
    """re-run the recorded failing request in a re-generated layout; True when the property holds"""
    f = payload.get("failure")
    if not f:
        print("nothing to replay: %s" % payload.get("no_longer_checks"))
        return False
    install_hooks()
    case = f["case"]
    if case.get("pure") == "abspath":
        real = os.getcwd
        os.getcwd = lambda: case["cwd"]
        try:
            got = os.path.abspath(case["spelling"])
        finally:
            os.getcwd = real
        want = "/" + "/".join(spec_resolve(case["cwd"] if not case["spelling"].startswith("/") else "/", case["spelling"]))
        print("abspath %r from %r -> %r, expected %r" % (case["spelling"], case["cwd"], got, want))
        return got == want
    if case.get("pure") == "supported":
        from pydap.handlers.lib import load_handlers
        from pydap.wsgi.app import supported
        hs = list(load_handlers())
        fp = case["path"]
        sup = supported(fp, hs)
        documented = any(fp.rsplit("/", 1)[-1].lower().endswith("." + x) for x in handler_exts(hs))
        print("supported(%r) = %r, name ends in dot + extension: %r" % (fp, sup, documented))
        return sup == documented
    if case.get("pure") == "sort":
        from pydap.wsgi.app import alphanum_key
        try:
            out = sorted(case["names"], key=alphanum_key)
        except TypeError as e:
            print("sorting %r raises TypeError: %s" % (case["names"], e))
            return False
        keys = [own_natural_key(n) for n in out]
        print("sorted: %r" % (out,))
        return all(keys[i] <= keys[i + 1] for i in range(len(keys) - 1))
    if "layout" not in case:
        print("pure case: %r" % (case,))
        root, path = case["root"], case["path"]
        fixed = path == root or path.startswith(os.path.join(root, ""))
        return fixed == under(segs_of(root), segs_of(path))
    info = case["layout"]
    ctx = common.Ctx("C16", payload.get("tier", "quick"), info["seed"])
    L = Layout(ctx.rng(info["label"]), info["idx"])
    L.seed_info = info
    try:
        if L.root_name != case["root"]:
            print("layout could not be regenerated")
            return False
        if "history" in case:
            failed = run_history(ctx, L, [tuple(st) for st in case["history"]], {"layout": info, "root": L.root_name}, [])
        else:
            srv = Server(L, spell=case.get("spell"))
            r = srv.request(case["url"])
            tag, failed = srv.judge(ctx, r)
        for fl in ctx.oracle_failures:
            print("observed %r expected %r (%s)" % (fl["observed"], fl["expected"], fl["what"]))
        return not failed
    finally:
        L.close()
