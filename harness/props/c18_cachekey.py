"""C18 (cache-key part) — helper for harness/props/c18.py, not a check by itself.

Property: two requests share a cache entry only if they have the same URL, or, after metadata
consolidation, the same declared shared-dimension constraint under the declared common base.

`explore(ctx, tier)` calls the REAL `patch_session_for_shared_dap_cache` on a memory-backed
`requests_cache.CachedSession` and computes real keys with `session.cache.create_key(prepared)`.

(a) correspondence `custom_create_key`: model (lean/PydapModel/CacheKey.lean, command `ck-key`) against the
    implementation, on the parts of the prepared URL (urlparse / parse_qs / unquote are trusted library functions:
    the parts handed to the model are computed with exactly those functions, as the code does).
(b) direct oracle on pairs, independent of the model (segments by `str.split("/")`, no regex, no startswith):
    key1 == key2  ->  same unpatched key (requests-cache's own URL normalisation)
                      or (same decoded ce, in the shared set, same scheme and netloc, and
                          (both under the base on segment boundaries with netloc == base netloc
                           or both on the Earthdata host with the same provider/collection: NOT the property's wording,
                              reported under the open finding C18.earthdata_collection_outside_base (round 7))).

`replay_case(case) -> bool` re-runs one recorded pair on the implementation (True = property holds).
"""
import itertools
from urllib.parse import parse_qs, unquote, urlparse

from common import hexb

EARTHDATA = "opendap.earthdata.nasa.gov"

# ------------------------------------------------------------------------------------------------
# implementation side


def _load():
    import requests
    import requests_cache

    from pydap.client import compute_base_url_prefix, patch_session_for_shared_dap_cache

    return requests, requests_cache, compute_base_url_prefix, patch_session_for_shared_dap_cache


class Config:
    """one patched session: (shared constraints, known_url_list) + an unpatched twin for the original keys"""

    def __init__(self, shared, known):
        requests, requests_cache, cbp, patch = _load()
        self.requests = requests
        self.shared = list(shared)
        self.known = list(known) if known else None
        self.plain = requests_cache.CachedSession(backend="memory")
        self.session = requests_cache.CachedSession(backend="memory")
        patch(self.session, shared_vars=set(self.shared), known_url_list=self.known)
        if self.known:
            b = urlparse(cbp(self.known))
            self.base = (b.scheme, b.netloc, b.path)
        else:
            self.base = None
        self._memo = {}
        self._cls = {}
        self.ident = (tuple(self.shared), tuple(self.known or ()))

    def describe(self):
        return {"shared": self.shared, "known_url_list": self.known}

    def keys(self, url):
        """-> (prepared url, patched key, unpatched key)"""
        r = self._memo.get(url)
        if r is None:
            p = self.requests.Request("GET", url).prepare()
            r = (p.url, self.session.cache.create_key(p), self.plain.cache.create_key(p))
            self._memo[url] = r
        return r

    def cls(self, url):
        c = self._cls.get(url)
        if c is None:
            c = self._cls[url] = url_class(self, self.keys(url)[0])
        return c


def parts(prepared_url):
    """the already-parsed request parts the model works on (trusted: urlparse, unquote, parse_qs)"""
    u = urlparse(prepared_url)
    ce = parse_qs(u.query).get("dap4.ce", [None])[0]
    if ce:
        ce = unquote(ce)
    return u.scheme, u.netloc, unquote(u.path), ce


# ------------------------------------------------------------------------------------------------
# canonical forms


def tx(s):
    return hexb(s.encode("utf-8", "surrogatepass"))


def model_line(cfg, prepared_url):
    sch, host, path, ce = parts(prepared_url)
    base = "none" if cfg.base is None else "(%s %s %s)" % tuple(tx(x) for x in cfg.base)
    return "ck-key (%s) %s (%s %s %s %s)" % (" ".join(tx(s) for s in sorted(cfg.shared)), base, tx(sch), tx(host),
                                             tx(path), "none" if ce is None else tx(ce))


def impl_canon(key, plain_key):
    if key == plain_key:
        return "orig"
    # exact inverse of  f"{scheme}://{netloc}{path}/shared.xx?{urlencode({'dap4.ce': ce})}" :
    # urlencode output holds no '?', the scheme no "://", the netloc no '/'
    if "?" not in key or "://" not in key:
        return "unparsable:" + key
    left, q = key.rsplit("?", 1)
    sch, rest = left.split("://", 1)
    i = rest.find("/")
    host, path = (rest, "") if i < 0 else (rest[:i], rest[i:])
    qs = parse_qs(q, keep_blank_values=True)
    if list(qs) != ["dap4.ce"] or len(qs["dap4.ce"]) != 1:
        return "unparsable:" + key
    return "(norm %s %s %s %s)" % (tx(sch), tx(host), tx(path), tx(qs["dap4.ce"][0]))


# ------------------------------------------------------------------------------------------------
# the independent oracle


def collection_of(path):
    """first /providers/<x>/collections/<y> on segment boundaries (x, y non-empty); no regex"""
    seg = path.split("/")
    for i in range(1, len(seg) - 3):
        if seg[i] == "providers" and seg[i + 1] != "" and seg[i + 2] == "collections" and seg[i + 3] != "":
            return tuple(seg[i + 1:i + 4:2])
    return None


def under_segments(path, base_path):
    if path == base_path:
        return True
    b = base_path
    while b.endswith("/"):
        b = b[:-1]
    bs, ps = b.split("/"), path.split("/")
    return len(ps) > len(bs) and ps[:len(bs)] == bs


def may_share(cfg, pu1, pu2):
    """the right-hand side of the property for two prepared URLs with different unpatched keys"""
    s1, h1, p1, c1 = parts(pu1)
    s2, h2, p2, c2 = parts(pu2)
    if c1 is None or c1 != c2 or c1 not in cfg.shared:
        return False, "constraint differs or is not in the declared shared set"
    if (s1, h1) != (s2, h2):
        return False, "scheme or host differs"
    if cfg.base is not None and h1 == cfg.base[1] and under_segments(p1, cfg.base[2]) \
            and under_segments(p2, cfg.base[2]):
        return True, "both under the common base"
    if h1 == EARTHDATA:
        k1, k2 = collection_of(p1), collection_of(p2)
        if k1 is not None and k1 == k2:
            # round 7 (theorem C18_cache_key_earthdata_refuted): NOT the property's wording - the two requests are not both
            # under the declared common base; the Earthdata branch groups by provider/collection whatever was declared
            return True, EARTHDATA_ONLY
    return False, "not both under the declared common base (segment boundaries, base host) nor in one collection"


EARTHDATA_ONLY = "same Earthdata collection, not both under the declared common base"
K_EARTHDATA = "C18.earthdata_collection_outside_base"


def wit_earthdata():
    """the recorded witness of the open finding: no base declared at all, two granules of one collection -> one key.
    True = still fails"""
    cfg = Config(["/time[0:1:9]"], None)
    a = "https://" + EARTHDATA + "/providers/P/collections/C2/granules/g3.dap?dap4.ce=/time[0:1:9]"
    b = "https://" + EARTHDATA + "/providers/P/collections/C2/granules/g4.dap?dap4.ce=/time[0:1:9]"
    return cfg.keys(a)[1] == cfg.keys(b)[1] and cfg.keys(a)[2] != cfg.keys(b)[2]


def path_class(cfg, host, path):
    if host == EARTHDATA and collection_of(path) is not None:
        return "earthdata"
    if cfg.base is None:
        return "nobase"
    bp = cfg.base[2]
    if under_segments(path, bp):
        return "under" if host == cfg.base[1] else "otherhost"
    if path.startswith(bp):
        return "sibling"
    return "outside"


def url_class(cfg, pu):
    s, h, p, c = parts(pu)
    return path_class(cfg, h, p) + "/" + ("shared" if (c is not None and c in cfg.shared) else "notshared")


def check_pair(ctx, cfg, u1, u2, how):
    pu1, k1, o1 = cfg.keys(u1)
    pu2, k2, o2 = cfg.keys(u2)
    t1, t2 = cfg.cls(u1), cfg.cls(u2)
    tag = "%s|%s|%s" % (min(t1, t2), max(t1, t2), "sameurl" if o1 == o2 else ("hit" if k1 == k2 else "miss"))
    ctx.count((cfg.ident, u1, u2), nontrivial=(o1 != o2), tag=tag,
              sample={"url1": u1, "url2": u2, "same_key": k1 == k2} if (k1 == k2 and o1 != o2) else None)
    if k1 != k2 or o1 == o2:
        return True
    ok, why = may_share(cfg, pu1, pu2)
    if not ok or why == EARTHDATA_ONLY:
        case = dict(cfg.describe(), url1=u1, url2=u2, how=how)
        ctx.oracle_fail("cache key collision" if not ok else "cache entry shared outside the declared common base (Earthdata grouping)",
                        case, {"key1": k1, "key2": k2, "classes": [t1, t2]},
                        "distinct keys: " + why, cls=None if not ok else K_EARTHDATA,
                        size=len(u1) + len(u2) + 10 * len(cfg.known or ()))
    return ok


def replay_case(case):
    cfg = Config(case["shared"], case.get("known_url_list"))
    pu1, k1, o1 = cfg.keys(case["url1"])
    pu2, k2, o2 = cfg.keys(case["url2"])
    if k1 != k2 or o1 == o2:
        return True
    ok, why = may_share(cfg, pu1, pu2)
    return ok and why != EARTHDATA_ONLY


# ------------------------------------------------------------------------------------------------
# generators

SHARED = ["/time[0:1:9]", "/lat[0:1:4]"]
BASEHOST = "data.example.org"
HOSTS = [BASEHOST, "other.example.org", EARTHDATA]
KNOWN = ["http://data.example.org/data/set/a.nc", "http://data.example.org/data/set/sub/b.nc",
         "http://data.example.org/data/set/c.nc"]
KNOWN_ED = ["https://opendap.earthdata.nasa.gov/providers/POCLOUD/collections/C1/granules/g1",
            "https://opendap.earthdata.nasa.gov/providers/POCLOUD/collections/C1/granules/g2"]
PATHS = [
    "/data/set/c.nc.dap", "/data/set/sub/b.nc.dap", "/data/%73et/e%20f.nc.dap", "/data/set",          # under
    "/data/set2/a.nc.dap", "/data/setX/sub/b.nc.dap",                                               # siblings
    "/other/d.nc.dap", "/data/d.nc.dap", "",                                                        # outside
    "/providers/POCLOUD/collections/C1/granules/g1.dap", "/providers/POCLOUD/collections/C1/granules/g2.dap",
    "/providers/POCLOUD/collections/C2/granules/g1.dap", "/providers/OTHER/collections/C1/granules/g1.dap",
    "/hyrax/providers/POCLOUD/collections/C1/g3.dap", "/providers//collections/C1/g.dap",
    "/providers/POCLOUD/collections", "/providers/POCLOUD/collections/C1",
    "/providers/POCLOUD/collections/C10/granules/g1.dap",
]
QUERIES = [
    "", "dap4.ce=/time%5B0:1:9%5D", "dap4.ce=/time[0:1:9]", "dap4.ce=/lat%5B0:1:4%5D", "dap4.ce=/sst%5B0:1:9%5D",
    "a=1&dap4.ce=/time%5B0:1:9%5D", "dap4.ce=/time%5B0:1:9%5D&a=1", "dap4.ce=/time%5B0:1:9%5D&dap4.checksum=true",
    "dap4.checksum=true&dap4.ce=/lat%5B0:1:4%5D", "dap4.ce=/sst%5B0:1:9%5D&dap4.ce=/time%5B0:1:9%5D",
    "dap4.ce=/time%255B0:1:9%255D", "dap4.ce=/time%5B0:1:9%5D;/lat%5B0:1:4%5D", "dap4.checksum=true",
]


def quick_urls():
    out = []
    for h in HOSTS:
        for p in PATHS:
            for q in QUERIES:
                out.append("http://" + h + p + ("?" + q if q else ""))
    # scheme, port and userinfo variations on a few representatives
    for pre in ("https://" + BASEHOST, "http://" + BASEHOST + ":8080", "http://u@" + BASEHOST,
                "https://" + EARTHDATA):
        for p in (PATHS[0], PATHS[4], PATHS[9]):
            for q in QUERIES[1:4]:
                out.append(pre + p + "?" + q)
    return out


SEGS = ["data", "set", "set2", "setX", "se", "sub", "providers", "collections", "POCLOUD", "C1", "C2", "a.nc.dap",
        "b.nc.dap", "", "%73et", "x y", "granules"]
VARS = ["/time[0:1:9]", "/lat[0:1:4]", "/sst[0:1:9]", "/time", "time[0:1:9]"]


def rand_path(rng):
    n = rng.choice([0, 1, 2, 2, 3, 3, 4, 4, 5, 6])
    if n == 0:
        return ""
    if rng.random() < 0.35:
        head = rng.choice([["data", "set"], ["data", "set2"], ["data", "setX"], ["data", "set", "sub"],
                           ["providers", "POCLOUD", "collections", "C1"],
                           ["providers", "POCLOUD", "collections", "C2"]])
        segs = head + [rng.choice(SEGS) for _ in range(rng.randrange(0, 3))]
    else:
        segs = [rng.choice(SEGS) for _ in range(n)]
    return "/" + "/".join(segs)


def rand_query(rng):
    items = []
    if rng.random() < 0.85:
        v = rng.choice(VARS)
        if rng.random() < 0.6:
            v = v.replace("[", "%5B").replace("]", "%5D")
        items.append("dap4.ce=" + v)
    for extra in ("a=1", "dap4.checksum=true", "b=2"):
        if rng.random() < 0.2:
            items.append(extra)
    rng.shuffle(items)
    return "&".join(items)


def rand_url(rng, hosts):
    p, q = rand_path(rng), rand_query(rng)
    return rng.choice(["http", "http", "https"]) + "://" + rng.choice(hosts) + p + ("?" + q if q else "")


def rand_config(rng):
    _, _, cbp, _ = _load()
    shared = rng.sample(VARS, rng.randrange(0, 4))
    known = None
    r = rng.random()
    if r < 0.75:
        host = rng.choice(HOSTS + ["localhost:8001"])
        head = rng.choice([["data", "set"], ["data"], ["data", "set", "sub"], ["data", "se"],
                           ["providers", "POCLOUD", "collections", "C1", "granules"]])
        known = ["http://" + host + "/" + "/".join(head + [f]) for f in ("a.nc", "b.nc", "sub/c.nc")]
        try:
            cbp(known)
        except ValueError:
            known = None
    return Config(shared, known)


# ------------------------------------------------------------------------------------------------


def run_config(ctx, cfg, urls, pairs, how, corr):
    for u in urls:
        pu, k, o = cfg.keys(u)
        corr.append((model_line(cfg, pu), impl_canon(k, o), dict(cfg.describe(), url=u)))
    for (u1, u2) in pairs:
        check_pair(ctx, cfg, u1, u2, how)


def explore(ctx, tier):
    corr = []
    urls = quick_urls()
    configs = [Config(SHARED, KNOWN), Config(SHARED, None), Config(SHARED, KNOWN_ED), Config([], KNOWN)]
    for ci, cfg in enumerate(configs):
        # all pairs of the pool on the main configuration, every third URL of it on the others
        pool = urls if ci == 0 else urls[ci % 3::3]
        run_config(ctx, cfg, pool, itertools.combinations(pool, 2), "cross-product", corr)
    rng = ctx.rng("ck")
    n_cfg = ctx.budget(12, 150)
    n_url = ctx.budget(60, 140)
    for _ in range(n_cfg):
        cfg = rand_config(rng)
        hosts = list(HOSTS)
        if cfg.base is not None and cfg.base[1] not in hosts:
            hosts.append(cfg.base[1])
        us = sorted(set(rand_url(rng, hosts) for _ in range(n_url)))
        run_config(ctx, cfg, us, itertools.combinations(us, 2), "random", corr)
    ctx.correspond("custom_create_key", corr)
    return {"configs": len(configs) + n_cfg, "correspondence_cases": len(corr)}
