"""C13 — serving a request never changes what any other request returns.

Proof: lean/Props/C13.lean (generic noninterference for any schedule + the handler pipeline obeys the
ownership discipline).  Tie: the real handler under write/allocation tracing vs the model's write log.
Oracles on the implementation: (o) no write to an object the request did not allocate, (a) histories
against one application vs a fresh application per request + deep snapshot, (b) deterministic thread
schedules (c13_sched.py)."""
import re
import threading
import zlib
from collections import Counter

import common  # noqa: F401
from props import c13_fix as F
from props import c13_modstate as M
from props import c13_rows as R
from props import c13_sched as S
from props import c13_trace as T

LEVEL = "proof"
EXACT_STAGES = ("copy", "selection", "wrap", "projection", "ssf-projection")
FUNCTION = re.compile(r"([^(]*)\((.*)\)")


# ---- spec / request -> model line ---------------------------------------------------------------
def node_sexp(v, tops=None):
    k = v[0]
    if k == "base":
        return "(b %s %d)" % (v[1], 1 if v[3] else 0)
    if k == "view":
        return "(b %s 1)" % v[1]
    if k == "alias":        # the same object a second time: for the copy stage (which clones per container) one more node
        return node_sexp(tops[v[2]], tops)
    if k == "struct":
        return "(c s %s (%s))" % (v[1], " ".join(node_sexp(c, tops) for c in v[3]))
    if k == "grid":
        return "(c g %s (%s))" % (v[1], " ".join(["(b %s 1)" % v[1]] + ["(b %s 1)" % d for d, _ in v[4]]))
    if k in ("seq", "lseq"):
        return "(c q %s (%s))" % (v[1], " ".join("(b %s 1)" % c[0] for c in v[3]))
    raise ValueError(k)


def spec_sexp(spec):
    tops = {v[1]: v for v in spec["vars"]}
    return "(c d %s (%s))" % (spec["name"], " ".join(node_sexp(v, tops) for v in spec["vars"]))


def seq_ids(spec):
    return [".".join(p) for p, v in F.leaves(spec) if F.is_seq(v)]


def model_request(spec, url):
    """the request as the pipeline sees it after the real parse_ce / fix_shorthand; None when the
    model does not cover it (malformed)"""
    from pydap.lib import fix_shorthand
    from pydap.parsers import parse_ce

    path, _, query = url.partition("?")
    if "." not in path:
        return None
    response = path.rsplit(".", 1)[1]
    from urllib.parse import unquote
    query = unquote(query)
    try:
        projection, selection = parse_ce(query)
        called = any(s for s in selection if FUNCTION.match(s)) or any(p for p in projection if isinstance(p, str))
        if response == "das":
            projection, selection, called = [], [], False
        ds = F.build_dataset(spec)
        plain = [s for s in selection if not FUNCTION.match(s)]
        clauses = []
        for sid in seq_ids(spec):
            for cond in plain:
                if re.match(r"%s\.[^\.]+(<=|<|>=|>|=|!=)" % re.escape(sid), cond):
                    clauses.append(sid)
        if called:
            fixed = fix_shorthand([p for p in projection], ds) if projection else []
            base = [p for p in fixed if not isinstance(p, str)]
            proj, proj2 = ([[("x", ())]] if projection else []), base   # proj only says "a projection was given"
        else:
            proj, proj2 = (fix_shorthand(projection, ds) if projection else []), []
    except Exception:
        return None

    def paths(ps):
        return "(" + " ".join("(" + " ".join("(%s %d)" % (n, 1 if s else 0) for n, s in p) + ")" for p in ps) + ")"
    for ps in (proj, proj2):
        for p in ps:
            for n, _ in p:
                if not re.match(r"^[A-Za-z0-9_]+$", n):
                    return None
    return "(req %s (%s) %d %s)" % (paths(proj), " ".join(clauses), 1 if called else 0, paths(proj2))


def summary(events, label_owned=True):
    c = Counter("%s|%s|%s|%s" % (st, cls, f, "T" if own else "F") for st, cls, f, own in events
                if st in EXACT_STAGES)
    return " ".join("%s=%d" % (k, c[k]) for k in sorted(c))


# ---- one traced request: ownership oracle + correspondence case -----------------------------------
_RECENT = []   # the traced requests served earlier in this process (module-level state in pydap would link them)
_BREAKS = []   # {"label", "spec", "url"}: a module-level container of pydap changed while this request was served


def served(ctx, spec, url, before):
    """module-level half of the ownership oracle: called after `url` was served, with the snapshot taken before"""
    after = M.snapshot_all()
    for label in M.changed(before, after):
        _BREAKS.append({"label": label, "spec": spec, "url": url,
                        "value": zlib.crc32(repr(after.get(label)).encode())})
    return after


_FLIP = [0]


def flip():
    """the served arrays are read-only in every other case: a frozen array turns an in-place write into an error the
    oracles see (compared with the answer of a fresh, WRITEABLE application), a writeable one lets the write happen so
    that the snapshot sees it even when the code catches and ignores the error a read-only array would raise"""
    _FLIP[0] += 1
    return _FLIP[0] % 2 == 0


def traced_case(ctx, spec, url, kind, cases, tid=7):
    prev = list(_RECENT[-3:])
    _RECENT.append([spec, url])
    frozen = flip()
    app, handler, ds = F.make_app(spec, frozen)
    T.share(ds)
    snap = F.snapshot(ds)
    mod = M.snapshot_all()
    out, tr = T.traced_call(app, url, "t%d" % tid, F.call)
    served(ctx, spec, url, mod)
    case = {"oracle": "ownership", "spec": spec, "url": url, "frozen": frozen}
    exp = F.call(F.make_app(spec, False)[0], url)
    if out != exp:
        ctx.oracle_fail("traced request on %s served arrays answered differently from a fresh writeable application"
                        % ("read-only" if frozen else "writeable"), case, F.show(out), F.show(exp),
                        size=len(repr(spec)) + len(url))
    if tr.foreign:
        leaked = any(f[3] != T.SHARED for f in tr.foreign)   # object of an *earlier request*: replay needs those too
        if leaked:
            case["earlier"] = prev
        ctx.oracle_fail("request wrote to an object it did not allocate", case,
                        sorted(set(map(str, tr.foreign)))[:6], "writes only to objects allocated by the request",
                        size=len(repr(spec)) + len(url) + (100000 if leaked else 0))
    if F.snapshot(ds) != snap:
        ctx.oracle_fail("served dataset changed by one request", case, "snapshot differs", "unchanged",
                        size=len(repr(spec)) + len(url))
    ok = out[0].startswith("200")
    line = model_request(spec, url) if ok else None
    stages = sorted(set(e[0] for e in tr.events))
    ctx.count(("own", repr(spec), url), ok, tag="traced:%s:%s" % (kind, "ok" if ok else "error"),
              sample={"url": url, "stages": stages, "writes": len(tr.events)})
    # lazy sequences: the IterData data object clones its template and keeps filter/map/slice lists of its own
    # (all allocated by the request, checked above); those internals are outside the model, so such datasets take
    # part in the ownership, module-state, history and schedule oracles but not in the write-log correspondence
    if line is not None and not any(F.is_lazy(v) for _, v in F.leaves(spec)):
        cases.append(("hs-log %d %s %s" % (tid, spec_sexp(spec), line), summary(tr.events),
                      {"url": url, "spec": spec}))
        cases.append(("hs-audit %d %s %s" % (tid, spec_sexp(spec), line), None, {"url": url, "audit": True}))
    return out


def run_correspondence(ctx, cases):
    """hs-log lines are compared; hs-audit lines must answer `true …` (the executable ownership audit of the
    very program the discipline theorem is about)"""
    logs = [c for c in cases if c[1] is not None]
    audits = [c for c in cases if c[1] is None]
    ctx.correspond("request pipeline write log (stage, class, field, owned) with multiplicities", logs)
    if audits:
        outs = common.run_driver([c[0] for c in audits])
        fixed = [(c[0], "true", c[2]) for c in audits]
        for (line, _, meta), o in zip(fixed, outs):
            ctx.corr_checked += 1
            if not o.startswith("true "):
                ctx.corr_disagreements.append({"function": "model program ownership audit", "line": line,
                                               "impl": "true", "model": o, "meta": meta})


# ---- oracle (a): histories ------------------------------------------------------------------------
_EXPECTED = {}


def expected(spec, url):
    """the answer of a fresh, writeable application to `url` alone.  For the fixed datasets it is computed once per
    process (on a fresh application) and kept; the replay computes it anew."""
    if not any(spec is s for s in (F.FIXED_SPEC, F.LAZY_SPEC, F.NEST_SPEC, F.SHARED_SPEC, F.CSV_SPEC)):
        return F.call(F.make_app(spec, False)[0], url)
    key = (spec["attrs"]["title"], url)
    if key not in _EXPECTED:
        _EXPECTED[key] = F.call(F.make_app(spec, False)[0], url)
    return _EXPECTED[key]


def history_case(ctx, spec, urls, where):
    frozen = flip()
    app, handler, ds = F.make_app(spec, frozen)
    snap = F.snapshot(ds)
    mod = M.snapshot_all()
    for i, url in enumerate(urls):
        got = F.call(app, url)
        mod = served(ctx, spec, url, mod)
        exp = expected(spec, url)
        case = {"oracle": "history", "spec": spec, "urls": urls[:i + 1], "frozen": frozen}
        if got != exp:
            ctx.oracle_fail("response depends on the requests served before it" if i or not frozen else
                            "response of an application whose arrays are read-only differs from a writeable one",
                            case, F.show(got), F.show(exp), size=len(repr(spec)) + 50 * (i + 1))
            break
        if F.snapshot(ds) != snap:
            ctx.oracle_fail("served dataset changed by a history of requests", case, "snapshot differs", "unchanged",
                            size=len(repr(spec)) + 50 * (i + 1))
            break
    ctx.count(("hist", repr(spec), tuple(urls)), len(urls) > 1, tag="%s:len=%d" % (where, len(urls)),
              sample={"history": urls[:4]})


def history_replay(spec, urls, frozen=True):
    app, handler, ds = F.make_app(spec, frozen)
    snap = F.snapshot(ds)
    for url in urls:
        got = F.call(app, url)
        exp = F.call(F.make_app(spec, False)[0], url)
        if got != exp:
            print("history: %s after %d earlier requests -> %s, fresh application -> %s"
                  % (url, len(urls) - 1, F.show(got), F.show(exp)))
            return False
        if F.snapshot(ds) != snap:
            print("history: served dataset changed after %s" % url)
            for line in F.snapshot_diff(snap, F.snapshot(ds)):
                print("  " + line)
            return False
    return True


def shrink_history(spec, urls, frozen=True):
    """drop requests while the history still fails"""
    urls = list(urls)
    i = 0
    while i < len(urls) - 1:
        cand = urls[:i] + urls[i + 1:]
        if not _quiet(history_replay, spec, cand, frozen):
            urls = cand
        else:
            i += 1
    return urls


def _quiet(fn, *a):
    import contextlib
    import io
    with contextlib.redirect_stdout(io.StringIO()):
        return fn(*a)


# ---- the run ----------------------------------------------------------------------------------------
def explore(ctx, tier, search=False):
    import time
    T.install()
    t_start = time.time()
    phases = ctx.extra.setdefault("phase_s", {})

    def mark(name):
        nonlocal t_start
        phases[name] = round(phases.get(name, 0) + time.time() - t_start, 1)
        t_start = time.time()
    rng = ctx.rng("c13-search" if search else "c13")
    cases = []
    # fixed dataset, fixed request list: traced one by one, then as histories in several orders
    for url in F.FIXED_REQUESTS:
        traced_case(ctx, F.FIXED_SPEC, url, "fixed", cases)
    for url in F.LAZY_REQUESTS:
        traced_case(ctx, F.LAZY_SPEC, url, "lazy", cases)
    # nested lazy sequences whose source holds the records as tuples / lists / lists of lists / numpy records, and the
    # dataset of aliased objects (views of one buffer, maps shared by two grids, one object in two containers, array-
    # valued attributes): each request on read-only AND on writeable served arrays
    for url in F.NEST_REQUESTS:
        traced_case(ctx, F.NEST_SPEC, url, "nested", cases)
    for url in F.SHARED_REQUESTS:
        traced_case(ctx, F.SHARED_SPEC, url, "shared", cases)
        traced_case(ctx, F.SHARED_SPEC, url, "shared", cases)
    # the CSV handler (file-backed lazy sequence: the stream is re-opened per iteration, csv.reader yields lists)
    csv_bytes = open(F.csv_path(F.CSV_SPEC), "rb").read()
    for url in F.CSV_REQUESTS:
        traced_case(ctx, F.CSV_SPEC, url, "csv", cases)
    n_specs = 36 if search else 12 if tier == "quick" else 120
    specs = [F.rand_spec(rng) for _ in range(n_specs)]
    for spec in specs:
        for _ in range(10):
            url, kind = F.rand_request(rng, spec)
            traced_case(ctx, spec, url, kind, cases, tid=rng.randint(0, 9))
    run_correspondence(ctx, cases)
    mark("traced requests + correspondence")
    # the maps of a served nested lazy sequence over its source records, object by object (PydapModel/RowHeap.lean):
    # outcome, "no source object changed" and the list of stores, against the real IterData / build_filter / fix_nested
    # on records held as tuples, lists and numpy records
    ctx.correspond("maps over the source records of a lazy sequence (outcome; source unchanged; stores)",
                   R.run(ctx, rng, 1200 if search else 400 if tier == "quick" else 4000))
    mark("source-record maps")
    # (a) histories
    order = list(F.FIXED_REQUESTS)
    history_case(ctx, F.FIXED_SPEC, order, "fixed-all")
    history_case(ctx, F.FIXED_SPEC, order[::-1], "fixed-all")
    # the same request again on the same application, also under another response kind: whatever a request leaves
    # behind (parsed constraints, templates, buffers) must not reach the next one
    history_case(ctx, F.FIXED_SPEC, order + order, "fixed-all-twice")
    for url in order:
        if "?" in url and (tier != "quick" or "(" in url):
            other = url.replace(".dods?", ".dds?") if ".dods?" in url else url.replace(".dds?", ".dods?").replace(".ascii?", ".dods?")
            history_case(ctx, F.FIXED_SPEC, [url, other, url], "fixed-thrice")
    for _ in range(6 if tier == "quick" else 60):
        history_case(ctx, F.FIXED_SPEC, [rng.choice(F.FIXED_REQUESTS) for _ in range(rng.randint(2, 12))], "fixed")
    # lazy sequences (IterData; the served data object is itself a little pipeline: stream, filters, maps, slices):
    # the whole list in both orders, every request three times in a row on one application, and random histories
    # of >= 3 requests in which a request comes back after others
    lazy = list(F.LAZY_REQUESTS)
    history_case(ctx, F.LAZY_SPEC, lazy + lazy, "lazy-all-twice")
    history_case(ctx, F.LAZY_SPEC, lazy[::-1], "lazy-all")
    for url in lazy:
        history_case(ctx, F.LAZY_SPEC, [url, url, url], "lazy-thrice")
    for _ in range(8 if tier == "quick" else 80):
        urls = [rng.choice(lazy) for _ in range(rng.randint(3, 10))]
        urls += [urls[0], rng.choice(urls)]
        history_case(ctx, F.LAZY_SPEC, urls, "lazy")
    # nested lazy sequences: every request three times in a row; the whole list twice; an inner selection between two
    # identical other requests (the filter map of a nested selection runs on the FIRST SOURCE RECORD when the types
    # are looked up); random histories with repeats
    nest = list(F.NEST_REQUESTS)
    history_case(ctx, F.NEST_SPEC, nest + nest, "nested-all-twice")
    for url in nest:
        if tier != "quick" or search or re.search(r"(<=|>=|!=|<|>|=)", url.partition("?")[2]):
            history_case(ctx, F.NEST_SPEC, [url, url], "nested-twice")
    inner = [u for u in nest if re.search(r"\.m\w+\.\w+(<=|>=|!=|<|>|=)", u)]
    for _ in range(12 if tier == "quick" else 120):
        urls = [rng.choice(nest) for _ in range(rng.randint(1, 6))]
        a = rng.choice(nest)
        urls = [a] + urls[:len(urls) // 2] + [rng.choice(inner)] + urls[len(urls) // 2:] + [a]
        history_case(ctx, F.NEST_SPEC, urls, "nested")
    sh = list(F.SHARED_REQUESTS)
    history_case(ctx, F.SHARED_SPEC, sh + sh, "shared-all-twice")
    history_case(ctx, F.SHARED_SPEC, sh[::-1] + sh, "shared-all-twice")
    for _ in range(8 if tier == "quick" else 80):
        urls = [rng.choice(sh) for _ in range(rng.randint(2, 9))]
        history_case(ctx, F.SHARED_SPEC, urls + [urls[0]], "shared")
    cs = list(F.CSV_REQUESTS)
    history_case(ctx, F.CSV_SPEC, cs + cs[::-1], "csv-all-twice")
    for url in cs:
        history_case(ctx, F.CSV_SPEC, [url, url], "csv-twice")
    for _ in range(6 if tier == "quick" else 60):
        urls = [rng.choice(cs) for _ in range(rng.randint(2, 9))]
        history_case(ctx, F.CSV_SPEC, urls + [urls[0]], "csv")
    if open(F.csv_path(F.CSV_SPEC), "rb").read() != csv_bytes:
        ctx.oracle_fail("the file behind the CSV handler changed while requests were served",
                        {"oracle": "history", "spec": F.CSV_SPEC, "urls": cs, "frozen": False}, "file differs", "unchanged")
    for spec in specs:
        for _ in range(3 if tier == "quick" else 8):
            urls = [F.rand_request(rng, spec)[0] for _ in range(rng.randint(2, 12))]
            # make repeats likely: the same request before and after others
            if rng.random() < 0.5:
                urls.append(urls[0])
            history_case(ctx, spec, urls, "random")
    mark("histories")
    # (o') module-level state: a container of a pydap module changed while a request was served = a store outside
    # `Owned t`; the code no longer has the discipline the noninterference theorem assumes.  Recorded as a
    # disagreement with the model (whose program stores only into objects of the request), then searched for a
    # wrong response with line-level schedules aimed at the functions that touch the container.
    if _BREAKS:
        labels = sorted(set(b["label"] for b in _BREAKS))
        for label in labels:
            first = [b for b in _BREAKS if b["label"] == label]
            if any(d and label in d["function"] for d in ctx.corr_disagreements):
                continue
            ctx.corr_disagreements.append({
                "function": "ownership discipline: module-level state %s written while serving a request" % label,
                "line": first[0]["url"], "impl": "store into %s (%d requests did)" % (label, len(first)),
                "model": "every store goes to an object allocated by the request",
                "meta": {"spec": first[0]["spec"], "urls": sorted(set(b["url"] for b in first))[:8]}})
        ctx.notes.append("module-level state written while serving: %s" % ", ".join(labels))
        S.targeted(ctx, rng, list(_BREAKS), search=search, seen=[(sp, u) for sp, u in _RECENT])
        del _BREAKS[:]
    ctx.extra["module_level_containers_watched"] = len(M.roots())
    mark("targeted line-level search")
    # (b) schedules
    S.explore(ctx, tier, rng, specs, search=search)
    mark("schedules")


def confirm_failures(ctx, limit=6):
    """Every failure was observed in this process (or in a worker forked from it) after many other requests; with
    module-level state in pydap it may depend on them.  The replay must stand alone: re-run the smallest candidates
    in a FRESH interpreter and prefer one that fails there; candidates that do not reproduce are pushed back."""
    import json
    import os
    import subprocess
    import sys
    import tempfile

    if not ctx.oracle_failures:
        return
    confirmed = 0
    for f in sorted(ctx.oracle_failures, key=lambda d: d["size"])[:limit]:
        with tempfile.NamedTemporaryFile("w", suffix=".json", delete=False) as tmp:
            json.dump({"failure": f}, tmp, default=repr)
        try:
            p = subprocess.run([sys.executable, os.path.join(common.HARNESS, "run.py"), "C13", "--replay", tmp.name],
                               stdout=subprocess.PIPE, stderr=subprocess.STDOUT, timeout=300, text=True)
            reproduced = p.returncode == 1
        except Exception:
            reproduced = False
        finally:
            os.unlink(tmp.name)
        if reproduced:
            confirmed += 1
            break
        f["size"] += 10 ** 7
        f["what"] += " (seen after other requests in the same process; did not fail in a fresh process)"
    ctx.notes.append("replay candidates re-run in a fresh interpreter: %s" % ("one confirmed" if confirmed else "none confirmed"))


def run(ctx):
    ctx.rule = ("requests = all response kinds x {no CE, projections incl. shorthand, hyperslabs, selections, "
                "server-side functions, malformed} over a fixed 8-variable dataset and seeded random datasets "
                "(arrays of 7 dtypes and rank 0-3, structures to depth 2, grids, sequences, lazy and nested lazy sequences "
                "whose source holds tuples / lists / lists of lists / numpy records), a dataset of aliased objects (views "
                "of one buffer, shared grid maps, one object in two containers, array/list/dict attribute values), a CSV "
                "file behind CSVHandler; served arrays read-only in every other case; source-record cases = generated "
                "object heaps x clauses x type lookups (non-trivial when the stream is not empty and the maps return); "
                "a traced request is "
                "non-trivial when it is answered 200; a history when it has >= 2 requests; a schedule when it has "
                ">= 1 preemption; distinct by (dataset, request list, schedule)")
    ctx.assumptions = [
        "C13: the model's atomic step is one logged store; interleavings below source-line granularity (bytecode "
        "atomicity, numpy/webob C code releasing the GIL) are outside the model; the deterministic scheduler "
        "switches threads at pydap function entries/generator resumptions and between any two source lines of "
        "pydap frames",
        "C13: module-level state = mutable containers reachable from loaded pydap.* modules (globals, class "
        "attributes, function defaults/closures/attributes); re/functools/import caches are not scanned",
        "C13: allocation identity is tracked by the harness through DapType.__init__ and tracking container "
        "subclasses; responses under tracing are compared with untraced ones on every case",
        "C13: malformed requests and the response/ssf-eval stages are covered by the ownership oracle and the "
        "history/schedule oracles, not by the write-log correspondence",
        "C13: of a lazy data object the model covers filters and maps over the source records (nested filter, "
        "fix_nested, child selection, type peek, iteration); record ranges, deep_map at level 2 and array_dtype are "
        "covered by the oracles only; a store into a list the code allocated itself is not observed (only source "
        "objects are)",
    ]
    ctx.proof_phase()
    explore(ctx, ctx.tier)
    confirm_failures(ctx)
    # failing-input search when the proof, the correspondence or the discipline broke without a wrong response yet:
    # three times the datasets, the larger targeted line-level search, the middle schedule budget (~3-5 min)
    def search(c):
        explore(c, c.tier, search=True)
        confirm_failures(c)
    return ctx.finish(search=search)


def replay(payload):
    f = payload.get("failure")
    if not f:
        print("nothing to replay: %s" % payload.get("no_longer_checks"))
        return False
    c = f["case"]
    if c["oracle"] == "history":
        return history_replay(c["spec"], c["urls"], c.get("frozen", True))
    if c["oracle"] == "ownership":
        T.install()
        for spec0, url0 in c.get("earlier", []):
            app0, _, ds0 = F.make_app(spec0)
            T.share(ds0)
            T.traced_call(app0, url0, "earlier", F.call)
        app, handler, ds = F.make_app(c["spec"], c.get("frozen", True))
        T.share(ds)
        snap = F.snapshot(ds)
        out, tr = T.traced_call(app, c["url"], "t0", F.call)
        if tr.foreign:
            print("foreign writes:", sorted(set(map(str, tr.foreign)))[:6])
        same = F.snapshot(ds) == snap
        if not same:
            print("served dataset changed by %s:" % c["url"])
            for line in F.snapshot_diff(snap, F.snapshot(ds)):
                print("  " + line)
        exp = F.call(F.make_app(c["spec"], False)[0], c["url"])
        if out != exp:
            print("%s -> %s, fresh writeable application -> %s" % (c["url"], F.show(out), F.show(exp)))
        return not tr.foreign and same and out == exp
    if c["oracle"] == "schedule":
        return S.replay_case(c)
    if c["oracle"] == "rows":
        return R.replay(c["rows"])
    raise ValueError(c["oracle"])
