"""C08 — attributes survive the DAS.  Proof: lean/Props/C08.lean (model lean/PydapModel/DasText.lean).
Tie: real `''.join(das(ds))` vs `dasText`; real `parse_das` vs `dasParse` (served, foreign and malformed
texts); client attributes after `open_url(application=BaseHandler(ds))` and after `add_attributes` on foreign
texts vs `addAttributes`.  Oracle (independent of the model): source attribute maps vs client attributes."""
import copy
import json
import math
import string

import numpy as np

import common
from common import hexb

LEVEL = "proof"

K_SHORT = "C08.short_list"
K_COLLIDE = "C08.attr_named_like_child"


# ------------------------------------------------------------------------------------------------ pydap access
def load():
    from pydap.client import open_url
    from pydap.handlers.lib import BaseHandler
    from pydap.lib import walk
    from pydap.model import BaseType, DatasetType, GridType, SequenceType, StructureType
    from pydap.parsers.das import add_attributes, parse_das
    from pydap.responses.das import das

    class P:
        pass

    p = P()
    p.__dict__.update(locals())
    return p


def build_var(P, spec):
    k, name, attrs = spec["kind"], spec["name"], copy.deepcopy(spec["attrs"])
    if k == "b":
        shape = tuple(spec.get("shape", (2,)))
        return P.BaseType(name, np.zeros(shape, dtype="i4"), dims=tuple(spec.get("dims", ())), attributes=attrs)
    if k == "g":
        # the Grid holds its members in the order of spec["children"]: the array first, then the maps in THAT order,
        # whatever the array's dimensions are called (older specs: dims = the map names in order, extents 2)
        g = P.GridType(name, attributes=attrs)
        ms = spec["children"]
        dims = tuple(ms[0].get("dims", tuple(m["name"] for m in ms[1:])))
        shape = tuple(ms[0].get("shape", (2,) * len(dims)))
        g[ms[0]["name"]] = P.BaseType(ms[0]["name"], np.zeros(shape, dtype="i4"), dims=dims,
                                      attributes=copy.deepcopy(ms[0]["attrs"]))
        for m in ms[1:]:
            g[m["name"]] = P.BaseType(m["name"], np.zeros(tuple(m.get("shape", (2,))), dtype="i4"),
                                      dims=tuple(m.get("dims", ())), attributes=copy.deepcopy(m["attrs"]))
        return g
    if k == "q":
        q = P.SequenceType(name, attributes=attrs)
        for c in spec["children"]:
            q[c["name"]] = P.BaseType(c["name"], attributes=copy.deepcopy(c["attrs"]))
        q.data = np.array([tuple(1 for _ in spec["children"])], dtype=[(c["name"], "i4") for c in spec["children"]])
        return q
    s = P.StructureType(name, attributes=attrs)
    for c in spec["children"]:
        s[c["name"]] = build_var(P, c)
    return s


def build(P, spec, with_attrs=True):
    if not with_attrs:
        spec = strip_attrs(spec)
    ds = P.DatasetType(spec["name"], attributes=copy.deepcopy(spec["attrs"]))
    for c in spec["children"]:
        ds[c["name"]] = build_var(P, c)
    return ds


def strip_attrs(spec):
    out = {k: v for k, v in spec.items() if k not in ("attrs", "children")}
    out["attrs"] = {}
    out["children"] = [strip_attrs(c) for c in spec["children"]]
    return out


# ------------------------------------------------------------------------------------------------ S-expressions
def hx(s):
    return hexb(s.encode("ascii"))


def fmt6(v):
    return "%.6g" % v


def val_sexp(v):
    if isinstance(v, str):
        return "(s %s)" % hx(v)
    if isinstance(v, bool):
        raise TypeError("bool outside the domain")
    if isinstance(v, float):
        return "(n %s f)" % hx(fmt6(v))
    if isinstance(v, int):
        return "(n %s i)" % hx(fmt6(v))
    if isinstance(v, list):
        return "(l" + "".join(" " + val_sexp(x) for x in v) + ")"
    if isinstance(v, dict):
        return "(d" + "".join(" (%s %s)" % (hx(k), val_sexp(x)) for k, x in v.items()) + ")"
    raise TypeError(type(v))


def attrs_sexp(d):
    return "(" + " ".join("(%s %s)" % (hx(k), val_sexp(x)) for k, x in d.items()) + ")"


def var_sexp(spec, with_attrs=True):
    return "(v %s %s %s (%s))" % (spec["kind"], hx(spec["name"]), attrs_sexp(spec["attrs"] if with_attrs else {}),
                                  " ".join(var_sexp(c, with_attrs) for c in spec["children"]))


def ds_sexp(spec):
    return "(ds %s %s (%s))" % (hx(spec["name"]), attrs_sexp(spec["attrs"]),
                                " ".join(var_sexp(c) for c in spec["children"]))


def children_sexp(spec):
    return "(" + " ".join(var_sexp(c, False) for c in spec["children"]) + ")"


def parse_sexp(s):
    toks = s.replace("(", " ( ").replace(")", " ) ").split()
    stack, cur = [], []
    for t in toks:
        if t == "(":
            stack.append(cur)
            cur = []
        elif t == ")":
            top = stack.pop()
            top.append(cur)
            cur = top
        else:
            cur.append(t)
    return cur


def unhex(t):
    return bytes.fromhex(t[1:]).decode("ascii")


def canon_num(v):
    """numbers are compared as (Python type, repr of the value); never as floats"""
    if isinstance(v, bool):
        return "(bool %s)" % v
    if isinstance(v, int):
        return "(n %d i)" % v
    if isinstance(v, float):
        return "(n %s f)" % ("nan" if math.isnan(v) else repr(v))
    return "(other %s)" % type(v).__name__


def canon_py(v):
    """canonical string of a parsed / attached Python attribute value; dict keys sorted"""
    if isinstance(v, str):
        return "(s %s)" % hexb(v.encode("utf-8"))
    if isinstance(v, dict):
        return "(d" + "".join(" (%s %s)" % (hexb(k.encode("utf-8")), canon_py(v[k])) for k in sorted(v)) + ")"
    if isinstance(v, list):
        return "(l" + "".join(" " + canon_py(x) for x in v) + ")"
    return canon_num(v)


def canon_model_val(t):
    """canonical string of a value S-expression printed by the model driver: number tokens are evaluated by
    Python (trusted `int` / `float`), dict keys sorted"""
    if t[0] == "s":
        return "(s %s)" % t[1]
    if t[0] == "n":
        tok = unhex(t[1]).strip()
        if t[2] == "i":
            return canon_num(int(tok))
        return canon_num(float(tok))
    if t[0] == "l":
        return "(l" + "".join(" " + canon_model_val(x) for x in t[1:]) + ")"
    if t[0] == "d":
        kvs = sorted(((unhex(kv[0]), kv) for kv in t[1:]), key=lambda p: p[0])
        return "(d" + "".join(" (%s %s)" % (kv[0], canon_model_val(kv[1])) for _, kv in kvs) + ")"
    raise ValueError(t)


def canon_model(out):
    """canonicalise one output line of the model driver"""
    if not out.startswith("(ok"):
        return out
    t = parse_sexp(out)[0]
    if len(t) == 2:  # (ok <dict>)
        return "(ok %s)" % canon_model_val(t[1])
    g, vs = t[1], t[2]
    rows = sorted((unhex(r[0]), canon_model_val(r[1])) for r in vs[1:])
    return "(ok (g %s) (vars%s))" % (canon_model_val(g[1]), "".join(" (%s %s)" % (hx(i), c) for i, c in rows))


def canon_client(P, c):
    rows = sorted((v.id, canon_py(v.attributes)) for v in P.walk(c) if v is not c)
    return "(ok (g %s) (vars%s))" % (canon_py(c.attributes),
                                     "".join(" (%s %s)" % (hexb(i.encode("utf-8")), a) for i, a in rows))


def correspond(ctx, what, cases, known_class=None):
    """ctx.correspond with the model's output canonicalised on the Python side first (number tokens are
    evaluated by Python, dicts sorted)"""
    cases = list(cases)
    if not cases:
        return
    outs = common.run_driver([c[0] for c in cases])
    for (line, impl, meta), mod in zip(cases, outs):
        ctx.corr_checked += 1
        try:
            mod = canon_model(mod)
        except Exception as e:  # a model line the canonicaliser cannot read is a disagreement
            mod = "uncanonical:%s:%r" % (mod[:80], e)
        if mod != impl:
            k = known_class(meta) if known_class else None
            if k:
                ctx.corr_known_class += 1
            elif len(ctx.corr_disagreements) < 50:
                ctx.corr_disagreements.append({"function": what, "line": line[:4000], "impl": impl[:4000],
                                               "model": mod[:4000], "meta": meta})
            else:
                ctx.corr_disagreements.append(None)


# ------------------------------------------------------------------------------------------------ generators
NAMECH = string.ascii_letters + string.digits + "_"
STRCH = string.ascii_letters + string.digits + "  ;,{}:=.#'()[]/<>-_+*!?@$%^&|~`"
VAR_POOL = ["a", "b", "c", "s", "t", "g", "q", "x", "y", "lat", "time", "T_2m", "v1"]
ATTR_POOL = ["units", "long_name", "_FillValue", "valid_range", "scale-factor", "a", "b", "x", "y", "k", "n", "title",
             "history", "s", "t", "arr", "Unlimited_Dimension", "String", "Attributes", "Float64", "Alias"]
STR_EDGE = ["", " ", ";", ",", "{", "}", "a;b,c", " lead", "trail ", "nan", "1", "Attributes {", "x {", "ab", "} ;",
            "a, b; c {d} ", "String s", "1.0", "'", "it's", "#c", "inf", "-", ".", "a  b", ";;", ",;", "{ }"]
FLOAT_EDGE = [0.0, 1.0, -1.0, 2.0, 1.5, -2.5, 100000.0, 999999.0, 1e6, 1e22, -1e10, 123456.0, 0.1, 1e-7, 1.23456789,
              -0.000123456, 3.14159265358979, 1e300, 5e-324, float("nan"), float("inf"), float("-inf"), 65536.0,
              0.5, 1234567.0, 12345.678]
INT_EDGE = [0, 1, -1, 7, 10, 99, 100, 255, -32768, 65535, 999999, -999999, 100000, 123456, -5]


def gen_name(rng, pool, used):
    for _ in range(50):
        n = rng.choice(pool) if rng.random() < 0.75 else "".join(rng.choice(NAMECH) for _ in range(rng.randint(1, 8)))
        if n not in used:
            used.add(n)
            return n
    n = "n%d" % len(used)
    used.add(n)
    return n


def gen_str(rng):
    if rng.random() < 0.35:
        return rng.choice(STR_EDGE)
    return "".join(rng.choice(STRCH) for _ in range(rng.randint(0, 12)))


def gen_float(rng):
    r = rng.random()
    if r < 0.4:
        return rng.choice(FLOAT_EDGE)
    if r < 0.6:
        return float(rng.randint(-1000, 1000))          # integral floats (finding #16 of DESIGN section 9)
    if r < 0.8:
        return rng.uniform(-1000, 1000)
    return rng.uniform(-1, 1) * 10.0 ** rng.randint(-30, 30)


def gen_int(rng):
    return rng.choice(INT_EDGE) if rng.random() < 0.4 else rng.randint(-999999, 999999)


def gen_scalar(rng, kind=None):
    kind = kind or rng.choice("sif")
    return gen_str(rng) if kind == "s" else gen_int(rng) if kind == "i" else gen_float(rng)


def gen_value(rng, depth, short):
    r = rng.random()
    if r < 0.55:
        return gen_scalar(rng)
    if r < 0.8 or depth >= 3:
        kind = rng.choice("sif")
        n = rng.choice([0, 1, 1]) if short else rng.randint(2, 4)
        return [gen_scalar(rng, kind) for _ in range(n)]
    used = set()
    return {gen_name(rng, ATTR_POOL, used): gen_value(rng, depth + 1, short and rng.random() < 0.5)
            for _ in range(rng.randint(0, 3))}


def gen_attrs(rng, nmax, short, avoid=(), collide=()):
    used = set(avoid)
    out = {}
    for _ in range(rng.randint(0, nmax)):
        out[gen_name(rng, ATTR_POOL, used)] = gen_value(rng, 0, short and rng.random() < 0.4)
    for n in collide:
        if n not in out and rng.random() < 0.5:
            out[n] = gen_value(rng, 1, False)
    return out


KEYWORD_NAMES = ["Attributes", "attributes", "String", "Float64", "Int32", "Url", "Byte", "Grid", "Structure", "Sequence",
                 "Dataset", "Array", "Maps", "Alias", "global"]
BASE_SHAPES = [(2,), (2,), (), (0,), (3, 2), (1, 0, 2)]


def gen_var_name(rng, used, anc):
    """variable names: also the name of an enclosing container / of the dataset, and words of the DAS/DDS grammar"""
    r = rng.random()
    if anc and r < 0.08 and rng.choice(anc) not in used:
        n = next(a for a in rng.sample(list(anc), len(anc)) if a not in used)
        used.add(n)
        return n
    if r < 0.14:
        return gen_name(rng, KEYWORD_NAMES, used)
    return gen_name(rng, VAR_POOL, used)


def gen_base_shape(rng):
    shape = rng.choice(BASE_SHAPES)
    dims = rng.choice([(), tuple("d%d" % i for i in range(len(shape))), tuple(rng.choice(VAR_POOL) for _ in shape)])
    return {"shape": list(shape), "dims": list(dims)}


def gen_grid_members(rng, inner, anc):
    """array + maps in the order the Grid holds them: maps in dimension order, reversed or shuffled, maps that are no
    dimension of the array (also first), dimensions without a map, anonymous and repeated dimension names, no maps"""
    rank = rng.choice([0, 1, 2, 2, 3])
    ext = [rng.choice([2, 2, 3, 1, 0]) for _ in range(rank)]
    r = rng.random()
    if r < 0.15:
        dims = []
    else:
        dims = []
        while len(dims) < rank:
            d = gen_name(rng, VAR_POOL, inner)
            dims.append(d)
        if r < 0.28 and rank >= 2:
            dims[1] = dims[0]
    axes = []
    for i in range(rank):
        dn = dims[i] if dims else gen_name(rng, VAR_POOL, inner)
        if dn not in [a for a, _ in axes]:
            axes.append((dn, ext[i]))
    r = rng.random()
    if r < 0.3:
        pass
    elif r < 0.45:
        axes.reverse()
    else:
        rng.shuffle(axes)
    if axes and rng.random() < 0.15:
        del axes[rng.randrange(len(axes))]
    if rng.random() < 0.3:
        for _ in range(rng.randint(1, 2)):
            axes.insert(0 if rng.random() < 0.5 else rng.randint(0, len(axes)),
                        (gen_var_name(rng, inner, anc), rng.choice([2, 0, 5])))
    arr = {"kind": "b", "name": gen_var_name(rng, inner, anc), "attrs": gen_attrs(rng, 2, False), "children": [],
           "shape": ext, "dims": dims}
    maps = [{"kind": "b", "name": a, "attrs": gen_attrs(rng, 2, False), "children": [], "shape": [e],
             "dims": rng.choice([[a], [], ["n"]])} for a, e in axes]
    return [arr] + maps


def gen_var(rng, depth, used, mode, anc=()):
    """mode: set of {"short", "collide"} features allowed in this dataset; anc: names of the enclosing containers"""
    name = gen_var_name(rng, used, anc)
    r = rng.random()
    short = "short" in mode
    if r < 0.45 or depth >= 3:
        out = {"kind": "b", "name": name, "attrs": gen_attrs(rng, 4, short), "children": []}
        out.update(gen_base_shape(rng))
        return out
    inner = set()
    if r < 0.6:
        ms = gen_grid_members(rng, inner, anc + (name,))
        names = [m["name"] for m in ms]
        return {"kind": "g", "name": name, "children": ms,
                "attrs": gen_attrs(rng, 3, short, avoid=() if "collide" in mode else names,
                                   collide=names if "collide" in mode else ())}
    if r < 0.75:
        cs = [{"kind": "b", "name": gen_var_name(rng, inner, anc + (name,)), "attrs": gen_attrs(rng, 3, short),
               "children": []} for _ in range(rng.randint(1, 3))]
        kind = "q"
    else:
        cs = [gen_var(rng, depth + 1, inner, mode, anc + (name,)) for _ in range(rng.randint(0, 3))]
        kind = "s"
    names = [c["name"] for c in cs]
    return {"kind": kind, "name": name, "children": cs,
            "attrs": gen_attrs(rng, 3, short, avoid=() if "collide" in mode else names,
                               collide=names if "collide" in mode else ())}


def gen_dataset(rng, mode=frozenset(), small=False):
    # the dataset's name is drawn first: a variable (at any depth) may be named like the dataset
    dsname = gen_name(rng, ["d", "data", "nameless", "test_1", "a", "s", "Attributes"], set())
    used = set()
    cs = [gen_var(rng, 0 if not small else 2, used, mode, (dsname,)) for _ in range(rng.randint(0, 2 if small else 4))]
    names = [c["name"] for c in cs]
    avoid = set(names) | {dsname}
    attrs = gen_attrs(rng, 2 if small else 4, "short" in mode, avoid=() if "collide" in mode else avoid,
                      collide=(names + [dsname]) if "collide" in mode else ())
    for g in ("NC_GLOBAL", "DODS_EXTRA"):
        if rng.random() < 0.3:
            sub = gen_attrs(rng, 3, "short" in mode)
            attrs[g] = {k: v for k, v in sub.items()}
    if "big" in mode:
        # a DAS of tens of kilobytes (metadata-rich files have them): several hundred plain attributes, each with its
        # own value, on the dataset and on every top-level variable
        targets = [attrs] + [c["attrs"] for c in cs]
        for i in range(rng.randint(400, 700)):
            t = targets[i % len(targets)]
            t["big_%03d" % i] = [i, float(i) + 0.5, "value-%05d-of-a-long-attribute-table" % i][i % 3]
    return {"name": dsname, "attrs": attrs, "children": cs}


def features(spec):
    """measured distribution: what is unconventional about a dataset"""
    out = set()

    def walk_(node, anc):
        for c in node["children"]:
            if c["name"] in anc:
                out.add("var-named-like-ancestor" if c["name"] != spec["name"] else "var-named-like-dataset")
            if c["name"] in KEYWORD_NAMES:
                out.add("var-named-like-keyword")
            if c["kind"] == "g":
                arr, maps = c["children"][0], c["children"][1:]
                dims = list(arr.get("dims", [m["name"] for m in maps]))
                pos = [dims.index(m["name"]) if m["name"] in dims else len(dims) for m in maps]
                if pos != sorted(pos):
                    out.add("grid:maps-not-in-dimension-order")
                if dims and len(dims) in pos:
                    out.add("grid:map-not-a-dimension")
                if not maps:
                    out.add("grid:no-maps")
                if not dims:
                    out.add("grid:anonymous-dims")
                if len(set(dims)) < len(dims):
                    out.add("grid:repeated-dims")
                if any(m["attrs"] for m in c["children"]):
                    out.add("grid:member-attributes(not judged)")
            if c["kind"] in "sq" and not c["children"]:
                out.add("empty-structure")
            if c["kind"] == "b" and 0 in c.get("shape", ()):
                out.add("zero-extent")
            walk_(c, anc + (c["name"],))
    walk_(spec, (spec["name"],))
    for k in spec["attrs"]:
        if k in KEYWORD_NAMES:
            out.add("attribute-named-like-keyword")
    return out


# ------------------------------------------------------------------------------------------------ oracle
def num_eq(src, got):
    if math.isnan(src):
        return isinstance(got, float) and math.isnan(got)
    if math.isinf(src):
        return got == src
    return float(fmt6(src)) == got


def value_diff(src, got, path, exact=False):
    """first difference between a source attribute value and what the client holds (None = same):
    same nesting, same Python types, strings equal, numbers equal to six significant digits"""
    if isinstance(src, dict):
        if not isinstance(got, dict):
            return path, "dict expected, got %r" % (got,)
        if set(src) != set(got):
            return path, "names differ: missing %s extra %s" % (sorted(set(src) - set(got)), sorted(set(got) - set(src)))
        for k in src:
            d = value_diff(src[k], got[k], path + [k], exact)
            if d:
                return d
        return None
    if isinstance(src, list):
        if not isinstance(got, list) or len(got) != len(src):
            return path, "list %r expected, got %r" % (src, got)
        for i, (a, b) in enumerate(zip(src, got)):
            d = value_diff(a, b, path + [i], exact)
            if d:
                return d
        return None
    if isinstance(src, str):
        return None if (isinstance(got, str) and got == src) else (path, "str %r expected, got %r" % (src, got))
    if isinstance(src, float):
        if type(got) is not float:
            return path, "float %r expected, got %s %r" % (src, type(got).__name__, got)
        return None if (num_eq(src, got) if not exact else (got == src or (math.isnan(src) and math.isnan(got)))) else (path, "float %r (%s) expected, got %r" % (src, fmt6(src), got))
    if isinstance(src, int):
        if type(got) is not int:
            return path, "int %r expected, got %s %r" % (src, type(got).__name__, got)
        return None if got == src else (path, "int %r expected, got %r" % (src, got))
    return path, "unsupported source value %r" % (src,)


def has_short_list(v):
    if isinstance(v, list):
        return len(v) < 2
    if isinstance(v, dict):
        return any(has_short_list(x) for x in v.values())
    return False


def expected_globals(attrs):
    """NC_GLOBAL / DODS_EXTRA containers are merged into the global attributes; every other entry stays"""
    exp = {}
    for k in sorted(attrs):
        if k in ("NC_GLOBAL", "DODS_EXTRA") and isinstance(attrs[k], dict):
            exp.update(attrs[k])
    for k, v in attrs.items():
        if not (k in ("NC_GLOBAL", "DODS_EXTRA") and isinstance(v, dict)):
            exp[k] = v
    return exp


def ambiguous_globals(attrs):
    """names defined twice among globals and merged containers: the property does not say who wins"""
    seen, dup = set(), set()
    for k, v in attrs.items():
        names = list(v) if (k in ("NC_GLOBAL", "DODS_EXTRA") and isinstance(v, dict)) else [k]
        for n in names:
            (dup if n in seen else seen).add(n)
    return dup


def spec_nodes(spec, prefix=""):
    """(id, node spec, excluded?) for every variable; grid members are excluded from the property"""
    for c in spec["children"]:
        i = prefix + c["name"]
        yield i, c, False
        if c["kind"] == "g":
            for m in c["children"]:
                yield i + "." + m["name"], m, True
        else:
            for x in spec_nodes(c, i + "."):
                yield x


def class_of(node, attr, value, is_dataset=False, dsname=None):
    """finding class of a failing attribute (None = outside every listed class).  C08.attr_named_like_child after
    the repair of add_attributes: the attribute has the name of a child that has its OWN container in the DAS (child
    of a Structure / Sequence / the Dataset: the container overwrites it in the parsed dict), or it is a DICT named
    like a Grid member / like the dataset (in a DAS such a container IS the member's / the dataset's container).
    Plain attributes named like a Grid member or like the dataset are outside the class: they must survive."""
    if has_short_list(value):
        return K_SHORT
    names = [c["name"] for c in node["children"]]
    if attr in names and (is_dataset or node["kind"] != "g" or isinstance(value, dict)):
        return K_COLLIDE
    if is_dataset and attr == dsname and isinstance(value, dict):
        return K_COLLIDE
    return None


def ds_self_collide(spec):
    """a dict-valued global attribute named like the dataset is read as the dataset's own container and spilled
    over the other globals"""
    return isinstance(spec["attrs"].get(spec["name"]), dict)


def oracle_served(ctx, P, spec, client, err, case=None):
    """judge the client's attributes against the source maps; records failures, returns their number"""
    case = case or {"kind": "served", "spec": spec}
    n0 = len(ctx.oracle_failures) + sum(ctx.known_hits.values())
    if client is None:
        # the repaired add_attributes never raises: a failure to serve / parse / attach is in no listed class
        ctx.oracle_fail("serving / parsing / attaching the DAS raised", case, err, "client dataset with attributes",
                        cls=None)
        return 1
    # a dict-valued global attribute named like the dataset itself is popped by the flat-id lookup of the dataset node
    # and spilled over the other globals: every global-level difference of such a dataset is in the collision class
    ds_collide = ds_self_collide(spec)
    amb = ambiguous_globals(spec["attrs"])
    exp = expected_globals(spec["attrs"])
    got = client.attributes
    for k in sorted(set(exp) | set(got)):
        if k in amb:
            continue
        if k not in exp or k not in got:
            src_key = k if k in exp else None
            cls = K_COLLIDE if ds_collide else class_of(spec, src_key, exp.get(k), True, spec["name"]) if src_key \
                else None
            ctx.oracle_fail("global attribute %s" % ("lost" if k in exp else "appeared"), case,
                            {"name": k, "client": repr(got.get(k))}, {"name": k, "source": repr(exp.get(k))}, cls=cls)
            continue
        d = value_diff(exp[k], got[k], [k])
        if d:
            ctx.oracle_fail("global attribute changed", case, {"at": d[0], "what": d[1]}, {k: repr(exp[k])},
                            cls=K_COLLIDE if ds_collide else class_of(spec, k, exp[k], True, spec["name"]))
    for i, node, excluded in spec_nodes(spec):
        if excluded:
            continue
        try:
            got = client[i].attributes
        except Exception as e:
            ctx.oracle_fail("variable missing on the client", case, repr(e), i)
            continue
        src = node["attrs"]
        for k in sorted(set(src) | set(got)):
            if k not in src or k not in got:
                cls = class_of(node, k, src.get(k)) if k in src else None
                ctx.oracle_fail("attribute %s on variable" % ("lost" if k in src else "appeared"), case,
                                {"var": i, "name": k, "client": repr(got.get(k))},
                                {"var": i, "name": k, "source": repr(src.get(k))}, cls=cls)
                continue
            d = value_diff(src[k], got[k], [k])
            if d:
                ctx.oracle_fail("attribute changed on variable", case, {"var": i, "at": d[0], "what": d[1]},
                                {"var": i, k: repr(src[k])}, cls=class_of(node, k, src[k]))
    return len(ctx.oracle_failures) + sum(ctx.known_hits.values()) - n0


def serve(P, spec):
    """the real pipeline: BaseHandler(ds) -> .dds/.das over WSGI -> dds_to_dataset + parse_das + add_attributes"""
    ds = build(P, spec)
    try:
        app = P.BaseHandler(ds)
        client = P.open_url("http://localhost:8001/", application=app)
        if len(repr(spec)) % 2:
            # every other dataset is judged on its SECOND opening in this process: what a client attaches must not
            # depend on the same DAS text having been attached before
            client = P.open_url("http://localhost:8001/", application=app)
        return client, None
    except Exception as e:
        return None, type(e).__name__


# ------------------------------------------------------------------------------------------------ histories
def gen_history(rng):
    """several datasets (some sharing one DAS text: the same dataset served by two applications, and the same tree
    and attributes under ANOTHER dataset name - the DAS text does not contain the dataset's name), opened several
    times each in an interleaved order"""
    pool = []
    for _ in range(rng.randint(1, 3)):
        spec = gen_dataset(rng, small=rng.random() < 0.7)
        pool.append(spec)
        r = rng.random()
        if r < 0.35:
            pool.append(copy.deepcopy(spec))
        elif r < 0.7:
            twin = copy.deepcopy(spec)
            taken = set(spec["attrs"]) | {c["name"] for c in spec["children"]} | {spec["name"]}
            twin["name"] = next(n for n in ("twin", "other_1", "d2", "copy", "zz9") if n not in taken)
            pool.append(twin)
    order = [rng.randrange(len(pool)) for _ in range(rng.randint(2, 4) + len(pool))]
    return pool, order


def run_history(P, pool, order, judge):
    """open the datasets of `pool` in the given order (one application per dataset, living for the whole history);
    `judge(step, index, client, err)` sees every opening"""
    apps = []
    for spec in pool:
        try:
            apps.append(P.BaseHandler(build(P, spec)))
        except Exception as e:
            apps.append(e)
    for step, i in enumerate(order):
        client, err = None, None
        try:
            if isinstance(apps[i], Exception):
                raise apps[i]
            client = P.open_url("http://localhost:8001/", application=apps[i])
        except Exception as e:
            err = type(e).__name__
        judge(step, i, client, err)


def history_stream(ctx, P, n, rt, at):
    rng = ctx.rng("history")
    for _ in range(n):
        pool, order = gen_history(rng)
        texts = []
        for spec in pool:
            try:
                texts.append("".join(P.das(build(P, spec))))
            except Exception:
                texts.append(None)
        shared = len(set(t for t in texts if t is not None)) < len(pool)
        ctx.count(("history", repr((pool, order))), True,
                  tag="history:%d-datasets:%s" % (len(pool), "shared-text" if shared else "distinct-texts"))

        def judge(step, i, client, err):
            spec = pool[i]
            meta = {"stream": "history", "spec": spec, "step": step, "order": order}
            if client is not None:
                impl = canon_client(P, client)
                # the model's client is a function of (tree, DAS text) alone: the same line whatever came before
                rt.append(("das-roundtrip " + ds_sexp(spec), impl, meta))
                if texts[i] is not None:
                    at.append(("das-attach %s %s %s" % (hx(client.name), children_sexp(spec), hx(texts[i])), impl, meta))
            oracle_served(ctx, P, spec, client, err,
                          case={"kind": "history", "pool": pool, "order": order[:step + 1], "step": step})
        run_history(P, pool, order, judge)


def shrink(P, spec, fails):
    """greedy structural shrinking: drop children / attributes while `fails(spec)` stays true"""
    def candidates(s):
        for i in range(len(s["children"])):
            t = copy.deepcopy(s)
            del t["children"][i]
            yield t
        for k in list(s["attrs"]):
            t = copy.deepcopy(s)
            del t["attrs"][k]
            yield t
        for k, v in s["attrs"].items():
            if isinstance(v, dict):
                for kk in v:
                    t = copy.deepcopy(s)
                    del t["attrs"][k][kk]
                    yield t
            if isinstance(v, list) and len(v) > 2:
                t = copy.deepcopy(s)
                t["attrs"][k] = v[:2]
                yield t
        for i, c in enumerate(s["children"]):
            if c["kind"] == "g":
                for k in list(c["attrs"]):
                    t = copy.deepcopy(s)
                    del t["children"][i]["attrs"][k]
                    yield t
                continue
            for cc in candidates(c):
                t = copy.deepcopy(s)
                t["children"][i] = cc
                if cc["kind"] == "q" and not cc["children"]:
                    continue
                yield t
    cur = spec
    for _ in range(200):
        for cand in candidates(cur):
            try:
                if fails(cand):
                    cur = cand
                    break
            except Exception:
                continue
        else:
            return cur
    return cur


# ------------------------------------------------------------------------------------------------ foreign style
FOREIGN_FLOAT = ["Float32", "Float64", "float64", "FLOAT32"]
FOREIGN_INT = ["Int32", "Int16", "UInt16", "UInt32", "Byte", "int32"]
FOREIGN_STR = ["String", "Url", "string", "URL"]


def foreign_num(rng, v):
    """a decimal spelling other servers use for the number v, the Python value it denotes and its DAS type"""
    if isinstance(v, float):
        if math.isnan(v):
            return rng.choice(["NaN", "nan", "NaN.", "-nan", "NAN"]), v
        if math.isinf(v):
            return rng.choice(["inf", "Inf", "inf.", "INF"]) if v > 0 else rng.choice(["-inf", "-Inf", "-inf."]), v
        t = rng.choice([repr(v), "%.6g" % v, "%.3f" % v, "%e" % v, "%.1f" % v]) if abs(v) < 1e15 else repr(v)
        return t, float(t)
    return (str(v) if v < 0 or rng.random() < 0.8 else "+%d" % v), v


def foreign_attr(rng, k, v, ind, exp):
    """text of one attribute in another server's style; records in `exp` the Python value it denotes"""
    if isinstance(v, dict):
        sub = {}
        body = "".join(foreign_attr(rng, kk, vv, ind + "\t", sub) for kk, vv in v.items())
        exp[k] = sub
        return "%s%s {\n%s%s}\n" % (ind, k, body, ind)
    vals = v if isinstance(v, list) else [v]
    if isinstance(vals[0], str):
        ty = rng.choice(FOREIGN_STR)
        toks, pv = ['"%s"' % x for x in vals], list(vals)
    elif isinstance(vals[0], float):
        ty = rng.choice(FOREIGN_FLOAT)
        pairs = [foreign_num(rng, x) for x in vals]
        toks, pv = [p[0] for p in pairs], [p[1] for p in pairs]
    else:
        ty = rng.choice(FOREIGN_INT)
        pairs = [foreign_num(rng, x) for x in vals]
        toks, pv = [p[0] for p in pairs], [p[1] for p in pairs]
    exp[k] = pv if isinstance(v, list) else pv[0]
    sep = rng.choice([", ", ",", ",  ", ",\n" + ind + "    "])
    return "%s%s %s %s;\n" % (ind, ty, k, sep.join(toks))


def foreign_text(rng, spec, style):
    """an independent DAS printer in the style of other servers.
    style "nested": containers nested like the variables (tabs, other type names, free spacing);
    style "flat":   one top-level container per variable, named by its dotted id.
    Returns text, expected attributes per variable id, expected global attributes."""
    exp_vars, exp_glob = {}, {}
    out = [rng.choice(["Attributes {\n", "attributes {\n", "ATTRIBUTES\n{\n", "Attributes{"])]

    def globals_():
        t = ""
        for k, v in spec["attrs"].items():
            if k in ("NC_GLOBAL", "DODS_EXTRA") and isinstance(v, dict):
                sub = {}
                t += foreign_attr(rng, k, v, "  ", sub)
                exp_glob.update(sub[k])
        for k, v in spec["attrs"].items():
            if not (k in ("NC_GLOBAL", "DODS_EXTRA") and isinstance(v, dict)):
                t += foreign_attr(rng, k, v, "  ", exp_glob)
        return t

    def nested(node, i, ind):
        e = {}
        t = "%s%s {\n" % (ind, node["name"])
        t += "".join(foreign_attr(rng, k, v, ind + "  ", e) for k, v in node["attrs"].items())
        exp_vars[i] = e
        if node["kind"] != "g":
            for c in node["children"]:
                t += nested(c, i + "." + c["name"], ind + "  ")
        return t + "%s}\n" % ind

    if rng.random() < 0.5:
        out.append(globals_())
    if style == "nested":
        for c in spec["children"]:
            out.append(nested(c, c["name"], "  "))
    else:
        nodes = [(i, n) for i, n, excl in spec_nodes(spec) if not excl]
        rng.shuffle(nodes)
        for i, n in nodes:
            e = {}
            out.append("  %s {\n%s  }\n" % (i, "".join(foreign_attr(rng, k, v, "    ", e) for k, v in n["attrs"].items())))
            exp_vars[i] = e
    if len(out) == 1 or not exp_glob and rng.random() < 0.7:
        out.append(globals_())
    out.append("}\n")
    return "".join(out), exp_vars, exp_glob


def attach_foreign(P, spec, text):
    tmpl = build(P, spec, with_attrs=False)
    for v in P.walk(tmpl):
        v.attributes = {}
    try:
        parsed = P.parse_das(text)
    except Exception as e:
        return None, "(err parse)", type(e).__name__
    try:
        P.add_attributes(tmpl, parsed)
    except Exception as e:
        return None, "(err %s)" % type(e).__name__, type(e).__name__
    return tmpl, canon_client(P, tmpl), None


def oracle_foreign(ctx, P, case, tmpl, err, exp_vars, exp_glob):
    if tmpl is None:
        ctx.oracle_fail("a foreign-style DAS does not parse / attach", case, err, "attributes on the named variables")
        return
    d = value_diff(exp_glob, tmpl.attributes, ["<global>"], exact=True)
    if d:
        ctx.oracle_fail("foreign-style DAS: global attributes differ", case, {"at": d[0], "what": d[1]},
                        repr(exp_glob))
    for i, e in exp_vars.items():
        d = value_diff(e, tmpl[i].attributes, [i], exact=True)
        if d:
            ctx.oracle_fail("foreign-style DAS: attributes of a named variable differ", case,
                            {"var": i, "at": d[0], "what": d[1]}, repr(e))


def foreign_spec(rng):
    """datasets for the foreign stream: no name collisions, lists of two or more, unambiguous globals"""
    for _ in range(100):
        spec = gen_dataset(rng)
        if not ambiguous_globals(spec["attrs"]):
            return spec
    return {"name": "d", "attrs": {}, "children": []}


# ------------------------------------------------------------------------------------------------ Lean's foreign printer
GAPS = [" ", "\t", "  ", "\n", "\n    ", " \t "]
WSS = ["", "", " ", "\n", "\n  ", "\t"]


def rcase(rng, w):
    return "".join(ch.upper() if rng.random() < 0.5 else ch.lower() for ch in w)


def fdecor_attr(rng, k, v, exp):
    """decorated node (S-expression for `das-fprint`) of one attribute; records the Python value it denotes"""
    if isinstance(v, dict):
        sub = {}
        body = " ".join(fdecor_attr(rng, kk, vv, sub) for kk, vv in v.items())
        exp[k] = sub
        return "(fc %s (%s) %s %s %s)" % (hx(k), body, hx(rng.choice(GAPS)), hx(rng.choice(WSS)), hx(rng.choice(WSS)))
    vals = v if isinstance(v, list) else [v]
    if isinstance(vals[0], str):
        ty = rcase(rng, rng.choice(["String", "Url"]))
        toks, pv = ["(s %s)" % hx(x) for x in vals], list(vals)
    elif isinstance(vals[0], float):
        ty = rcase(rng, rng.choice(["Float32", "Float64"]))
        pairs = [foreign_num(rng, x) for x in vals]
        toks, pv = ["(n %s f)" % hx(p[0]) for p in pairs], [p[1] for p in pairs]
    else:
        ty = rcase(rng, rng.choice(["Int32", "Int16", "UInt16", "UInt32", "Byte"]))
        pairs = [foreign_num(rng, x) for x in vals]
        toks, pv = ["(n %s i)" % hx(p[0]) for p in pairs], [p[1] for p in pairs]
    exp[k] = pv if isinstance(v, list) else pv[0]
    return "(fa %s %s (%s) %s %s %s %s)" % (hx(ty), hx(k), " ".join(toks), hx(rng.choice(GAPS)), hx(rng.choice(GAPS)),
                                            hx(rng.choice(WSS)), hx(rng.choice(WSS)))


def fdecor(rng, spec):
    """`das-fprint` line for a nested foreign-layout DAS of the dataset + what it declares"""
    exp_vars, exp_glob, declared = {}, {}, {}
    items = []
    for k, v in spec["attrs"].items():
        one = {}
        items.append(fdecor_attr(rng, k, v, one))
        declared.update(one)
        if k in ("NC_GLOBAL", "DODS_EXTRA") and isinstance(v, dict):
            exp_glob.update(one[k])
    for k, v in spec["attrs"].items():
        if not (k in ("NC_GLOBAL", "DODS_EXTRA") and isinstance(v, dict)):
            exp_glob[k] = declared[k]

    def node(n, i, target):
        e, body = {}, []
        for k, v in n["attrs"].items():
            body.append(fdecor_attr(rng, k, v, e))
        exp_vars[i] = dict(e)
        if n["kind"] != "g":
            for c in n["children"]:
                body.append(node(c, i + "." + c["name"], e))
        target[n["name"]] = e
        return "(fc %s (%s) %s %s %s)" % (hx(n["name"]), " ".join(body), hx(rng.choice(GAPS)), hx(rng.choice(WSS)),
                                          hx(rng.choice(WSS)))
    for c in spec["children"]:
        items.append(node(c, c["name"], declared))
    line = "das-fprint %s %s %s (%s) %s" % (hx(rcase(rng, "attributes")), hx(rng.choice(WSS)), hx(rng.choice(WSS)),
                                          " ".join(items), hx(rng.choice(["", "\n", "\n\n", " trailing"])))
    return line, declared, exp_vars, exp_glob


def lean_foreign(ctx, P, n):
    """texts printed by the Lean foreign-layout printer (the one `C08_foreign_layout` / `C08_foreign` speak about)
    are fed to the real parse_das / add_attributes: the parse must be the declared dict, the attributes must land
    on the named variables; the same texts also go through the model's parser and add_attributes"""
    rng = ctx.rng("lean-foreign")
    todo = []
    for _ in range(n):
        spec = foreign_spec(rng)
        todo.append((spec,) + fdecor(rng, spec))
    outs = common.run_driver([t[1] for t in todo])
    pa, at = [], []
    for (spec, line, declared, exp_vars, exp_glob), out in zip(todo, outs):
        if not out.startswith("t:x"):
            raise common.InfraError("das-fprint: %s on %s" % (out, line[:200]))
        text = unhex(out[2:])
        case = {"kind": "foreign", "style": "lean-printer", "spec": spec, "text": text, "exp_vars": exp_vars,
                "exp_glob": exp_glob}
        ctx.count(("lean-foreign", text), True, tag="foreign-lean:%s" % tag_of(spec))
        try:
            parsed = P.parse_das(text)
            impl = "(ok %s)" % canon_py(parsed)
            d = value_diff(declared, parsed, ["<parsed>"], exact=True)
            if d:
                ctx.oracle_fail("foreign-layout DAS (Lean printer): parse_das differs from the declared dict", case,
                                {"at": d[0], "what": d[1]}, repr(declared))
        except Exception as e:
            impl = "(err parse)"
            ctx.oracle_fail("foreign-layout DAS (Lean printer) does not parse", case, type(e).__name__, repr(declared))
        pa.append(("das-parse " + hx(text), impl, {"text": text}))
        tmpl, impl, err = attach_foreign(P, spec, text)
        at.append(("das-attach %s %s %s" % (hx(spec["name"]), children_sexp(spec), hx(text)), impl, {"text": text}))
        if tmpl is not None or impl != "(err parse)":
            oracle_foreign(ctx, P, case, tmpl, err, exp_vars, exp_glob)
    correspond(ctx, "parse_das vs dasParse on texts of the Lean foreign printer", pa)
    correspond(ctx, "add_attributes vs addAttributes on texts of the Lean foreign printer", at)



MALFORMED = ["", "Attributes", "Attributes {", "Attributes { a { }", "Attributes { String x; }", "Attributes { String x \"a\" }",
             "Attributes { Int32 x 1 2; }", "Attributes { Int32 x abc; }", "Attributes { Int32 x 1,, 2; }",
             "Attributes { Int32 x ,1; }", "Attrib { }", "Attributes { x { Int32 y 1; } ", "Attributes { Int32 ; }",
             "Attributes { Int32 x 1; } trailing", "Attributes { Float64 x 1.5e; }", "Attributes { Float64 x 1.5e3; }",
             "Attributes { Float64 x .5, 5., 1e-3; }", "Attributes { Int32 x 007; }", "Attributes { String x \"a; }",
             "Attributes { String x \"a\"b\"; }", "Attributes { String x a b c; }", "Attributes { Int32 x 1 ; }",
             "Attributes { a.b { Int32 y 1; } }", "Attributes { Int32 x -; }", "Attributes { Int32 x 1e5; }",
             "Attributes { x{ Int32 y 1; } }", "Attributes { x {Int32 y 1;} }", "Attributes {}", "attributes{}",
             "Attributes { Int32 x 1;;}", "Attributes { Int32 x 1; Int32 x 2; }", "Attributes { x { } x { Int32 a 1; } }",
             "Attributes { Float64 x nan, NaN., -nan, inf, -inf., Inf.; }", "Attributes { Float64 x nan.0; }",
             "Attributes { String x \"\", \"a\", \"\"; }", "Attributes { String x \"\"\"; }", "Attributes { Int32 x 1\n; }",
             "Attributes { Int32 x 000, +00000, -0, 00; }", "Attributes { Int32 x 0010; }", "Attributes { Float64 x 007.5, 00e1; }"]


# ------------------------------------------------------------------------------------------------ run
def run(ctx):
    ctx.rule = ("seeded random datasets over the property's quantifier (names over [A-Za-z0-9_-]; strings over printable "
                "ASCII without double quote and backslash incl. the edge strings; ints of up to 6 digits; floats incl. "
                "integral, tiny, huge, NaN, +-inf; homogeneous lists; dicts to depth 3; Base, Grid, Structure (nested to "
                "depth 3), Sequence; Grids with maps in any stored order, non-dimension maps, no maps, repeated/anonymous "
                "dimension names; zero extents; variables named like an enclosing container, the dataset or a grammar "
                "word; NC_GLOBAL/DODS_EXTRA) served through BaseHandler and opened with open_url, plus "
                "separate streams with lists shorter than 2, with attributes named like a child / the dataset, foreign "
                "flat and nested DAS texts (Python printer), foreign-layout texts printed by the Lean specification printer "
                "(das-fprint), and malformed texts; a case is non-trivial when the dataset carries at least "
                "one attribute; distinct by the model line of the dataset")
    ctx.assumptions = ["Python's '%.6g' formatter, int(), float() and ast.literal_eval are trusted: numbers cross the "
                       "model as their printed text plus their Python type",
                       "attribute and variable names are drawn from the alphabet on which lib._quote is the identity",
                       "webob / the WSGI plumbing between BaseHandler and open_url is exercised, not modelled"]
    ctx.proof_phase()
    P = load()
    explore(ctx, P, ctx.tier)

    def wit_short():
        spec = {"name": "d", "attrs": {}, "children": [{"kind": "b", "name": "a", "attrs": {"x": [5]}, "children": []}]}
        c, _ = serve(P, spec)
        return c is None or c["a"].attributes != {"x": [5]}

    def wit_collide():
        spec = {"name": "d", "attrs": {}, "children": [
            {"kind": "s", "name": "s", "attrs": {"t": 7}, "children": [{"kind": "b", "name": "t", "attrs": {}, "children": []}]}]}
        c, _ = serve(P, spec)
        return c is None or c["s"].attributes != {"t": 7}

    return ctx.finish(search=lambda c: explore(c, P, "thorough", search=True),
                      witnesses={K_SHORT: wit_short, K_COLLIDE: wit_collide})


def tag_of(spec):
    kinds = "".join(sorted({n["kind"] for _, n, _ in spec_nodes(spec)}))
    return kinds or "empty"


def served_case(ctx, P, spec, stream, pr, pa, at, rt, do_shrink=True):
    line = ds_sexp(spec)
    nattr = len(spec["attrs"]) + sum(len(n["attrs"]) for _, n, e in spec_nodes(spec) if not e)
    ctx.count(line, nattr > 0, tag="%s:%s" % (stream, tag_of(spec)),
              sample={"stream": stream, "dataset": spec} if nattr and len(line) < 700 else None)
    for f in sorted(features(spec)):
        ctx.tags["feature:%s" % f] += 1
    meta = {"stream": stream, "spec": spec}
    # printer
    try:
        text = "".join(P.das(build(P, spec)))
        pr.append(("das-print " + line, "t:" + hx(text), meta))
    except Exception as e:
        text = None
        pr.append(("das-print " + line, "(err %s)" % type(e).__name__, meta))
    # parser on the served text
    if text is not None:
        try:
            pa.append(("das-parse " + hx(text), "(ok %s)" % canon_py(P.parse_das(text)), meta))
        except Exception:
            pa.append(("das-parse " + hx(text), "(err parse)", meta))
    # the client
    client, err = serve(P, spec)
    if client is not None:
        impl = canon_client(P, client)
        if text is not None:
            at.append(("das-attach %s %s %s" % (hx(client.name), children_sexp(spec), hx(text)), impl, meta))
        rt.append(("das-roundtrip " + line, impl, meta))
    elif text is not None:
        rt.append(("das-roundtrip " + line, "(err %s)" % err, meta))
    before = len(ctx.oracle_failures)
    oracle_served(ctx, P, spec, client, err)
    if do_shrink and len(ctx.oracle_failures) > before and ctx.extra.get("shrunk", 0) < 3:
        ctx.extra["shrunk"] = ctx.extra.get("shrunk", 0) + 1

        def fails(s):
            probe = common.Ctx(ctx.prop, ctx.tier, ctx.seed)
            probe.findings = ctx.findings
            c, e = serve(P, s)
            oracle_served(probe, P, s, c, e)
            return bool(probe.oracle_failures)
        small = shrink(P, spec, fails)
        if small is not spec:
            c, e = serve(P, small)
            oracle_served(ctx, P, small, c, e)


def explore(ctx, P, tier, search=False):
    n = 3600 if tier == "quick" else 30000
    pr, pa, at, rt = [], [], [], []
    in_class = lambda meta: (K_SHORT if meta.get("stream") == "short" else
                             K_COLLIDE if meta.get("stream") == "collide" else None)
    # (a) the property's domain
    rng = ctx.rng("domain")
    for i in range(n):
        served_case(ctx, P, gen_dataset(rng, small=(i % 3 == 0)), "domain", pr, pa, at, rt)
    rng = ctx.rng("big")
    for i in range(2 if n < 200 else 12):
        served_case(ctx, P, gen_dataset(rng, mode={"big"}, small=True), "domain", pr, pa, at, rt, do_shrink=False)
    # (b) lists shorter than two, (c) attributes named like a child / like the dataset
    rng = ctx.rng("short")
    for i in range(n // 6):
        served_case(ctx, P, gen_dataset(rng, mode={"short"}, small=True), "short", pr, pa, at, rt, do_shrink=False)
    rng = ctx.rng("collide")
    for i in range(n // 6):
        served_case(ctx, P, gen_dataset(rng, mode={"collide"}, small=(i % 2 == 0)), "collide", pr, pa, at, rt,
                    do_shrink=False)
    # (c') histories: several openings, several datasets sharing DAS text, interleaved
    history_stream(ctx, P, n // 12, rt, at)
    correspond(ctx, "das() text vs dasText", pr)
    correspond(ctx, "parse_das vs dasParse on served text", pa)
    correspond(ctx, "client attributes vs addAttributes on the served text", at)
    correspond(ctx, "client attributes vs the model's whole pipeline (dasText, dasParse, addAttributes)", rt)
    # (d) foreign-style texts
    rng = ctx.rng("foreign")
    pa, at = [], []
    for i in range(n // 2):
        spec = foreign_spec(rng)
        style = "flat" if i % 2 else "nested"
        text, exp_vars, exp_glob = foreign_text(rng, spec, style)
        case = {"kind": "foreign", "style": style, "spec": spec, "text": text, "exp_vars": exp_vars, "exp_glob": exp_glob}
        ctx.count(("foreign", text), True, tag="foreign-%s:%s" % (style, tag_of(spec)))
        try:
            pa.append(("das-parse " + hx(text), "(ok %s)" % canon_py(P.parse_das(text)), {"text": text}))
        except Exception:
            pa.append(("das-parse " + hx(text), "(err parse)", {"text": text}))
        tmpl, impl, err = attach_foreign(P, spec, text)
        at.append(("das-attach %s %s %s" % (hx(spec["name"]), children_sexp(spec), hx(text)), impl, {"text": text}))
        oracle_foreign(ctx, P, case, tmpl, err, exp_vars, exp_glob)
    correspond(ctx, "parse_das vs dasParse on foreign text", pa)
    correspond(ctx, "add_attributes vs addAttributes on foreign text", at)
    lean_foreign(ctx, P, n // 3)
    # (e) malformed texts: outcome classes only
    rng = ctx.rng("malformed")
    texts = list(MALFORMED)
    base = [t for t in (c[2]["text"] for c in pa[:60])]
    for t in base:
        r = rng.random()
        p = rng.randrange(len(t) + 1)
        texts.append(t[:p] if r < 0.4 else t[:p] + rng.choice(";,{}\" \nx1") + t[p:] if r < 0.7 else t[:p] + t[p + 1:])
    cases = []
    for t in texts:
        try:
            impl = "(ok %s)" % canon_py(P.parse_das(t))
        except Exception:
            impl = "(err parse)"
        if "bool" in impl or "other" in impl:
            continue
        cases.append(("das-parse " + hx(t), impl, {"text": t}))
        ctx.count(("mal", t), True, tag="malformed:" + impl[:5])
    correspond(ctx, "parse_das vs dasParse on malformed text", cases)


# ------------------------------------------------------------------------------------------------ replay
def replay(payload):
    """re-run the recorded failing case on the implementation; True when the property holds now"""
    P = load()
    f = payload.get("failure")
    if not f:
        print("nothing to replay: %s" % payload.get("no_longer_checks"))
        return False
    case = f["case"]
    probe = common.Ctx("C08", "quick", 0)     # failures inside a listed finding class do not count (as in `run`)
    if case["kind"] == "served":
        c, e = serve(P, case["spec"])
        oracle_served(probe, P, case["spec"], c, e)
    elif case["kind"] == "history":
        run_history(P, case["pool"], case["order"],
                    lambda step, i, c, e: oracle_served(probe, P, case["pool"][i], c, e))
    else:
        tmpl, impl, err = attach_foreign(P, case["spec"], case["text"])
        oracle_foreign(probe, P, case, tmpl, err, case["exp_vars"], case["exp_glob"])
    for x in probe.oracle_failures[:3]:
        print(x["what"], "| observed", x["observed"], "| expected", x["expected"])
    return not probe.oracle_failures
