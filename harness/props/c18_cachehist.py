"""C18 (caching-session part) — helper for harness/props/c18.py, not a check by itself.

Property: with a caching session every read returns the same data as with a plain session.
Theorems: `C18_cache_transparent_url / _consolidated / _customKey` over the model lean/PydapModel/Cache.lean.

`explore(ctx, tier)` runs REAL `requests_cache.CachedSession(backend="memory")` sessions — unpatched and patched with the
real `patch_session_for_shared_dap_cache` — over generated URL histories (2..12 GETs with repeats), against a transport
adapter that records every URL reaching the wire.

(a) correspondence (model command `cache-run`): the adapter answers every distinct wire URL with a distinct body (its
    id).  The real key of every request is taken from `session.cache.create_key(prepared)`; the (key, url-id) history
    is given to the model; compared per read: hit/miss (did the GET reach the wire) and whose body the caller got,
    plus the list of url-ids on the wire.  `response.from_cache` must agree with the wire log.
(b) direct oracle, independent of the model: the adapter answers like a server for which the explicit assumption of
    `C18_cache_transparent_customKey` holds (the body is a function of scheme, host, decoded path and the sorted
    decoded query; a declared shared constraint gets the same body in every file under the base on the base's host,
    segment boundaries, and within one Earthdata collection): every body read through a caching session must equal
    the body a plain `requests.Session` gets for the same GET, and a GET that does reach the wire must put there exactly
    the request the plain session sends.

`replay_case(case) -> bool` re-runs one recorded history on the implementation (True = property holds).
"""
import io
from urllib.parse import parse_qsl, urlsplit

from props import c18_cachekey as ck

KINDS = ["cached", "cached+keys"]


def _adapter_class():
    import requests
    import urllib3
    from requests.adapters import BaseAdapter

    class BodyAdapter(BaseAdapter):
        """answers every GET with `body_of(request.url)` (status 200) and records the URL"""

        def __init__(self, body_of, log):
            super().__init__()
            self.body_of, self.log = body_of, log

        def send(self, request, **kw):
            self.log.append(request.url)
            body = self.body_of(request.url)
            h = {"Content-Type": "application/octet-stream", "Content-Length": str(len(body))}
            raw = urllib3.HTTPResponse(body=io.BytesIO(body), headers=h, status=200, preload_content=False, reason="OK")
            r = requests.Response()
            r.status_code, r.raw, r.url, r.request, r.reason = 200, raw, request.url, request, "OK"
            r.headers = requests.structures.CaseInsensitiveDict(h)
            return r

        def close(self):
            pass

    return BodyAdapter


def make_session(kind, shared, known, body_of, log):
    requests, requests_cache, _, patch = ck._load()
    if kind == "plain":
        s = requests.Session()
    else:
        s = requests_cache.CachedSession(backend="memory")
        if kind == "cached+keys":
            patch(s, shared_vars=set(shared), known_url_list=list(known) if known else None)
    A = _adapter_class()
    s.mount("http://", A(body_of, log))
    s.mount("https://", A(body_of, log))
    return s


# ------------------------------------------------------------------------------------------------
# the two servers


class Ids:
    """distinct body per distinct wire URL"""

    def __init__(self):
        self.ids = {}

    def of(self, wire_url):
        return self.ids.setdefault(wire_url, len(self.ids))

    def body(self, wire_url):
        return b"%d" % self.of(wire_url)


def real_body(cfg, wire_url):
    """a server satisfying the explicit assumption: the answer to a declared shared constraint (the decoded first
    `dap4.ce`, as `c18_cachekey.parts` reads it) does not depend on the file under the base / in the collection;
    everything else is answered per resource (scheme, host, decoded path, sorted decoded query)"""
    sch, host, path, ce = ck.parts(wire_url)
    if ce is not None and ce in cfg.shared:
        if host == ck.EARTHDATA and ck.collection_of(path) is not None:
            return repr(("shared-ed", sch, host, ck.collection_of(path), ce)).encode()
        if cfg.base is not None and host == cfg.base[1] and ck.under_segments(path, cfg.base[2]):
            return repr(("shared", sch, host, cfg.base[2], ce)).encode()
    q = sorted(parse_qsl(urlsplit(wire_url).query, keep_blank_values=True))
    return repr(("res", sch, host, path, q)).encode()


# ------------------------------------------------------------------------------------------------


def run_history(kind, cfg, urls, body_of):
    """-> per read (the URLs it put on the wire, from_cache, body, prepared url, key or None), wire log"""
    log = []
    s = make_session(kind, cfg.shared, cfg.known, body_of, log)
    out = []
    for u in urls:
        n = len(log)
        prepared = s.prepare_request(ck._load()[0].Request("GET", u))
        pu = prepared.url
        key = s.cache.create_key(prepared) if kind != "plain" else None
        r = s.get(u)
        out.append((tuple(log[n:]), bool(getattr(r, "from_cache", False)), r.content, pu, key))
    return out, log


def model_line(reads, ids):
    return "cache-run (%s)" % " ".join("(%s %d)" % (ck.tx(key), ids.of(pu)) for (_, _, _, pu, key) in reads)


def impl_line(reads, log, ids):
    toks = []
    for (wired, from_cache, body, _, _) in reads:
        toks.append(("m:" if wired else "h:") + body.decode() + ("" if from_cache == (not wired) else "!from_cache"))
    return "(%s) wire=(%s)" % (" ".join(toks), " ".join(str(ids.of(w)) for w in log))


def check_history(ctx, cfg, urls, corr, how="generated"):
    """both passes on one history; returns True when the oracle holds"""
    ok = True
    plain, _ = run_history("plain", cfg, urls, lambda w: real_body(cfg, w))
    for kind in KINDS:
        case = dict(cfg.describe(), history=list(urls), session=kind, how=how)
        # (a) distinct bodies, against the model
        ids = Ids()
        reads, log = run_history(kind, cfg, urls, ids.body)
        corr.append((model_line(reads, ids), impl_line(reads, log, ids), case))
        hits = sum(1 for r in reads if not r[0])
        # a consolidated hit: a read served with the body of another wire URL
        cons = sum(1 for r in reads if not r[0] and r[2].decode() != str(ids.of(r[3])))
        ctx.count((cfg.ident, kind, tuple(urls)), nontrivial=hits > 0,
                  tag="hist:%s:len=%s:hits=%s:other-url-hits=%s" % (
                      kind, "2-4" if len(urls) < 5 else "5-8" if len(urls) < 9 else "9-12",
                      "0" if hits == 0 else "1-3" if hits < 4 else "4+", "0" if cons == 0 else "1+"),
                  sample={"session": kind, "history": list(urls)[:4], "hits": hits} if cons else None)
        # (b) a server under the assumption, against the plain session
        got, _ = run_history(kind, cfg, urls, lambda w: real_body(cfg, w))
        sent = [i for i in range(len(urls)) if got[i][0] and got[i][0] != plain[i][0]]
        if sent:
            ok = False
            i = sent[0]
            ctx.oracle_fail("a caching session sends another request than the plain session for the same GET", case,
                            {"read": i, "url": urls[i], "wire": list(got[i][0])}, {"wire": list(plain[i][0])},
                            size=100 * len(urls) + sum(len(u) for u in urls))
        bad = [i for i in range(len(urls)) if got[i][2] != plain[i][2]]
        if bad:
            ok = False
            i = bad[0]
            ctx.oracle_fail("a read through a caching session returns other data than through a plain session", case,
                            {"read": i, "url": urls[i], "body": got[i][2].decode("latin-1")[:200]},
                            {"body": plain[i][2].decode("latin-1")[:200]},
                            size=100 * len(urls) + sum(len(u) for u in urls))
    return ok


def replay_case(case):
    import common

    cfg = ck.Config(case["shared"], case.get("known_url_list"))
    ctx = common.Ctx("C18", "quick", 0)
    ctx.findings = []
    ok = check_history(ctx, cfg, case["history"], [], how="replay")
    for fl in ctx.oracle_failures[:3]:
        print(fl["what"], "observed", fl["observed"], "expected", fl["expected"])
    return ok


# ------------------------------------------------------------------------------------------------
# generators

FILES = ["a.nc.dap", "sub/b.nc.dap", "c.nc.dap", "%61.nc.dap"]
QSHARED = ["dap4.ce=/time%5B0:1:9%5D", "dap4.ce=/time[0:1:9]", "dap4.ce=/lat%5B0:1:4%5D"]
QOTHER = ["", "dap4.ce=/sst%5B0:1:9%5D", "dap4.ce=/time%5B0:1:9%5D;/lat%5B0:1:4%5D", "dap4.checksum=true"]
QPERM = ["a=1&dap4.ce=/time%5B0:1:9%5D", "dap4.ce=/time%5B0:1:9%5D&a=1", "b=2&a=1", "a=1&b=2",
         "dap4.ce=/sst%5B0:1:9%5D&dap4.checksum=true", "dap4.checksum=true&dap4.ce=/sst%5B0:1:9%5D"]


def gen_url(rng, cfg):
    """one URL of a class mix: under the base / sibling prefix / outside / other host / Earthdata; constraint in /
    outside the shared set / permuted parameters"""
    if rng.random() < 0.15:
        return ck.rand_url(rng, ck.HOSTS + ([cfg.base[1]] if cfg.base else []))
    if cfg.base is not None:
        sch, host, bp = cfg.base
    else:
        sch, host, bp = "http", ck.BASEHOST, "/data/set"
    r = rng.random()
    if r < 0.5:
        path = bp + "/" + rng.choice(FILES)                      # under the base
    elif r < 0.65:
        path = bp + rng.choice(["2", "X"]) + "/" + rng.choice(FILES)   # sibling prefix: /data/set2 vs /data/set
    elif r < 0.75:
        path = "/other/" + rng.choice(FILES)                     # outside
    elif r < 0.87:
        path = "/providers/POCLOUD/collections/" + rng.choice(["C1", "C1", "C2"]) + "/granules/" + rng.choice(["g1", "g2"])
        host = rng.choice([ck.EARTHDATA, ck.EARTHDATA, host])
    else:
        path = bp + "/" + rng.choice(FILES)
        host = rng.choice(["other.example.org", host.split(":")[0] + ":8080"])  # the base's path on another host / port
    q = rng.choice(QSHARED * 3 + QOTHER + QPERM)
    if rng.random() < 0.08:
        sch = "https" if sch == "http" else "http"
    return sch + "://" + host + path + ("?" + q if q else "")


def gen_history(rng, cfg):
    pool = [gen_url(rng, cfg) for _ in range(rng.randint(1, 5))]
    if rng.random() < 0.45:
        # two files of one directory tree with the same constraint: the pair consolidation is about
        sch, host, bp = cfg.base if cfg.base is not None else ("http", ck.BASEHOST, "/data/set")
        q = rng.choice(QSHARED + QPERM[:2] + QOTHER[1:2])
        f1, f2 = rng.sample(FILES, 2)
        pool += [sch + "://" + host + bp + "/" + f1 + "?" + q, sch + "://" + host + bp + "/" + f2 + "?" + q]
    return [rng.choice(pool) for _ in range(rng.randint(2, 12))]


FIXED = [
    # two files under the base, same shared constraint, then a repeat; the sibling directory in between
    ["http://data.example.org/data/set/a.nc.dap?dap4.ce=/time%5B0:1:9%5D",
     "http://data.example.org/data/set/sub/b.nc.dap?dap4.ce=/time%5B0:1:9%5D",
     "http://data.example.org/data/set2/a.nc.dap?dap4.ce=/time%5B0:1:9%5D",
     "http://data.example.org/data/set/a.nc.dap?dap4.ce=/time%5B0:1:9%5D"],
    # two different shared constraints of two files
    ["http://data.example.org/data/set/a.nc.dap?dap4.ce=/time%5B0:1:9%5D",
     "http://data.example.org/data/set/c.nc.dap?dap4.ce=/lat%5B0:1:4%5D",
     "http://data.example.org/data/set/c.nc.dap?dap4.ce=/time%5B0:1:9%5D",
     "http://data.example.org/data/set/a.nc.dap?dap4.ce=/lat%5B0:1:4%5D"],
    # a non-shared constraint and the bare files never share
    ["http://data.example.org/data/set/a.nc.dap?dap4.ce=/sst%5B0:1:9%5D",
     "http://data.example.org/data/set/c.nc.dap?dap4.ce=/sst%5B0:1:9%5D",
     "http://data.example.org/data/set/a.nc.dap", "http://data.example.org/data/set/c.nc.dap",
     "http://data.example.org/data/set/a.nc.dap?dap4.ce=/sst%5B0:1:9%5D"],
    # same path on another host / scheme; permuted parameters
    ["http://data.example.org/data/set/a.nc.dap?dap4.ce=/time%5B0:1:9%5D",
     "http://other.example.org/data/set/a.nc.dap?dap4.ce=/time%5B0:1:9%5D",
     "https://data.example.org/data/set/a.nc.dap?dap4.ce=/time%5B0:1:9%5D",
     "http://data.example.org/data/set/a.nc.dap?a=1&b=2", "http://data.example.org/data/set/a.nc.dap?b=2&a=1"],
]


def explore(ctx, tier):
    corr = []
    main = ck.Config(ck.SHARED, ck.KNOWN)
    for h in FIXED:
        for cfg in (main, ck.Config(ck.SHARED, None), ck.Config([], ck.KNOWN)):
            check_history(ctx, cfg, h, corr, how="fixed")
    rng = ctx.rng("cachehist")
    n = ctx.budget(110, 2500)
    others = [ck.Config(ck.SHARED, ck.KNOWN_ED), ck.Config(ck.SHARED, None)]
    for i in range(n):
        r = rng.random()
        cfg = main if r < 0.6 else rng.choice(others) if r < 0.8 else ck.rand_config(rng)
        check_history(ctx, cfg, gen_history(rng, cfg), corr)
    ctx.correspond("caching session over a history (hit/miss, returned body, wire) vs model cache-run", corr)
    return {"histories": n + 3 * len(FIXED), "correspondence_cases": len(corr)}
