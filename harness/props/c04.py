"""C04 — sequence constraints return exactly the selected records and columns, for every backend and entry.
Proof: lean/Props/C04.lean.  Tie: decoded `.dods` rows of `BaseHandler` for `?cols[range]&clauses` vs the Lean
`serve` model, per backend.  Oracle: plain-Python reference filter/project/slice, on the raw URL entry, on
`open_url(url?ce)` and on the client's sequence operators."""
import copy
import csv
import hashlib
import os
import re
import shutil
import struct
import tempfile
import warnings
from urllib.parse import quote

import numpy as np

import seqtab
from seqtab import OPS, hexs, item_text

LEVEL = "proof"
SID = "s"
BACKENDS = ("np", "it", "csv")


def load():
    from webob import Request

    from pydap.client import open_url
    from pydap.handlers.csv import CSVHandler
    from pydap.handlers.lib import BaseHandler, IterData
    from pydap.model import BaseType, DatasetType, SequenceType

    return dict(Request=Request, open_url=open_url, CSVHandler=CSVHandler, BaseHandler=BaseHandler,
                IterData=IterData, BaseType=BaseType, DatasetType=DatasetType, SequenceType=SequenceType)


def make_app(P, backend, names, kinds, rows, tmpdir):
    if backend == "csv":
        path = os.path.join(tmpdir, "t%s.csv" % hashlib.md5(repr((tuple(names), tuple(rows))).encode()).hexdigest()[:16])
        if not os.path.exists(path):
            with open(path, "w", newline="") as f:
                w = csv.writer(f, quoting=csv.QUOTE_NONNUMERIC)
                w.writerow(names)
                for r in rows:
                    w.writerow(r)
        return P["CSVHandler"](path), "sequence"
    ds = P["DatasetType"]("d")
    s = ds[SID] = P["SequenceType"](SID)
    for n in names:
        s[n] = P["BaseType"](n)
    if backend == "np":
        dt = [(n, {"i": "<i4", "f": "<f8", "t": "S4"}[k]) for n, k in zip(names, kinds)]
        s.data = np.array([tuple(r) for r in rows], dtype=dt)
    else:
        s.data = P["IterData"]([tuple(r) for r in rows], copy.copy(s))
    return P["BaseHandler"](ds), SID


# ---- constraint text ------------------------------------------------------------------------------------------
def render(sid, cols, rng_, clauses):
    hs = "" if rng_ is None else "[%d:%d:%d]" % rng_
    if cols is None:
        proj = sid + hs
    else:
        proj = ",".join("%s%s.%s" % (sid, hs if j == 0 else "", c) for j, c in enumerate(cols))
    return "&".join([proj] + [a + o + b for (a, o, b, _) in clauses])


def decode_dods(body, kinds_by_name):
    """independent decoder for a flat sequence of Int32/Float64/String columns"""
    head, data = body.split(b"Data:\n", 1)
    cols = re.findall(r"\b(Int32|Float64|String|Int16|UInt16|UInt32|Float32|Byte)\s+([^\s;]+);", head.decode("ascii"))
    out, pos = [], 0
    while data[pos:pos + 4] == b"\x5a\x00\x00\x00":
        pos += 4
        row = []
        for ty, _ in cols:
            if ty == "Int32":
                row.append(struct.unpack(">i", data[pos:pos + 4])[0])
                pos += 4
            elif ty == "Float64":
                row.append(struct.unpack(">d", data[pos:pos + 8])[0])
                pos += 8
            elif ty == "String":
                n = struct.unpack(">I", data[pos:pos + 4])[0]
                sv = data[pos + 4:pos + 4 + n]
                pos += 4 + n + (-n % 4)
                row.append("" if sv == b"\x00" else sv.decode("ascii"))   # "" travels as one NUL (C01's concern)
            else:
                raise ValueError("unexpected column type " + ty)
        out.append(tuple(row))
    if data[pos:] not in (b"\xa5\x00\x00\x00", b""):
        raise ValueError("trailing bytes after the sequence: %r" % data[pos:pos + 12])
    return [c[1] for c in cols], out


def canon_rows(rows):
    return "[" + " ".join(item_text(tuple(_plain(v) for v in r)) for r in rows) + "]"


def _plain(v):
    if isinstance(v, bytes):
        v = v.decode("ascii")
    if isinstance(v, str):
        return v.replace("\x00", "")
    return float(v)


def entry_raw(P, app, sid, ce, kinds_by_name):
    req = P["Request"].blank("/d.dods?" + quote(ce, safe="=&,.[]:<>!\"'()~_-"))
    req.environ["x-wsgiorg.throw_errors"] = True
    res = req.get_response(app)
    body = res.body
    if res.status_int != 200:
        raise RuntimeError("status %s" % res.status)
    return decode_dods(body, kinds_by_name)


def entry_open_url(P, app, sid, ce):
    with warnings.catch_warnings():
        warnings.simplefilter("ignore")
        ds = P["open_url"]("http://localhost/d?" + quote(ce, safe="=&,.[]:<>!\"'()~_-"), application=app)
        seq = ds[sid]
        P["_url"] = seq.data.url
        return list(seq.keys()), [tuple(r) for r in seq.iterdata()]


def apply_ops(base, seq, ops):
    """apply client operators; comparisons are written with the columns of the opened sequence `base`"""
    import functools
    for op in ops:
        if op[0] == "filt":
            ces = []
            for (c1, opsym, (kind, x)) in op[1]:
                rhs = base[x] if kind == "name" else x
                ces.append(OPS[opsym][1](base[c1], rhs))
            seq = seq[functools.reduce(lambda a, b: a & b, ces)]
        elif op[0] == "cols":
            seq = seq[tuple(op[1])]
        else:
            seq = seq[slice(op[1], op[2], op[3])]
    return seq


def plan_ops(cols, rng_, rcs, variant):
    """the operators for (cols, range, clauses); `variant` picks the order of the steps and whether the clauses are one
    conjunction `c1 & c2` or one filter each (the server filters, projects, slices whatever the order)"""
    filt = []
    if rcs:
        filt = [("filt", list(rcs))] if variant % 2 else [("filt", [rc]) for rc in rcs]
    colop = [("cols", list(cols))] if cols is not None else []
    slop = [("sl", rng_[0], rng_[2] + 1, rng_[1])] if rng_ is not None else []
    order = (variant // 2) % 3
    if order == 0:
        return filt + colop + slop
    if order == 1:
        return slop + colop + filt
    return colop + filt[:1] + slop + filt[1:]


def ops_sexp(ops):
    out = []
    for op in ops:
        if op[0] == "filt":
            out.append("(filt %s)" % " ".join(
                "(cmp %s %s %s)" % (c1, OPS[o][0], "(col %s)" % x if kind == "name" else "(val %s)" % seqtab.val_sexp(x))
                for (c1, o, (kind, x)) in op[1]))
        elif op[0] == "cols":
            out.append("(cols (%s))" % " ".join(op[1]))
        else:
            out.append("(sl %d %d %d)" % op[1:])
    return "(" + " ".join(out) + ")"


def entry_operators(P, app, sid, cols, rng_, clauses, variant=0):
    with warnings.catch_warnings():
        warnings.simplefilter("ignore")
        ds = P["open_url"]("http://localhost/d", application=app)
        base = ds[sid]
        ops = plan_ops(cols, rng_, [rc for (_, _, _, rc) in clauses], variant)
        seq = apply_ops(base, base, ops)
        P["_url"], P["_ops"] = seq.data.url, ops
        return list(seq.keys()), [tuple(r) for r in seq.iterdata()]


def entry_column(P, app, sid, col, rng_, clauses, variant=0):
    """the same selection built on ONE column of the opened sequence: `seq[c]`, then `col[seq.x OP v]` per clause and
    `col[a:b:k]`, in an order picked by `variant`; read by iterating the column (oracle only: the request text of this
    path is C14's model)"""
    import functools
    with warnings.catch_warnings():
        warnings.simplefilter("ignore")
        ds = P["open_url"]("http://localhost/d", application=app)
        base = ds[sid]
        c = base[col]
        steps = []
        for (c1, opsym, (kind, x)) in [rc for (_, _, _, rc) in clauses]:
            steps.append(("f", c1, opsym, kind, x))
        if rng_ is not None:
            steps.insert((variant * 7) % (len(steps) + 1), ("s",))
        for st in steps:
            if st[0] == "s":
                c = c[slice(rng_[0], rng_[2] + 1, rng_[1])]
            else:
                rhs = base[st[4]] if st[3] == "name" else st[4]
                c = c[OPS[st[2]][1](base[st[1]], rhs)]
        P["_url"] = None
        return [col], [((v.item() if hasattr(v, "item") else v),) for v in c]


def entry_mixed(P, app, sid, cols, rng_, clauses, variant=0):
    """part of the conjunction in the URL (`open_url(url?sid&clause…)`), the rest built with the operators on the opened
    sequence; returns the derived rows and what the opened sequence itself reads before and after the derivation"""
    n_url = (len(clauses) + 1) // 2
    url_cl, op_cl = clauses[:n_url], clauses[n_url:]
    ce = sid + "".join("&%s%s%s" % (a, o, b) for (a, o, b, _) in url_cl)
    with warnings.catch_warnings():
        warnings.simplefilter("ignore")
        ds = P["open_url"]("http://localhost/d?" + quote(ce, safe="=&,.[]:<>!\"'()~_-"), application=app)
        base = ds[sid]
        before = [tuple(r) for r in base.iterdata()]
        ops = plan_ops(cols, rng_, [rc for (_, _, _, rc) in op_cl], variant)
        seq = apply_ops(base, base, ops)
        P["_url"], P["_ops"] = seq.data.url, ops
        got = [tuple(r) for r in seq.iterdata()]
        after = [tuple(r) for r in ds[sid].iterdata()]
        return list(seq.keys()), got, before, after, url_cl


# ---- finding classes ------------------------------------------------------------------------------------------
def finding_class(entry, backend, cols, rng_, clauses, kinds_by_name=None, expected_empty=False, src_empty=False):
    """narrow classes of the open findings (known_findings.d/C04.json)"""
    if entry == "mixed":          # URL selection + operators: the operator path's classes apply
        entry = "operators"
    if backend in ("it", "csv") and src_empty:
        return "C04.lazy.no_source_records"
    colcol = any(rc[2][0] == "name" for (_, _, _, rc) in clauses)
    strcl = kinds_by_name is not None and any(kinds_by_name[rc[0]] == "t" for (_, _, _, rc) in clauses)
    return None


def check_case(ctx, P, backend, names, kinds, rows, cols, rng_, clauses, cases, tmpdir, where, entries, urlcases=None):
    app, sid = make_app(P, backend, names, kinds, rows, tmpdir)
    cl = [(a.replace(SID + ".", sid + ".", 1), o, b.replace(SID + ".", sid + ".", 1) if b.startswith(SID + ".") else b, rc)
          for (a, o, b, rc) in clauses]
    ce = render(sid, cols, rng_, cl)
    kept = seqtab.ref_filter(names, rows, [rc for (_, _, _, rc) in cl])
    want_cols = list(cols) if cols is not None else list(names)
    exp = [tuple(r[names.index(c)] for c in want_cols) for r in kept]
    if rng_ is not None:
        exp = exp[slice(rng_[0], rng_[2] + 1, rng_[1])]
    exp_text = canon_rows(exp)
    case = {"raw_class": finding_class("raw", backend, cols, rng_, cl, dict(zip(names, kinds)), not exp, not rows),
            "backend": backend, "names": names, "kinds": kinds, "rows": [list(r) for r in rows], "cols": cols,
            "range": list(rng_) if rng_ else None, "clauses": [[a, o, b, [rc[0], rc[1], list(rc[2])]] for (a, o, b, rc) in cl],
            "ce": ce}
    size = len(rows) * 10 + len(names) + 20 * len(cl) + (5 if rng_ else 0) + (3 * len(cols) if cols else 0)
    variant = (len(rows) + 2 * len(names) + 3 * len(cl) + (rng_[0] if rng_ else 0)) % 6
    if cols is not None and len(cols) == 1 and "operators" in entries:
        entries = list(entries) + ["column"]
    for entry in entries:
        P["_url"] = P["_ops"] = None
        try:
            if entry == "column":
                got_cols, got = entry_column(P, app, sid, cols[0], rng_, cl, variant)
            elif entry == "raw":
                got_cols, got = entry_raw(P, app, sid, ce, dict(zip(names, kinds)))
            elif entry == "open_url":
                got_cols, got = entry_open_url(P, app, sid, ce)
            elif entry == "mixed":
                got_cols, got, before, after, url_cl = entry_mixed(P, app, sid, cols, rng_, cl, variant)
                base_exp = canon_rows([tuple(r) for r in seqtab.ref_filter(names, rows, [rc for (_, _, _, rc) in url_cl])])
                for label, rows_ in (("before", before), ("after", after)):
                    try:
                        t = canon_rows(rows_)
                    except Exception:
                        t = "undecodable:" + repr(rows_)[:80]
                    if t != base_exp:
                        ctx.oracle_fail("mixed entry: the sequence opened with a URL selection reads other rows %s deriving "
                                        "from it with the operators" % label, dict(case, entry=entry), t, base_exp,
                                        cls=finding_class("operators", backend, None, None, url_cl,
                                                          dict(zip(names, kinds)), base_exp == canon_rows([]), not rows), size=size)
            else:
                got_cols, got = entry_operators(P, app, sid, cols, rng_, cl, variant)
            try:
                text = canon_rows(got)
            except Exception:
                text = "undecodable:" + repr(got)[:80]
            if got_cols != want_cols:
                text = "columns:%s %s" % (",".join(got_cols), text)
        except Exception as e:
            text = "err:" + type(e).__name__
        if entry == "raw":
            S = lambda x: "none" if x is None else str(x)
            line = "seq-serve %s %s %s %s %s (%s)" % (
                backend, sid, seqtab.table_sexp(names, rows),
                "none" if cols is None else "(" + " ".join(cols) + ")",
                "none" if rng_ is None else "(sl %d %d %d)" % (rng_[0], rng_[2] + 1, rng_[1]),
                " ".join("(cond %s %s %s)" % (hexs(a), OPS[o][0], hexs(b)) for (a, o, b, _) in cl))
            cases.append((line, text, case))
            # the same request as the query text itself: `parse_ce` + handler + serve in the model
            cases.append(("sc-serve %s %s %s %s" % (backend, sid, seqtab.table_sexp(names, rows), hexs(ce)), text, case))
        elif P.get("_url") and urlcases is not None:
            # client model: the query text of the GET the (derived) proxy issues
            q = P["_url"].split("?", 1)[1] if "?" in P["_url"] else ""
            tok = lambda xs: " ".join(hexs(a + o + b) for (a, o, b, _) in xs)
            if entry == "open_url":
                u = "(url (proj %s %s) (sel %s))" % (
                    "none" if cols is None else "(" + " ".join(cols) + ")",
                    "none" if rng_ is None else "(sl %d %d %d)" % (rng_[0], rng_[2] + 1, rng_[1]), tok(cl))
                ops = []
            elif entry == "mixed":
                u, ops = "(url (proj none none) (sel %s))" % tok(cl[:(len(cl) + 1) // 2]), P["_ops"]
            else:
                u, ops = "(url none)", P["_ops"]
            urlcases.append(("sc-url %s (%s) %s %s" % (sid, " ".join(names), u, ops_sexp(ops)), hexs(q),
                             dict(case, entry=entry, url=P["_url"])))
        if text != exp_text:
            ctx.oracle_fail("%s entry: rows differ from the reference filter/project/slice" % entry,
                            dict(case, entry=entry), text, exp_text,
                            cls=finding_class(entry, backend, cols, rng_, cl, dict(zip(names, kinds)), not exp, not rows), size=size)
    ctx.count((backend, tuple(names), tuple(rows), ce), bool(cl) or cols is not None or rng_ is not None,
              tag="%s:%s:cl%d:%s:%s" % (where, backend, len(cl), "cols" if cols else "whole", "range" if rng_ else "all"),
              sample=dict(case, expected=exp_text[:120]))


def gen_request(rng, names, kinds, nrows):
    cols = None
    if rng.random() < 0.7:
        cols = rng.sample(names, rng.randint(1, len(names)))
    rng_ = None
    if rng.random() < 0.5:
        a = rng.choice([0, 0, 0, 1, 2, max(nrows, 1)])
        rng_ = (a, rng.choice([1, 1, 2, 3]), rng.randint(a, a + 6))
    clauses = []
    for _ in range(rng.choice([0, 0, 1, 1, 1, 2, 3])):
        while True:
            c = seqtab.gen_clause(rng, SID, names, kinds)
            if " " not in c[2]:
                break
        clauses.append(c)
    return cols, rng_, clauses


def explore(ctx, P, tier, search=False):
    tmpdir = tempfile.mkdtemp(prefix="c04-")
    try:
        cases, urlcases, parsecases = [], [], []
        rng = ctx.rng("requests")
        n = 350 if tier == "quick" else 6000
        if search:
            n = 3000
        for j in range(n):
            names, kinds, rows = seqtab.gen_table(rng)
            rows = [tuple(v for v in r) for r in rows]
            if any(isinstance(v, str) and " " in v for r in rows for v in r):
                rows = [tuple("ab" if isinstance(v, str) and " " in v else v for v in r) for r in rows]
            cols, rng_, clauses = gen_request(rng, names, kinds, len(rows))
            for backend in BACKENDS:
                check_case(ctx, P, backend, names, kinds, rows, cols, rng_, clauses, cases, tmpdir, "random",
                           ("raw", "open_url", "operators") + (("mixed",) if clauses else ()), urlcases)
            parsecases.append(parse_case(render(SID, cols, rng_, clauses)))
        colcol_block(ctx, P, cases, urlcases, tmpdir)
        ctx.correspond("BaseHandler .dods rows for ?cols[range]&clauses", cases, known_class=lambda m: m.get("raw_class"))
        ctx.correspond("SequenceProxy.url of the proxy derived by the client operators / installed by open_url(url?ce)", urlcases)
        for t in ("", "s", "s.i>1", "s&s.i>1&&s.t=\"a\"", "s[2].i,s.f", "s[1:3][0:2:8].i", "s.i[3:4]", "a.b.c,d[1]&x<2", "s]", "s[",
                  "s[1:2:3:4]", "s[x]", "f(s.i,2)", "s.i,&"):
            parsecases.append(parse_case(t))
        ctx.correspond("parse_ce on the query text", parsecases)
        # clause texts and encode(): driver instances vs Python
        from pydap.lib import encode
        from pydap.parsers import parse_selection  # noqa: F401
        cases = []
        for k, pool in seqtab.POOL.items():
            for v in pool:
                cases.append(("seq-enc %s" % seqtab.val_sexp(v), hexs(encode(v)), {"value": v}))
                for o in OPS:
                    t = "s.ab" + o + seqtab.lit_text(v)
                    a, op, b = re.split("(<=|>=|!=|=~|>|<|=)", t, 1)
                    cases.append(("ce-clause %s" % hexs(t), "(%s %s %s)" % (hexs(a), OPS[op][0], hexs(b)), {"clause": t}))
        ctx.correspond("clause split and encode()", cases)
    finally:
        shutil.rmtree(tmpdir, ignore_errors=True)


def parse_case(q):
    """`parse_ce(q)` in the driver's canonical form"""
    from pydap.parsers import parse_ce
    try:
        proj, sel = parse_ce(q)
        if any(isinstance(p, str) for p in proj):
            out = "none"            # a function call: outside the model
        else:
            sl = lambda x: "none" if x is None else str(x)
            out = "(%s) (%s)" % (
                " ".join("(%s)" % " ".join("(%s (%s))" % (hexs(n), " ".join("(%s %s %s)" % (sl(k.start), sl(k.stop), sl(k.step))
                                                                           for k in slab)) for (n, slab) in item)
                         for item in proj),
                " ".join(hexs(t) for t in sel))
    except Exception:
        out = "none"
    return ("sc-parse %s" % hexs(q), out, {"query": q})


CC_NAMES, CC_KINDS = ["i", "j", "f", "t", "u"], ["i", "i", "f", "t", "t"]
CC_ROWS = [(1, 2, 1.0, "a", "b"), (2, 2, 2.5, "b", "b"), (3, 1, 0.5, "cd", "ab"), (4, 4, 4.0, "ab", "cd"), (0, 7, -0.5, "b", "a")]


def colcol_block(ctx, P, cases, urlcases, tmpdir):
    """column-vs-column clauses between DIFFERENT columns, all six operators, every backend and entry, in every run:
    on these rows `a OP b` never selects what `b OP b` (or `a OP a`) selects"""
    for o in OPS:
        ran = {}
        for (c1, c2) in (("i", "j"), ("j", "i"), ("f", "i"), ("t", "u")):
            want = seqtab.ref_filter(CC_NAMES, CC_ROWS, [(c1, o, ("name", c2))])
            assert want != seqtab.ref_filter(CC_NAMES, CC_ROWS, [(c2, o, ("name", c2))])
            assert want != seqtab.ref_filter(CC_NAMES, CC_ROWS, [(c1, o, ("name", c1))])
            clause = ("%s.%s" % (SID, c1), o, "%s.%s" % (SID, c2), (c1, o, ("name", c2)))
            for backend in BACKENDS:
                for cols in (None, [c2, "t"]):
                    check_case(ctx, P, backend, CC_NAMES, CC_KINDS, CC_ROWS, cols, None, [clause], cases, tmpdir, "colcol",
                               ("raw", "open_url", "operators", "mixed"), urlcases)
                    ran[backend] = ran.get(backend, 0) + 1
        # one tag per operator naming the backends it really ran on (evidence keeps the 60 most frequent tags)
        ctx.tags["colcol-different-columns:%s:on-%s:x4-entries" % (OPS[o][0], "+".join(b for b in BACKENDS if ran.get(b)))] += \
            sum(ran.values())


W_NAMES, W_KINDS = ["i", "f", "t"], ["i", "f", "t"]
W_ROWS = [(1, 1.5, "ab"), (2, 1.5, "cd"), (3, 2.5, "ab"), (4, -1.0, "b")]
WITNESS = {
    "C04.lazy.no_source_records": dict(backend="it", cols=None, rng_=None, entry="raw", clauses=[], rows=[]),
}


def witness_fails(P, key):
    w = WITNESS[key]

    class Rec:
        fail = 0

        def oracle_fail(self, *a, **k):
            self.fail += 1

        def count(self, *a, **k):
            pass

    rec = Rec()
    tmpdir = tempfile.mkdtemp(prefix="c04w-")
    try:
        check_case(rec, P, w["backend"], W_NAMES, W_KINDS, w.get("rows", W_ROWS), w["cols"], w["rng_"], w["clauses"], [], tmpdir,
                   "witness", (w["entry"],))
    finally:
        shutil.rmtree(tmpdir, ignore_errors=True)
    return rec.fail > 0


def run(ctx):
    ctx.rule = ("seeded random tables of 0..8 rows x 1..5 columns (Int32, dyadic Float64, ASCII strings), column "
                "subsets/permutations or the whole sequence, record ranges [a:s:b], 0..3 clauses col OP const / "
                "col OP col (same kind), each on 3 backends (numpy structured array, IterData, CSV file) x 3 entries "
                "(raw .dods URL decoded independently, open_url(url?ce), seq[cond][cols][range] operators); "
                "the operators entry varies step order (3) and conjunction vs one filter per clause; plus a fixed block of "
                "column-vs-column clauses between different columns x 6 operators x 3 backends x 4 entries x {whole, columns}; "
                "non-trivial = the constraint has a projection, a range or a clause; distinct by (backend, table, CE)")
    ctx.assumptions = ["the empty string travels as one NUL byte in DAP2 sequences (C01/C05 finding) and is read back as ''",
                       "URL quoting/unquoting of the query is an identity on the generated characters (not modelled)",
                       "the client's decoding of the answer (unpack_sequence) is exercised by the oracle only"]
    ctx.proof_phase()
    P = load()
    explore(ctx, P, ctx.tier)
    return ctx.finish(search=lambda c: explore(c, P, "thorough", search=True),
                      witnesses={k: (lambda k=k: witness_fails(P, k)) for k in WITNESS})


def replay(payload):
    P = load()
    f = payload.get("failure")
    if not f:
        print("nothing to replay: %s" % payload.get("no_longer_checks"))
        return False
    c = f["case"]
    rows = [tuple(r) for r in c["rows"]]
    clauses = [(a, o, b, (rc[0], rc[1], tuple(rc[2]))) for (a, o, b, rc) in c["clauses"]]
    rng_ = tuple(c["range"]) if c["range"] else None

    class Rec:
        def __init__(self):
            self.fail = []
            self.tags = {}

        def oracle_fail(self, what, case, observed, expected, cls=None, size=None):
            self.fail.append((what, observed, expected))

        def count(self, *a, **k):
            pass

    rec = Rec()
    tmpdir = tempfile.mkdtemp(prefix="c04r-")
    try:
        check_case(rec, P, c["backend"], c["names"], c["kinds"], rows, c["cols"], rng_,
                   [(a.replace("sequence.", "s.", 1), o, b.replace("sequence.", "s.", 1), rc) for (a, o, b, rc) in clauses],
                   [], tmpdir, "replay", (c.get("entry", "raw"),))
    finally:
        shutil.rmtree(tmpdir, ignore_errors=True)
    for what, obs, exp in rec.fail:
        print(what, "observed", obs, "expected", exp)
    return not rec.fail
