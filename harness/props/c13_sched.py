"""C13 oracle (b): a deterministic thread scheduler.

2-3 requests run in real threads against ONE application object; exactly one thread runs at a time (a baton
guarded by a condition variable).  Preemption points are the `call` events of `sys.settrace` for frames whose
code lives under $VERIF_REPO/src/pydap (function entries and generator resumptions).  A *plan* is a list of
(thread, k): run `thread` for k preemption points (or to its end), then switch; when the plan is used up the
unfinished threads run to completion in index order.  Every outcome must equal the request's solo outcome on a
fresh application, and the served dataset's deep snapshot must be unchanged.
"""
import os
import sys
import threading

import common
from props import c13_fix as F

SRC = os.path.join(common.REPO, "src", "pydap") + os.sep
TIMEOUT = 60


class Baton:
    def __init__(self, n, plan):
        self.cv = threading.Condition()
        self.n = n
        self.plan = list(plan)
        self.done = [False] * n
        self.points = [0] * n
        self.turn = None
        self.left = None
        self.preemptions = 0
        self.dead = False
        self._next_segment()

    # all methods below are called with self.cv held
    def _next_segment(self):
        while self.plan:
            t, k = self.plan.pop(0)
            if not self.done[t]:
                self.turn, self.left = t, k
                return
        for t in range(self.n):
            if not self.done[t]:
                self.turn, self.left = t, None
                return
        self.turn = None

    def wait_turn(self, t):
        while self.turn != t:
            if self.dead:
                raise SystemExit
            if not self.cv.wait(TIMEOUT):
                self.dead = True
                self.cv.notify_all()
                raise common.InfraError("scheduler: thread %d starved (deadlock in the harness?)" % t)

    def point(self, t):
        with self.cv:
            self.points[t] += 1
            if self.left is None:
                return
            if self.left == 0:
                self.preemptions += 1
                self._next_segment()
                self.cv.notify_all()
                self.wait_turn(t)
                return
            self.left -= 1

    def finish(self, t):
        with self.cv:
            self.done[t] = True
            if self.turn == t:
                self._next_segment()
            self.cv.notify_all()


def run_schedule(app, urls, plan):
    """returns (outcomes, points per thread, preemptions)"""
    n = len(urls)
    baton = Baton(n, plan)
    outs = [None] * n
    errs = []

    def worker(t):
        def tracer(frame, event, arg):
            if event == "call" and frame.f_code.co_filename.startswith(SRC):
                baton.point(t)
            return None
        try:
            with baton.cv:
                baton.wait_turn(t)
            sys.settrace(tracer)
            try:
                outs[t] = F.call(app, urls[t])
            finally:
                sys.settrace(None)
        except BaseException as e:  # harness trouble, never a property outcome
            errs.append(e)
        finally:
            baton.finish(t)

    threads = [threading.Thread(target=worker, args=(t,), daemon=True) for t in range(n)]
    for th in threads:
        th.start()
    for th in threads:
        th.join(TIMEOUT * 2)
        if th.is_alive():
            raise common.InfraError("scheduler: worker did not finish")
    for e in errs:
        if isinstance(e, common.InfraError):
            raise e
        raise common.InfraError("scheduler worker raised %r" % (e,))
    return outs, baton.points, baton.preemptions


def solo_points(spec, url):
    app = F.make_app(spec)[0]
    outs, pts, _ = run_schedule(app, [url], [])
    return outs[0], pts[0]


def check_schedule(ctx, spec, urls, plan, solo, where):
    app, handler, ds = F.make_app(spec)
    snap = F.snapshot(ds)
    outs, pts, pre = run_schedule(app, urls, plan)
    case = {"oracle": "schedule", "spec": spec, "urls": urls, "plan": [list(p) for p in plan]}
    bad = False
    for t, (got, exp) in enumerate(zip(outs, solo)):
        if got != exp:
            ctx.oracle_fail("response depends on the thread schedule", dict(case, thread=t), F.show(got), F.show(exp),
                            size=len(repr(spec)) + 60 * len(urls) + sum(k for _, k in plan))
            bad = True
            break
    if not bad and F.snapshot(ds) != snap:
        ctx.oracle_fail("served dataset changed by concurrent requests", case, "snapshot differs", "unchanged",
                        size=len(repr(spec)) + 60 * len(urls))
        bad = True
    ctx.count(("sched", repr(spec), tuple(urls), tuple(map(tuple, plan))), pre >= 1,
              tag="%s:threads=%d:preemptions=%d" % (where, len(urls), min(pre, 3)),
              sample={"urls": urls, "plan": plan[:3], "points": pts})
    return not bad


def replay_case(c):
    spec, urls, plan = c["spec"], c["urls"], [tuple(p) for p in c["plan"]]
    solo = [F.call(F.make_app(spec)[0], u) for u in urls]
    app, handler, ds = F.make_app(spec)
    snap = F.snapshot(ds)
    outs, pts, pre = run_schedule(app, urls, plan)
    ok = True
    for u, got, exp in zip(urls, outs, solo):
        if got != exp:
            print("schedule %s: %s -> %s, alone -> %s" % (plan, u, F.show(got), F.show(exp)))
            ok = False
    if F.snapshot(ds) != snap:
        print("schedule %s: served dataset changed" % (plan,))
        ok = False
    return ok


# the pairs worth exhausting: they touch the same variables through different pipeline branches
FIXED_GROUPS = [
    ["/d.dods?s&s.i>1", "/d.dods?s.i,s.w"],
    ["/d.ascii?s.w&s.i>=2&s.f<3", "/d.dods?s[0:2:3]"],
    ["/d.dods?a[1:2:7]", "/d.dods?mean(a)"],
    ["/d.dods?g[0:1][1:2]", "/d.dods?mean(g,1)"],
    ["/d.dods?s&bounds(0,5,0,5,0,5,00Z01JAN1970,00Z01JAN1970)", "/d.das"],
    ["/d.dods?st.in.r[1]", "/d.dds?p", "/d.dods?nofunc(a)"],
    ["/d.dods", "/d.ascii", "/d.dods?a[x]"],
]


def one_preemption_plans(pts):
    """every schedule with at most one preemption of a 2- or 3-thread run (the preempted thread, the point, and
    for 3 threads which of the others goes first)"""
    n = len(pts)
    for t in range(n):
        others = [u for u in range(n) if u != t]
        for k in range(pts[t]):
            yield [(t, k), (others[0], 10 ** 9)]
            if n == 3:
                yield [(t, k), (others[1], 10 ** 9)]


def two_preemption_plans(pts, stride=1):
    n = len(pts)
    for t in range(n):
        for u in range(n):
            if u == t:
                continue
            for k in range(0, pts[t], stride):
                for j in range(0, pts[u], stride):
                    yield [(t, k), (u, j), (t, 10 ** 9)]


TINY_SPEC = {"name": "d", "attrs": {"title": "t"},
             "vars": [["base", "a", "i4", [4], {"units": "m"}],
                      ["seq", "s", {}, [["i", "i4", "x"], ["w", "S", None]], 3]]}
TINY_GROUPS = [["/d.dods?s&s.i>1", "/d.dods?s.i"], ["/d.dods?a[1:2]", "/d.ascii?s.w&s.i<9"]]


class Rec(object):
    """stands in for ctx inside pool workers: records the calls, the parent replays them"""

    def __init__(self):
        self.calls = []

    def count(self, *a, **k):
        self.calls.append(("count", a, k))

    def oracle_fail(self, *a, **k):
        self.calls.append(("oracle_fail", a, k))


_solo_cache = {}


def _solo(spec, url):
    key = (repr(spec), url)
    if key not in _solo_cache:
        _solo_cache[key] = F.call(F.make_app(spec)[0], url)
    return _solo_cache[key]


def _job(job):
    spec, urls, plans, where = job
    rec = Rec()
    solo = [_solo(spec, u) for u in urls]
    for plan in plans:
        if not check_schedule(rec, spec, urls, plan, solo, where):
            break
    return rec.calls


def chunks(xs, n):
    return [xs[i:i + n] for i in range(0, len(xs), n)]


def explore(ctx, tier, rng, specs, search=False):
    import multiprocessing

    quick = tier == "quick" and not search
    jobs = []
    notes = []
    # warm-up in the parent (imports, regex and singledispatch caches) and the points of every request
    for spec, groups, label in ((F.FIXED_SPEC, FIXED_GROUPS, "fixed"), (TINY_SPEC, TINY_GROUPS, "tiny")):
        for gi, urls in enumerate(groups):
            pts = []
            for u in urls:
                o, p = solo_points(spec, u)
                ref = _solo(spec, u)
                if o != ref:
                    ctx.oracle_fail("response differs when run in a worker thread",
                                    {"oracle": "schedule", "spec": spec, "urls": [u], "plan": []}, F.show(o), F.show(ref))
                pts.append(p)
            one = list(one_preemption_plans(pts))
            tag = "one-preemption-exhaustive"
            if quick and label == "fixed" and gi >= 2:
                one, tag = one[gi % 8::8], "one-preemption-sampled"
            for ch in chunks(one, 120):
                jobs.append((spec, urls, ch, tag))
            if label == "tiny":
                # two preemptions: exhaustive on the tiny dataset in the thorough tier, a lattice in the quick tier
                stride = 12 if quick else 1
                two = list(two_preemption_plans(pts, stride=stride))
                for ch in chunks(two, 150):
                    jobs.append((spec, urls, ch, "two-preemptions-%s" % ("lattice" if stride > 1 else "exhaustive")))
                notes.append("%s %s: points=%s one-preemption=%d two-preemption(stride %d)=%d"
                             % (label, urls, pts, len(one), stride, len(two)))
            else:
                if not quick:
                    stride = max(1, int((2.0 * pts[0] * pts[1] / 12000.0) ** 0.5))
                    two = list(two_preemption_plans(pts[:2], stride=stride))
                    for ch in chunks(two, 150):
                        jobs.append((spec, urls[:2], ch, "two-preemptions-lattice"))
                    notes.append("%s %s: points=%s one-preemption=%d two-preemption lattice stride %d=%d"
                                 % (label, urls, pts, len(one), stride, len(two)))
                else:
                    notes.append("%s %s: points=%s one-preemption=%d" % (label, urls, pts, len(one)))
    # random schedules with more preemptions, random datasets and request groups
    n_random = 300 if quick else 8000
    rnd = []
    for i in range(n_random):
        if i % 3 == 0:
            spec, urls = F.FIXED_SPEC, rng.sample(F.FIXED_REQUESTS, rng.choice([2, 3]))
        else:
            spec = rng.choice(specs)
            urls = [F.rand_request(rng, spec)[0] for _ in range(rng.choice([2, 2, 3]))]
        plan = [(rng.randrange(len(urls)), rng.choice([0, 1, 2, 3, 5, 8, 13, 21, 34, 55, 89, rng.randint(0, 400)]))
                for _ in range(rng.randint(2, 12))]
        rnd.append((spec, urls, [plan], "random"))
    jobs += rnd
    workers = max(2, min(14, (os.cpu_count() or 4) - 2))
    total = 0
    with multiprocessing.get_context("fork").Pool(workers) as pool:
        for calls in pool.imap_unordered(_job, jobs, chunksize=1):
            for name, a, k in calls:
                getattr(ctx, name)(*a, **k)
                if name == "count":
                    total += 1
    ctx.extra["schedules_run"] = ctx.extra.get("schedules_run", 0) + total
    ctx.extra["schedule_groups"] = notes
