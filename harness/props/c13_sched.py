"""C13 oracle (b): a deterministic thread scheduler.

2-3 requests run in real threads against ONE application object; exactly one thread runs at a time (a baton
guarded by a condition variable).  Preemption points are the `call` events of `sys.settrace` for frames whose
code lives under $VERIF_REPO/src/pydap (function entries and generator resumptions).  A *plan* is a list of
(thread, k): run `thread` for k preemption points (or to its end), then switch; when the plan is used up the
unfinished threads run to completion in index order.  Every outcome must equal the request's solo outcome on a
fresh application, and the served dataset's deep snapshot must be unchanged.
"""
import os
import sys
import threading

import common
from props import c13_fix as F

SRC = os.path.join(common.REPO, "src", "pydap") + os.sep
TIMEOUT = 60
INF = 10 ** 9


class Baton:
    def __init__(self, n, plan):
        self.cv = threading.Condition()
        self.n = n
        self.plan = list(plan)
        self.done = [False] * n
        self.points = [0] * n
        self.turn = None
        self.left = None
        self.preemptions = 0
        self.dead = False
        self._next_segment()

    # all methods below are called with self.cv held
    def _next_segment(self):
        while self.plan:
            t, k = self.plan.pop(0)
            if not self.done[t]:
                self.turn, self.left = t, k
                return
        for t in range(self.n):
            if not self.done[t]:
                self.turn, self.left = t, None
                return
        self.turn = None

    def wait_turn(self, t):
        while self.turn != t:
            if self.dead:
                raise SystemExit
            if not self.cv.wait(TIMEOUT):
                self.dead = True
                self.cv.notify_all()
                raise common.InfraError("scheduler: thread %d starved (deadlock in the harness?)" % t)

    def point(self, t):
        with self.cv:
            self.points[t] += 1
            if self.left is None:
                return
            if self.left == 0:
                self.preemptions += 1
                self._next_segment()
                self.cv.notify_all()
                self.wait_turn(t)
                return
            self.left -= 1

    def finish(self, t):
        with self.cv:
            self.done[t] = True
            if self.turn == t:
                self._next_segment()
            self.cv.notify_all()


def run_schedule(app, urls, plan, gran="call", record=None, probe=None):
    """returns (outcomes, points per thread, preemptions).

    gran="call": preemption points are the `call` events of pydap frames (function entry, generator resume);
    gran="line": additionally every `line` event of a pydap frame, i.e. a thread can be switched out between any
    two source lines of any pydap function.  `record` (a list per thread) receives (filename, function, lineno) of
    every point; `probe(t, k)` is called at every point before the scheduling decision (used to find the lines
    that write module-level state)."""
    n = len(urls)
    baton = Baton(n, plan)
    outs = [None] * n
    errs = []
    line = gran == "line"

    def worker(t):
        rec = record[t] if record is not None else None

        def at(frame):
            if rec is not None:
                rec.append((frame.f_code.co_filename[len(SRC):], frame.f_code.co_name, frame.f_lineno))
            if probe is not None:
                probe(t, baton.points[t])
            baton.point(t)

        def local(frame, event, arg):
            if event == "line":
                at(frame)
            return local

        def tracer(frame, event, arg):
            if event == "call" and frame.f_code.co_filename.startswith(SRC):
                at(frame)
                return local if line else None
            return None
        try:
            with baton.cv:
                baton.wait_turn(t)
            sys.settrace(tracer)
            try:
                outs[t] = F.call(app, urls[t])
            finally:
                sys.settrace(None)
        except BaseException as e:  # harness trouble, never a property outcome
            errs.append(e)
        finally:
            baton.finish(t)

    threads = [threading.Thread(target=worker, args=(t,), daemon=True) for t in range(n)]
    for th in threads:
        th.start()
    for th in threads:
        th.join(TIMEOUT * 2)
        if th.is_alive():
            raise common.InfraError("scheduler: worker did not finish")
    for e in errs:
        if isinstance(e, common.InfraError):
            raise e
        raise common.InfraError("scheduler worker raised %r" % (e,))
    return outs, baton.points, baton.preemptions


def solo_points(spec, url, gran="call", record=None, probe=None):
    app = F.make_app(spec)[0]
    outs, pts, _ = run_schedule(app, [url], [], gran=gran, record=[record] if record is not None else None,
                                probe=probe)
    return outs[0], pts[0]


def plan_frozen(plan):
    """read-only served arrays for half of the schedules (by the parity of the first preemption point), writeable for
    the other half; the solo answers always come from a writeable application"""
    return not plan or plan[0][1] % 2 == 0


def check_schedule(ctx, spec, urls, plan, solo, where, gran="call"):
    app, handler, ds = F.make_app(spec, plan_frozen(plan))
    snap = F.snapshot(ds)
    outs, pts, pre = run_schedule(app, urls, plan, gran=gran)
    case = {"oracle": "schedule", "gran": gran, "spec": spec, "urls": urls, "plan": [list(p) for p in plan]}
    bad = False
    for t, (got, exp) in enumerate(zip(outs, solo)):
        if got != exp:
            ctx.oracle_fail("response depends on the thread schedule (%s granularity)" % gran, dict(case, thread=t),
                            F.show(got), F.show(exp),
                            size=200000 + len(repr(spec)) + 60 * len(urls) + 10 * len(plan)
                            + min(sum(k for _, k in plan if k < INF), 50000) // 100)
            bad = True
            break
    if not bad and F.snapshot(ds) != snap:
        ctx.oracle_fail("served dataset changed by concurrent requests", case, "snapshot differs", "unchanged",
                        size=150000 + len(repr(spec)) + 60 * len(urls))
        bad = True
    ctx.count(("sched", gran, repr(spec), tuple(urls), tuple(map(tuple, plan))), pre >= 1,
              tag="%s:%s:threads=%d:preemptions=%d" % (where, gran, len(urls), min(pre, 3)),
              sample={"urls": urls, "gran": gran, "plan": plan[:3], "points": pts})
    return not bad


def replay_case(c):
    spec, urls, plan = c["spec"], c["urls"], [tuple(p) for p in c["plan"]]
    gran = c.get("gran", "call")
    solo = [F.call(F.make_app(spec, False)[0], u) for u in urls]
    app, handler, ds = F.make_app(spec, plan_frozen(plan))
    snap = F.snapshot(ds)
    rec = [[] for _ in urls]
    outs, pts, pre = run_schedule(app, urls, plan, gran=gran, record=rec)
    ok = True
    for u, got, exp in zip(urls, outs, solo):
        if got != exp:
            print("schedule %s (%s points): %s -> %s, alone -> %s" % (plan, gran, u, F.show(got), F.show(exp)))
            ok = False
    if F.snapshot(ds) != snap:
        print("schedule %s: served dataset changed" % (plan,))
        ok = False
    if not ok:
        for t, k in plan[:-1]:
            if 0 <= k < len(rec[t]):
                print("  thread %d (%s) switched out before %s:%s line %d" % ((t, urls[t]) + rec[t][k]))
    return ok


# the pairs worth exhausting: they touch the same variables through different pipeline branches
FIXED_GROUPS = [
    ["/d.dods?s&s.i>1", "/d.dods?s.i,s.w"],
    ["/d.ascii?s.w&s.i>=2&s.f<3", "/d.dods?s[0:2:3]"],
    ["/d.dods?a[1:2:7]", "/d.dods?mean(a)"],
    ["/d.dods?g[0:1][1:2]", "/d.dods?mean(g,1)"],
    ["/d.dods?s&bounds(0,5,0,5,0,5,00Z01JAN1970,00Z01JAN1970)", "/d.das"],
    ["/d.dods?st.in.r[1]", "/d.dds?p", "/d.dods?nofunc(a)"],
    ["/d.dods", "/d.ascii", "/d.dods?a[x]"],
    # two function calls on an application that has served none yet (whatever a first call sets up must not be
    # visible half-done to a second one)
    ["/d.dods?mean(a)", "/d.dods?mean(g,1)"],
]


def one_preemption_plans(pts):
    """every schedule with at most one preemption of a 2- or 3-thread run (the preempted thread, the point, and
    for 3 threads which of the others goes first)"""
    n = len(pts)
    for t in range(n):
        others = [u for u in range(n) if u != t]
        for k in range(pts[t]):
            yield [(t, k), (others[0], 10 ** 9)]
            if n == 3:
                yield [(t, k), (others[1], 10 ** 9)]


def two_preemption_plans(pts, stride=1):
    n = len(pts)
    for t in range(n):
        for u in range(n):
            if u == t:
                continue
            for k in range(0, pts[t], stride):
                for j in range(0, pts[u], stride):
                    yield [(t, k), (u, j), (t, 10 ** 9)]


TINY_SPEC = {"name": "d", "attrs": {"title": "t"},
             "vars": [["base", "a", "i4", [4], {"units": "m"}],
                      ["seq", "s", {}, [["i", "i4", "x"], ["w", "S", None]], 3]]}
TINY_GROUPS = [["/d.dods?s&s.i>1", "/d.dods?s.i"], ["/d.dods?a[1:2]", "/d.ascii?s.w&s.i<9"]]


# lazy (IterData) sequences: hyperslab / selection / projection on the plain and on the ranged one
LAZY_GROUPS = [["/d.dods?s[1:1:8]", "/d.ascii?r.g&r.j!=3"], ["/d.dods?r[1:1:8]", "/d.dods?s.i,s.w", "/d.ascii?s&s.i>1"]]

# nested lazy sequences over list records and over numpy records: a selection on the inner sequence (its filter map runs
# on the first source record) beside a plain read of the same sequence
NEST_SCHED_SPEC = {"name": "d", "attrs": {"title": "nested-sched"},
                   "vars": [["nseq", "nl", {}, [["j", "i4", "x"]], 3, "list", ["ml", [["u", "i4"], ["q", "i2"]], 1]],
                            ["nseq", "nr", {}, [["h", "i4", None]], 2, "nprec", ["mr", [["c", "i4"], ["o", "f8"]], 0]]]}
NEST_GROUPS = [["/d.dods?nl&nl.ml.u>4", "/d.dods?nl"], ["/d.ascii?nr.mr.o&nr.mr.c<7", "/d.ascii?nr[0:1]&nr.mr.c>4"]]


class Rec(object):
    """stands in for ctx inside pool workers: records the calls, the parent replays them"""

    def __init__(self):
        self.calls = []

    def count(self, *a, **k):
        self.calls.append(("count", a, k))

    def oracle_fail(self, *a, **k):
        self.calls.append(("oracle_fail", a, k))


_solo_cache = {}


def _solo(spec, url):
    key = (repr(spec), url)
    if key not in _solo_cache:
        _solo_cache[key] = F.call(F.make_app(spec, False)[0], url)
    return _solo_cache[key]


def _job(job):
    spec, urls, plans, where, gran = job
    rec = Rec()
    solo = [_solo(spec, u) for u in urls]
    for plan in plans:
        if not check_schedule(rec, spec, urls, plan, solo, where, gran=gran):
            break
    return rec.calls


def chunks(xs, n):
    return [xs[i:i + n] for i in range(0, len(xs), n)]




def strided(xs, budget, offset=0):
    """at most ~budget elements of xs, evenly strided, starting at a seed-dependent offset"""
    if len(xs) <= budget:
        return xs, 1
    stride = -(-len(xs) // budget)
    return xs[offset % stride::stride], stride


def run_jobs(ctx, jobs):
    import multiprocessing

    workers = max(2, min(14, (os.cpu_count() or 4) - 2))
    total = 0
    with multiprocessing.get_context("fork").Pool(workers) as pool:
        for calls in pool.imap_unordered(_job, jobs, chunksize=1):
            for name, a, k in calls:
                getattr(ctx, name)(*a, **k)
                if name == "count":
                    total += 1
    ctx.extra["schedules_run"] = ctx.extra.get("schedules_run", 0) + total
    return total


def explore(ctx, tier, rng, specs, search=False):
    """Budgets (schedules; measured ~450 schedules/s on 14 workers):
    quick   ~28 k: line-level one-preemption EXHAUSTIVE on the tiny pairs; call-level one-preemption exhaustive on
                   two fixed pairs and every 12th point of the other fixed and the lazy groups; 150 seeded random line points per fixed
                   group; a stride-14 lattice of call-level two-preemption schedules on the tiny pairs; 300 random
                   multi-preemption schedules (half of them at line granularity).
    thorough ~170 k: line-level one-preemption exhaustive on the tiny pairs and two fixed pairs, every 4th (3 threads:
                   8th) line point (seeded offset) + every call point of the other fixed and the lazy groups;
                   two-preemption call-level lattices capped at ~14 k per tiny pair and 3 k per other pair; 5000 random.
    failing-input search (middle budget ~60 k): as quick but every 4th call point and 400 random line points per group,
                   1500 random."""
    quick = tier == "quick" and not search
    full = tier == "thorough" and not search     # (the failing-input search uses the middle budget)
    jobs = []
    notes = []
    off = rng.randrange(1 << 16)
    # warm-up in the parent (imports, regex and singledispatch caches) and the points of every request
    for spec, groups, label in ((F.FIXED_SPEC, FIXED_GROUPS, "fixed"), (TINY_SPEC, TINY_GROUPS, "tiny"),
                                (F.LAZY_SPEC, LAZY_GROUPS, "lazy"), (NEST_SCHED_SPEC, NEST_GROUPS, "nested")):
        for gi, urls in enumerate(groups):
            if label == "nested" and quick and gi > 0:
                continue        # (the numpy-record pair: failing-input search and thorough tier)
            if label in ("lazy", "nested"):
                gi += 2         # sampled like the later fixed groups
            pts, lpts = [], []
            for u in urls:
                o, p = solo_points(spec, u)
                o2, p2 = solo_points(spec, u, gran="line")
                ref = _solo(spec, u)
                for oo, g in ((o, "call"), (o2, "line")):
                    if oo != ref:
                        ctx.oracle_fail("response differs when run in a traced worker thread",
                                        {"oracle": "schedule", "gran": g, "spec": spec, "urls": [u], "plan": []},
                                        F.show(oo), F.show(ref))
                pts.append(p)
                lpts.append(p2)
            one = list(one_preemption_plans(pts))
            line_one = list(one_preemption_plans(lpts))
            if label == "tiny":
                # line granularity, every single preemption point: subsumes the call-level one-preemption schedules
                for ch in chunks(line_one, 120):
                    jobs.append((spec, urls, ch, "one-preemption-exhaustive", "line"))
                # two preemptions (call level): a lattice; the full square is ~10^6 schedules
                allsq = sum(pts[t] * pts[u] for t in range(len(pts)) for u in range(len(pts)) if u != t)
                stride = max(1, int((allsq / (14000.0 if full else 2000.0)) ** 0.5) + 1)
                two = list(two_preemption_plans(pts, stride=stride))
                for ch in chunks(two, 150):
                    jobs.append((spec, urls, ch, "two-preemptions-lattice", "call"))
                notes.append("%s %s: call points=%s line points=%s one-preemption(line, exhaustive)=%d "
                             "two-preemption(call, stride %d of %d)=%d"
                             % (label, urls, pts, lpts, len(line_one), stride, allsq, len(two)))
                continue
            if full and gi < 2:
                sample, tag = line_one, "one-preemption-exhaustive"      # subsumes the call-level ones
            else:
                if quick and gi >= 2:
                    sub, ctag = one[(gi + off) % 12::12], "one-preemption-sampled"
                elif not full and gi >= 2:
                    sub, ctag = one[(gi + off) % 4::4], "one-preemption-sampled"
                else:
                    sub, ctag = one, "one-preemption-exhaustive"
                for ch in chunks(sub, 120):
                    jobs.append((spec, urls, ch, ctag, "call"))
                if full:
                    st = 4 if len(urls) == 2 else 8
                    sample, tag = line_one[off % st::st], "one-preemption-every-%dth" % st
                else:
                    sample = rng.sample(line_one, min(150 if quick else 400, len(line_one)))
                    tag = "one-preemption-random-sample"
            for ch in chunks(sample, 120):
                jobs.append((spec, urls, ch, tag, "line"))
            note = "%s %s: call points=%s line points=%s line-level one-preemption %s=%d" % (
                label, urls, pts, lpts, tag, len(sample))
            if full:
                stride = max(1, int((2.0 * pts[0] * pts[1] / 3000.0) ** 0.5))
                two = list(two_preemption_plans(pts[:2], stride=stride))
                for ch in chunks(two, 150):
                    jobs.append((spec, urls[:2], ch, "two-preemptions-lattice", "call"))
                note += " two-preemption(call) lattice stride %d=%d" % (stride, len(two))
            notes.append(note)
    # random schedules with more preemptions, random datasets and request groups
    n_random = 300 if quick else 5000 if full else 1500
    for i in range(n_random):
        if i % 3 == 0:
            spec, urls = F.FIXED_SPEC, rng.sample(F.FIXED_REQUESTS, rng.choice([2, 3]))
        else:
            spec = rng.choice(specs)
            urls = [F.rand_request(rng, spec)[0] for _ in range(rng.choice([2, 2, 3]))]
        gran = "line" if i % 2 else "call"
        scale = 4 if gran == "line" else 1
        plan = [(rng.randrange(len(urls)),
                 scale * rng.choice([0, 1, 2, 3, 5, 8, 13, 21, 34, 55, 89, rng.randint(0, 400)]) + rng.randrange(scale))
                for _ in range(rng.randint(2, 12))]
        jobs.append((spec, urls, [plan], "random", gran))
    run_jobs(ctx, jobs)
    ctx.extra["schedule_groups"] = notes


# ---- targeted line-level search around module-level state ---------------------------------------------
def _profile(spec, url, labels):
    """one solo line-level run of `url`: the points, and the indices of the points right after which (and right
    before which) one of the containers `labels` changed"""
    from props import c13_modstate as M

    import time

    rec = []
    state = {"n": 0, "objs": None, "last": None, "spent": 0.0, "every": 1}
    hits = []

    def probe(t, k):
        # re-fingerprinting a container that holds whole datasets at each of 20 k lines can take minutes: once 10 s
        # have gone into fingerprints the probe looks at every 8th line, after 25 s at every 64th (a hit then means
        # "changed within the last lines"; the static function targeting does not depend on the probe)
        state["n"] += 1
        if state["every"] > 1 and state["n"] % state["every"]:
            return
        t0 = time.time()
        try:
            _probe(t, k)
        finally:
            state["spent"] += time.time() - t0
            state["every"] = 64 if state["spent"] > 25 else 8 if state["spent"] > 10 else 1

    def _probe(t, k):
        if state["objs"] is None or state["n"] % 64 == 0:
            r = M.roots()
            state["objs"] = [r.get(l) for l in labels]
        cur = tuple(M.fp(o) if o is not None else "<absent>" for o in state["objs"])
        if state["last"] is not None and cur != state["last"]:
            hits.append(k)
        state["last"] = cur

    out, n = solo_points(spec, url, gran="line", record=rec, probe=probe)
    return out, rec, hits


def _profile_job(job):
    return _profile(*job)


def _signature(url):
    path, _, q = url.partition("?")
    return (path.rsplit(".", 1)[-1], "(" in q, "&" in q, "[" in q)


def _diverse(rng, urls, n):
    """up to n urls, one per request signature (response kind, function, selection, hyperslab) first"""
    groups = {}
    for u in sorted(set(urls)):
        groups.setdefault(_signature(u), []).append(u)
    for g in groups.values():
        rng.shuffle(g)
    out = []
    keys = sorted(groups)
    while len(out) < n and any(groups[k] for k in keys):
        for k in keys:
            if groups[k] and len(out) < n:
                out.append(groups[k].pop())
    return out


def targeted(ctx, rng, breaks, search=False, seen=()):
    """`breaks`: [{"label", "spec", "url", "value"}] — requests that were seen to change a module-level container,
    with a hash of the value they left in it.  For every such container: the functions that name it (static) or
    were running when it changed (dynamic).  Request pairs (A, B) on the same dataset with different solo outcomes:
      (1) the pairs with the longest common URL prefix (same variables through different branches: shared buffers);
      (2) A from a signature-diverse set of ALL requests served on that dataset (`seen`: readers are victims too)
          x B one representative of every distinct value left in the container (what B does to A is determined
          by what B leaves behind: shared flags/scratch).
    For every pair: every one-preemption schedule that switches A out at a line of one of those functions (and at
    the lines around an observed write), lets B run to completion, then resumes A; for (1) also with the roles
    swapped.  Failures are recorded with the schedule."""
    from props import c13_modstate as M
    import multiprocessing

    by = {}
    for b in breaks:
        g = by.setdefault(b["label"], {}).setdefault(repr(b["spec"]), (b["spec"], {}))
        g[1].setdefault(b["url"], b.get("value"))
    jobs = []
    notes = []
    k1, n_a, n_cls, per_pair, n_groups = (24, 36, 12, 40, 2) if search else (8, 24, 12, 40, 1)
    cap = 20000 if search else 6000          # targeted schedules per container
    for label in sorted(by):
        funcs = set(M.functions_naming([label]))
        # (the dataset with the most writers first, but beyond 30 writers the smaller dataset: its runs are shorter)
        groups = sorted(by[label].values(), key=lambda g: (-min(len(g[1]), 30), len(repr(g[0]))))
        pairs = []          # (spec, a, b, both roles?)
        cands = []
        for spec, vals in groups:
            urls = sorted(vals)
            for i in range(len(urls)):
                for j in range(i + 1, len(urls)):
                    if _solo(spec, urls[i]) != _solo(spec, urls[j]):
                        cands.append((-len(os.path.commonprefix([urls[i], urls[j]])), rng.random(), spec, urls[i], urls[j]))
        cands.sort(key=lambda c: c[:2])
        for _, _, spec, ua, ub in cands[:k1]:
            pairs.append((spec, ua, ub, True))
        for spec, vals in groups[:n_groups]:
            aset = _diverse(rng, list(vals) + [u for sp, u in seen if sp == spec], n_a)
            classes = {}
            for u in sorted(vals):
                classes.setdefault(vals[u], []).append(u)
            reps = [rng.choice(classes[v]) for v in rng.sample(sorted(classes, key=repr), min(n_cls, len(classes)))]
            for a in aset:
                for b in reps:
                    if a != b and _solo(spec, a) != _solo(spec, b):
                        pairs.append((spec, a, b, False))
        todo = []
        for spec, ua, ub, both in pairs:
            for u in ((ua, ub) if both else (ua,)):
                if (spec, u, [label]) not in todo:
                    todo.append((spec, u, [label]))
        with multiprocessing.get_context("fork").Pool(max(2, min(14, (os.cpu_count() or 4) - 2))) as pool:
            prof = {(repr(j[0]), j[1]): r for j, r in zip(todo, pool.map(_profile_job, todo, chunksize=1))}
        # functions seen writing the container join the target set
        for _, rec, hits in prof.values():
            for k in hits:
                for kk in (k - 1, k):
                    if 0 <= kk < len(rec):
                        funcs.add(rec[kk][:2])

        def points(spec, u, cap):
            """the lines right around an observed write always; the other lines of the functions strided to cap"""
            _, rec, hits = prof[(repr(spec), u)]
            near = set(k for h in hits for k in (h - 1, h, h + 1) if 0 <= k < len(rec))
            rest = [k for k, p in enumerate(rec) if p[:2] in funcs and k not in near]
            rest, _ = strided(rest, cap, rng.randrange(1 << 16))
            return sorted(near | set(rest))

        n_plans = 0
        label_jobs = []
        near_points = {key: set(k for h in r[2] for k in (h - 1, h, h + 1)) for key, r in prof.items()}
        for spec, ua, ub, both in pairs:
            plans = [[(0, k), (1, INF)] for k in points(spec, ua, per_pair * (4 if both else 1))]
            if both:
                plans += [[(1, k), (0, INF)] for k in points(spec, ub, per_pair * 4)]
            label_jobs.append((spec, [ua, ub], plans))
        total = sum(len(j[2]) for j in label_jobs)
        keep = 1 if total <= cap else -(-total // cap)
        o = rng.randrange(1 << 16)
        for spec, pair, plans in label_jobs:
            if keep > 1:
                near = [pl for pl in plans if pl[0][1] in near_points.get((repr(spec), pair[pl[0][0]]), ())]
                plans = near + [pl for i, pl in enumerate(plans) if (i + o) % keep == 0 and pl not in near]
            n_plans += len(plans)
            for ch in chunks(plans, 100):
                jobs.append((spec, pair, ch, "targeted-line:%s" % label.rsplit(".", 1)[1], "line"))
        notes.append("%s: functions %s; %d closest-prefix pairs (of %d candidates) + %d (request x value-class) pairs, "
                     "%d targeted one-preemption schedules"
                     % (label, sorted("%s:%s" % f for f in funcs), min(len(cands), k1), len(cands),
                        len(pairs) - min(len(cands), k1), n_plans))
    if jobs:
        run_jobs(ctx, jobs)
    ctx.extra["targeted_line_search"] = ctx.extra.get("targeted_line_search", []) + notes
