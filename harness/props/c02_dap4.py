"""C02 — DAP4 end to end: a reference DAP4 server that also honours `dap4.ce` in the DMR request.

`harness/oracle/refdap4.py` (written for C10, not edited) answers `.dmr` with the unconstrained DMR whatever the
query says.  A dataset opened as `url?dap4.ce=/v[a:s:b]` must see the *constrained* shape, so `PreRefServer`
subclasses the reference server: a `.dmr` request with a `dap4.ce` declares only the projected variables, each
with the extents numpy gives for the hyperslab (shared `<Dimension>`s resized, as Hyrax does, or anonymous
`<Dim size=…/>`, chosen by the caller).  Data requests are served by the parent class unchanged (numpy slicing of
the source array, clipping like numpy).

`decode_response` is a second, independent reader of a DAP4 data response (chunk headers, byte order flag, CRC32)
used to cross-check what the server sent before anything is blamed on pydap's decoder.

Nothing in this module imports pydap.
"""
import copy
import zlib
from urllib.parse import unquote

import numpy as np

from oracle import refdap4 as R

TYPES = {"i4": "Int32", "f8": "Float64", "u1": "UInt8", "i2": "Int16", "u2": "UInt16", "f4": "Float32", "i8": "Int64"}


def make_spec(shape, dtype):
    """dataset `ds` with shared dimensions d0.., the variable /a over them and an unrelated variable /z"""
    items = [{"k": "dim", "name": "d%d" % i, "size": int(n)} for i, n in enumerate(shape)]
    items.append({"k": "dim", "name": "dz", "size": 2})
    items.append({"k": "var", "type": "Int16", "name": "z", "dims": [{"ref": "/dz"}], "attrs": [], "maps": []})
    items.append({"k": "var", "type": TYPES[dtype], "name": "a", "dims": [{"ref": "/d%d" % i} for i in range(len(shape))],
                  "attrs": [], "maps": []})
    return {"name": "ds", "items": items}


def make_source(shape, dtype):
    """values are the flat source indices (≤ 215 for extents ≤ 6, rank ≤ 3: exact in every dtype used)"""
    return np.arange(int(np.prod(shape))).astype(dtype).reshape(shape)


def split_ce(query):
    """`dap4.ce=/a[..];/b[..]` -> [(fq name, [slice, ...]), ...] (reference parser, inclusive last index)"""
    if not query.startswith("dap4.ce="):
        raise ValueError("no dap4.ce: %r" % query)
    out = []
    for tok in query[len("dap4.ce="):].split(";"):
        if tok:
            name, slices = R.parse_dap4_ce(tok)
            out.append((name if name.startswith("/") else "/" + name, slices))
    return out


class PreRefServer(R.RefServer):
    def __init__(self, root, arrays, little=True, rng=None, anon_dims=False):
        R.RefServer.__init__(self, root, arrays, little=little, rng=rng)
        self.anon_dims = anon_dims
        self.bodies = []

    def constrained_root(self, query):
        proj = dict(split_ce(query))
        root = copy.deepcopy(self.root)
        sizes = {}
        keep = []
        for it in root["items"]:
            if it["k"] != "var":
                keep.append(it)
                continue
            key = "/" + it["name"]
            if key not in proj:
                continue
            arr = self.arrays[key]
            slices = proj[key]
            if len(slices) > arr.ndim:
                raise ValueError("too many hyperslabs")
            for s, n in zip(slices, arr.shape):
                if s.start < 0 or s.step < 1 or s.start >= n or s.start >= s.stop:
                    raise ValueError("hyperslab out of range: %r for extent %d" % (s, n))
            cshape = arr[tuple(slices)].shape
            if self.anon_dims:
                it["dims"] = [{"size": int(n)} for n in cshape]
            else:
                for d, n in zip(it["dims"], cshape):
                    if sizes.setdefault(d["ref"], int(n)) != int(n):
                        raise ValueError("shared dimension sliced two ways")
            keep.append(it)
        missing = set(proj) - set("/" + it["name"] for it in keep if it["k"] == "var")
        if missing:
            raise KeyError(sorted(missing))
        used = set(d.get("ref") for it in keep if it["k"] == "var" for d in it["dims"])
        out = []
        for it in keep:
            if it["k"] == "dim":
                if "/" + it["name"] not in used:
                    continue
                it["size"] = sizes.get("/" + it["name"], it["size"])
            out.append(it)
        root["items"] = out
        return root

    def __call__(self, environ, start_response):
        path = environ.get("PATH_INFO", "")
        query = unquote(environ.get("QUERY_STRING", ""))
        if not (path.endswith(".dmr") and query):
            sent = []

            def sr(status, headers, exc_info=None):
                sent.append(status)
                return start_response(status, headers)
            body = R.RefServer.__call__(self, environ, sr)
            self.bodies.append((path, query, sent[0] if sent else "", b"".join(body)))
            return body
        self.requests.append((path, query))
        try:
            body = R.render_dmr(self.constrained_root(query)).encode("ascii")
        except Exception as e:
            body = ("reference server error: %r" % (e,)).encode("ascii", "replace")
            start_response("400 Bad Request", [("Content-Type", "text/plain"), ("Content-Length", str(len(body)))])
            self.bodies.append((path, query, "400 Bad Request", body))
            return [body]
        start_response("200 OK", [("Content-Type", "application/vnd.opendap.dap4.dataset-metadata+xml"),
                                  ("Content-Length", str(len(body)))])
        self.bodies.append((path, query, "200 OK", body))
        return [body]


def decode_response(body, dtype, count):
    """independent reader: -> (dmr text, flat array of `count` values of `dtype`, crc ok?)"""
    pos = 0
    chunks = []
    little = None
    while pos < len(body):
        flags = body[pos]
        size = int.from_bytes(body[pos + 1:pos + 4], "big")
        if little is None:
            little = bool(flags & 4)
        chunks.append(body[pos + 4:pos + 4 + size])
        pos += 4 + size
        if flags & 1:
            break
    dmr = chunks[0].decode("ascii")
    data = b"".join(chunks[1:])
    dt = np.dtype(dtype).newbyteorder("<" if little else ">")
    n = dt.itemsize * count
    vals = np.frombuffer(data[:n], dtype=dt)
    crc = int.from_bytes(data[n:n + 4], "little" if little else "big")
    return dmr, vals, crc == (zlib.crc32(data[:n]) & 0xFFFFFFFF) and len(data) == n + 4
