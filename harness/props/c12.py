"""C12 — dataset tree consistency under histories of edits and copies; quoting laws.
Proof: lean/Props/C12.lean.  Tie: `_quote`/`unquote` vs the Lean model exhaustively on short strings +
random long ones; random operation histories over several live handles on the real model.py classes vs the
Lean store (`c12-run`), every handle dumped after every operation, lookups (`obj[key]`, dotted fall-back included)
as operations of the history and after every operation.  Oracle: the invariant, identity separation, the frame
condition, `dataset[v.id] is v` and history independence of every lookup, evaluated directly on the real objects."""
import copy
import re

import common
from common import hexb

LEVEL = "proof"

LEGAL = set("ABCDEFGHIJKLMNOPQRSTUVWXYZabcdefghijklmnopqrstuvwxyz0123456789_!~*'\"/%-")
LIT = re.compile(r"%[0-9A-Fa-f]{2}")
ALPHABET = list("adp4Z09_-~!*'\"/%.[] &=?#+:,(\\|2E5BDb") + ["é", "日", "𝄞", "\x7f"]
assert len(ALPHABET) == 40 and len(set(ALPHABET)) == 40, len(set(ALPHABET))


def load():
    import pydap.model as M
    from pydap.lib import _quote, get_var, unquote, walk
    return M, _quote, unquote, walk, get_var


def sx(s):
    """a Python str as the driver's Str: one atom per character"""
    return "(" + " ".join(hexb(ch.encode("utf-8", "surrogatepass")) for ch in s) + ")"


def hx(s):
    return hexb(s.encode("utf-8", "surrogatepass"))


# ------------------------------------------------------------------------------------------------
# quoting
def quote_case(ctx, fns, s, cases, ucases, where, lcases=None):
    M, _quote, unquote, walk, get_var = fns
    case = {"kind": "quote", "name": s}
    try:
        q = _quote(s)
    except Exception as e:
        ctx.oracle_fail("_quote raised", case, type(e).__name__, "a string")
        return
    cases.append(("c12-quote " + sx(s), hx(q), {"name": s}))
    if lcases is not None:
        # the guard of C12_quote_reversible (`noLit`) is the guard the oracle uses (no literal %XX)
        lcases.append(("c12-nolit " + sx(s), "0" if LIT.search(s) else "1", {"name": s}))
    quote_oracle(ctx, fns, s, q, case)
    try:
        u = unquote(q)
        if "�" not in u:
            ucases.append(("c12-unquote " + sx(q), hx(u), {"quoted": q}))
    except Exception:
        pass
    nontrivial = q != s
    ctx.count(("q", s), nontrivial, tag=where + ":" + ("dap4" if s[:4] == "dap4" else "lit" if LIT.search(s) else
                                                      "nonascii" if any(ord(c) > 127 for c in s) else
                                                      "quoted" if nontrivial else "plain"),
              sample=case if nontrivial else None)


def quote_oracle(ctx, fns, s, q, case):
    M, _quote, unquote, walk, get_var = fns
    ok = True
    if _quote(q) != q:
        ctx.oracle_fail("_quote is not idempotent", case, _quote(q), q, size=len(s))
        ok = False
    if not LIT.search(s):
        u = unquote(q)
        if u != s:
            ctx.oracle_fail("unquote(_quote(name)) != name for a name free of literal %XX", case, u, s, size=len(s))
            ok = False
    if s[:4] != "dap4":
        bad = [c for c in q if c not in LEGAL]
        if bad:
            ctx.oracle_fail("_quote leaves characters that are not legal in a DAP identifier", case, q,
                            "only [A-Za-z0-9_!~*'\"/%-]", size=len(s))
            ok = False
    return ok


def explore_quote(ctx, fns, tier, search=False):
    M, _quote, unquote, walk, get_var = fns
    cases, ucases, lcases = [], [], []
    import itertools
    for n in range(0, 4):
        for t in itertools.product(ALPHABET, repeat=n):
            quote_case(ctx, fns, "".join(t), cases, ucases, "scope", lcases)
    ctx.correspond("_quote", cases)
    ctx.correspond("noLit (guard of C12_quote_reversible)", lcases[::5] if tier == "quick" and not search else lcases)
    ctx.correspond("unquote", ucases[::7] if tier == "quick" and not search else ucases)
    cases, ucases, lcases = [], [], []
    rng = ctx.rng("quote-long")
    extra = ["dap4", "dap", "%2E", "%5b", "%", "%%", "%4", "€", "ß", "ࠀ", "\U0010ffff", "\x00", "\n", "dap4.ce"]
    for _ in range(ctx.budget(15000, 150000)):
        r = rng.random()
        n = rng.randint(4, 40)
        s = "".join(rng.choice(ALPHABET + extra) for _ in range(n))
        if r < 0.3:
            s = "dap4" + s[: rng.randint(0, 12)]
        elif r < 0.35:
            s = "dap4" + "".join(rng.choice(["é", "日", "𝄞", "%", "2", "E"]) for _ in range(rng.randint(0, 6)))
        quote_case(ctx, fns, s, cases, ucases, "long", lcases)
    ctx.correspond("_quote", cases)
    ctx.correspond("noLit (guard of C12_quote_reversible)", lcases)
    ctx.correspond("unquote", ucases)
    # unquote on strings that are not outputs of _quote: ASCII escape alphabet, ASCII results only
    ucases = []
    esc = list("%%%2E5BDbe.[]aG0 ")
    for _ in range(ctx.budget(6000, 60000)):
        s = "".join(rng.choice(esc) for _ in range(rng.randint(0, 12)))
        try:
            u = unquote(s)
        except Exception as e:
            ctx.oracle_fail("unquote raised", {"kind": "unquote", "name": s}, type(e).__name__, "a string")
            continue
        if all(ord(c) < 128 for c in u):
            ucases.append(("c12-unquote " + sx(s), hx(u), {"text": s}))
            ctx.count(("u", s), "%" in s, tag="unquote-raw")
    ctx.correspond("unquote", ucases)


# ------------------------------------------------------------------------------------------------
# symbolic data objects
class D(object):
    __iter__ = None
    __slots__ = ("t",)

    def __init__(self, t):
        self.t = t

    def __getitem__(self, k):
        if isinstance(k, list):
            return D(("items", self.t, tuple(k)))
        return D(("item", self.t, k))

    def __copy__(self):
        return D(("copy", self.t))


def dterm(t):
    if t[0] == "a":
        return "a%d" % t[1]
    if t[0] == "item":
        return "(item %s %s)" % (dterm(t[1]), hx(t[2]) if isinstance(t[2], str) else "?%r" % (t[2],))
    if t[0] == "items":
        return "(items %s (%s))" % (dterm(t[1]), " ".join(hx(k) for k in t[2]))
    if t[0] == "copy":
        return "(copy %s)" % dterm(t[1])
    return "?"


def ddump(d):
    if d is None:
        return "none"
    if isinstance(d, D):
        return dterm(d.t)
    return "?%s" % type(d).__name__


KINDS = ["base", "struct", "seq", "grid", "dataset"]


def kind_of(M, o):
    t = type(o)
    return {M.BaseType: "base", M.StructureType: "struct", M.SequenceType: "seq", M.GridType: "grid",
            M.DatasetType: "dataset"}.get(t, "other:" + t.__name__)


def make(M, kind, name, atom):
    if kind == "base":
        return M.BaseType(name, D(("a", atom)))
    return {"struct": M.StructureType, "seq": M.SequenceType, "grid": M.GridType, "dataset": M.DatasetType}[kind](name)


def is_cont(M, o):
    return isinstance(o, M.StructureType)


def traverse(M, o, out):
    """pre-order over _dict (hidden children included)"""
    out.append(o)
    if is_cont(M, o):
        for c in o._dict.values():
            traverse(M, c, out)


def aval(v):
    if isinstance(v, int):
        return "n%d" % v
    if isinstance(v, list):
        return "(dl " + " ".join(ddump(x) for x in v) + ")"
    return "?%r" % (v,)


def odump(M, o, canon):
    k = kind_of(M, o)
    vis = o._visible_keys if is_cont(M, o) else []
    data = o._data if k in ("base", "seq") else None
    attrs = sorted("(%s %s)" % (hx(a), aval(v)) for a, v in o.attributes.items())
    kids = [odump(M, c, canon) for c in o._dict.values()] if is_cont(M, o) else []
    return "(%s %s %s o%d (v %s) (a %s) %s (%s))" % (k, hx(o.name), hx(o.id), canon(o), " ".join(hx(x) for x in vis),
                                                    " ".join(attrs), ddump(data), " ".join(kids))


def observe(fns, o):
    M, _quote, unquote, walk, get_var = fns
    if is_cont(M, o):
        ks = " ".join(hx(k) for k in o.keys())
        try:
            ch = " ".join(hx(c.name) for c in o.children())
        except Exception:
            ch = "E"
    else:
        ks, ch = "", ""
    try:
        ws = list(walk(o))
        wk = " ".join(hx(v.id) for v in ws)
    except Exception:
        ws, wk = None, "E"
    if isinstance(o, M.DatasetType):
        gv = ""
        for v in (ws or [o])[1:]:
            try:
                gv += "1" if get_var(o, v.id) is v else "0"
            except Exception:
                gv += "E"
    else:
        gv = "-"
    return "[k %s][c %s][w %s][g %s]" % (ks, ch, wk, gv)


def below(M, o, prefix=(), _seen=None):
    """every object strictly below a container, pre-order over _dict (hidden children included), with the names
    on the way.  A container met again on its own path (structure shared so that the "tree" has a cycle — reported by
    the separation oracle) is not descended into a second time."""
    out = []
    seen = (_seen or set()) | {id(o)}
    if is_cont(M, o):
        for c in o._dict.values():
            p = prefix + (c.name,)
            out.append((p, c))
            if id(c) not in seen:
                out.extend(below(M, c, p, seen))
    return out


def do_lookup(obj, key):
    """obj[key] -> ("ok", result) / ("err", class name)"""
    try:
        return ("ok", obj[key])
    except (KeyError, TypeError, IndexError) as e:
        return ("err", type(e).__name__)
    except Exception as e:
        return ("err", "escaped:" + type(e).__name__)


def found_str(M, res, number):
    """canonical text of a lookup result; `number(obj)` is the object's number when it belongs to the tree / store"""
    if res[0] == "err":
        return res[1]
    r = res[1]
    n = number(r)
    if n is not None:
        return "o%d" % n
    if type(r) is M.BaseType:
        attrs = sorted("(%s %s)" % (hx(a), aval(v)) for a, v in r.attributes.items())
        return "(derived %s %s (a %s) %s)" % (hx(r.name), hx(r.id), " ".join(attrs), ddump(r._data))
    return "?fresh:" + type(r).__name__


def all_pairs(M, root):
    """(container A, key) for every container A of the tree and every v below it: v's id and the dotted names
    from A to v"""
    objs = []
    traverse(M, root, objs)
    out = []
    for a in objs:
        if is_cont(M, a):
            for p, v in below(M, a):
                out.append((a, v.id))
                out.append((a, ".".join(p)))
    return out


def lookups_text(M, root, number):
    res = [found_str(M, do_lookup(a, key), number) for a, key in all_pairs(M, root)]
    return "[L " + " ".join("%s,%s" % (res[i], res[i + 1]) for i in range(0, len(res), 2)) + "]"


def rebuild(M, o):
    """the same tree built from nothing: fresh objects, no history (names are stored quoted, so the constructors
    keep them)"""
    k = kind_of(M, o)
    if k == "base":
        c = M.BaseType(o.name, o._data)
    elif k == "seq":
        c = M.SequenceType(o.name, o._data)
    else:
        c = type(o)(o.name)
    c.attributes = dict(o.attributes)
    c._id = o._id
    if is_cont(M, o):
        for key, child in o._dict.items():
            c._dict[key] = rebuild(M, child)
        c._visible_keys = list(o._visible_keys)
    return c


def history_independence_problems(M, root, extra=()):
    """every lookup on the tree as it is now answers like the same lookup on a tree of the same shape built from
    nothing (position of the answer in the tree / description of a derived variable / exception class)"""
    twin = rebuild(M, root)
    a, b = [], []
    traverse(M, root, a)
    traverse(M, twin, b)
    na = {id(o): i for i, o in enumerate(a)}
    nb = {id(o): i for i, o in enumerate(b)}
    bad = []
    # a target that is not an object of the tree (navigation went through a Base variable with data: BaseType.__getitem__
    # derives a fresh variable; the model calls that step `outside`) has no twin to compare with
    queries = [(na[id(x)], key) for x, key in all_pairs(M, root)] + [(na[id(x)], key) for x, key in extra if id(x) in na]
    for i, key in queries:
        ra = found_str(M, do_lookup(a[i], key), lambda r: na.get(id(r)))
        rb = found_str(M, do_lookup(b[i], key), lambda r: nb.get(id(r)))
        if ra != rb:
            bad.append(("%r[%r] answers %s; the same tree built without this history answers %s"
                        % (a[i].id, key, ra, rb), ra, rb))
    return bad


# ------------------------------------------------------------------------------------------------
# the direct oracle on real objects
def invariant_problems(fns, root):
    M, _quote, unquote, walk, get_var = fns
    bad = []
    objs = []
    traverse(M, root, objs)
    for o in objs:
        if _quote(o.name) != o.name:
            bad.append("name %r is not a quoted name" % o.name)
        if not is_cont(M, o):
            continue
        for k, c in o._dict.items():
            if k != c.name:
                bad.append("dict key %r holds a variable named %r" % (k, c.name))
        vis = o._visible_keys
        if len(set(vis)) != len(vis):
            bad.append("%r lists a child twice: visible keys %r" % (o.id, vis))
        for k in vis:
            if k not in o._dict:
                bad.append("%r: visible key %r is not a key of the container" % (o.id, k))
        try:
            ch = list(o.children())
        except Exception as e:
            bad.append("%r: children() raised %s" % (o.id, type(e).__name__))
            continue
        if len(set(map(id, ch))) != len(ch):
            bad.append("%r: children() yields a child twice" % o.id)
        if [c.name for c in ch] != list(vis):
            bad.append("%r: children() %r differs from the visible keys %r" % (o.id, [c.name for c in ch], vis))
        if sorted(o.keys()) != sorted(c.name for c in ch):
            bad.append("%r: keys() %r and children() %r list different children" % (o.id, list(o.keys()),
                                                                                   [c.name for c in ch]))
        for c in ch:
            exp = c.name if isinstance(o, M.DatasetType) else o.id + "." + c.name
            if c.id != exp:
                bad.append("child id %r, expected %r" % (c.id, exp))
    if isinstance(root, M.DatasetType) and not bad:
        for v in list(walk(root))[1:]:
            try:
                r = get_var(root, v.id)
            except Exception as e:
                bad.append("get_var(dataset, %r) raised %s" % (v.id, type(e).__name__))
                continue
            if r is not v:
                bad.append("get_var(dataset, %r) is not that variable" % v.id)
            res = do_lookup(root, v.id)
            if res[0] != "ok" or res[1] is not v:
                bad.append("dataset[%r] is not the variable with that id (%s)"
                           % (v.id, res[1] if res[0] == "err" else "another object, id %r" % getattr(res[1], "id", None)))
    return bad


def snapshot(M, root):
    """what can be seen through a handle: structure, ids, visible keys, attributes, data identity"""
    objs = []
    traverse(M, root, objs)
    out = []
    for o in objs:
        out.append((id(o), kind_of(M, o), o.name, o.id, tuple(o._visible_keys) if is_cont(M, o) else (),
                    tuple(sorted((k, aval(v)) for k, v in o.attributes.items())), id(o.attributes),
                    tuple(o._dict.keys()) if is_cont(M, o) else (),
                    id(getattr(o, "_data", None)), ddump(getattr(o, "_data", None))))
    return tuple(out)


class World(object):
    """the live handles of one history on the real classes"""

    def __init__(self, fns):
        self.fns = fns
        self.handles = []      # object or None (consumed)
        self.rawname = []      # the unquoted name the root was built with (generator's knowledge)

    def live(self):
        return [i for i, o in enumerate(self.handles) if o is not None]

    def nav(self, h, path):
        o = self.handles[h]
        for k in path:
            o = o[k]
        return o

    def apply(self, op):
        """returns (outcome, new handle index or None)"""
        M = self.fns[0]
        t = op[0]
        try:
            if t == "new":
                self.handles.append(make(M, op[1], op[2], op[3]))
                return "ok"
            if t == "set":
                _, h, path, key, src = op
                c = self.nav(h, path)
                c[key] = self.handles[src]
                self.handles[src] = None
                return "ok"
            if t == "del":
                _, h, path, key = op
                c = self.nav(h, path)
                del c[key]
                return "ok"
            if t == "copy":
                _, h, path = op
                self.handles.append(copy.copy(self.nav(h, path)))
                return "ok"
            if t == "select":
                _, h, path, keys = op
                self.handles.append(self.nav(h, path)[tuple(keys)])
                return "ok"
            if t == "setdata":
                _, h, path, atom = op
                self.nav(h, path).data = D(("a", atom))
                return "ok"
            if t == "setattr":
                _, h, path, k, v = op
                self.nav(h, path).attributes[k] = v
                return "ok"
            if t == "lookup":
                _, h, path, key = op
                self.last = None
                a = self.nav(h, path)
                self.last_target = a
                self.last = do_lookup(a, key)
                if self.last[0] == "err":
                    return self.last[1]
                return "L"
        except (KeyError, TypeError, IndexError) as e:
            return type(e).__name__
        except Exception as e:
            return "escaped:" + type(e).__name__
        return "bad-op"

    def all_objs(self):
        M = self.fns[0]
        out = []
        for i in self.live():
            traverse(M, self.handles[i], out)
        return out

    def numbering(self):
        ids = [id(o) for o in self.all_objs()]
        first = {}
        for n, i in enumerate(ids):
            first.setdefault(i, n)
        return first

    def dump(self, inv_ok, lookups=True):
        M = self.fns[0]
        first = self.numbering()
        canon = lambda o: first[id(o)]
        number = lambda o: first.get(id(o))
        hs = ["h%d=%s%s%s" % (i, odump(M, self.handles[i], canon), observe(self.fns, self.handles[i]),
                              lookups_text(M, self.handles[i], number) if lookups else "")
              for i in self.live()]
        return "inv=%d %s" % (1 if inv_ok else 0, " ".join(hs))


def op_sexp(op):
    t = op[0]
    P = lambda path: "(" + " ".join(sx(k) for k in path) + ")"
    if t == "new":
        return "(new %s %s %d)" % (op[1], sx(op[2]), op[3])
    if t == "set":
        return "(set %d %s %s %d)" % (op[1], P(op[2]), sx(op[3]), op[4])
    if t == "del":
        return "(del %d %s %s)" % (op[1], P(op[2]), sx(op[3]))
    if t == "copy":
        return "(copy %d %s)" % (op[1], P(op[2]))
    if t == "select":
        return "(select %d %s %s)" % (op[1], P(op[2]), P(op[3]))
    if t == "setdata":
        return "(setdata %d %s %d)" % (op[1], P(op[2]), op[3])
    if t == "setattr":
        return "(setattr %d %s %s %d)" % (op[1], P(op[2]), sx(op[3]), op[4])
    if t == "lookup":
        return "(lookup %d %s %s)" % (op[1], P(op[2]), sx(op[3]))
    raise ValueError(op)


def run_history(fns, ops, lookups=True):
    """apply ops on the real classes; returns (expected driver text per step, problems, world) where problems
    is a list of (step, what, observed, expected).  Stops after the first step with problems.
    lookups=False: `ops` holds no lookup operations and nothing is looked up between the operations either (the
    per-step text then has no [L …] part): the run a memo never sees."""
    M, _quote, unquote, walk, get_var = fns
    w = World(fns)
    steps = []
    problems = []
    for n, op in enumerate(ops):
        before = {i: snapshot(M, w.handles[i]) for i in w.live()}
        before_ids = set(id(o) for o in w.all_objs())
        nh = len(w.handles)
        try:
            src_obj = w.nav(op[1], op[2]) if op[0] in ("copy", "select") else None
        except Exception:
            src_obj = None
        outcome = w.apply(op)
        if outcome.startswith("escaped") or outcome == "bad-op":
            problems.append((n, "operation %s raised outside the documented exception classes" % op[0], outcome,
                             "ok / KeyError / TypeError / IndexError"))
        if op[0] == "lookup" and outcome == "L" and w.last[0] == "err" and w.last[1].startswith("escaped"):
            problems.append((n, "lookup %r raised outside the documented exception classes" % (op[3],), w.last[1],
                             "a variable / KeyError / TypeError / IndexError"))
        # frame (a lookup writes through nothing)
        touched = set()
        if outcome == "ok" and op[0] in ("set", "del", "setdata", "setattr"):
            touched.add(op[1])
            if op[0] == "set":
                touched.add(op[4])
        for i, snap in before.items():
            if i in touched:
                continue
            if w.handles[i] is None or snapshot(M, w.handles[i]) != snap:
                problems.append((n, "%s through handle %s changed what is seen through handle %d%s"
                                 % (op[0], op[1] if len(op) > 1 else "-", i,
                                    "" if outcome in ("ok", "L") else " although it raised " + outcome),
                                 "changed", "unchanged"))
        # a deleted child is gone: not stored (visible or hidden), not found, and deleting it again raises KeyError
        if outcome == "ok" and op[0] == "del":
            try:
                cont = w.nav(op[1], op[2])
                qk = _quote(op[3])
                still = []
                if qk in list(cont._all_keys()):
                    still.append("still stored")
                try:
                    cont[op[3]]
                    still.append("still found by name")
                except KeyError:
                    pass
                except Exception as e:
                    still.append("lookup raises " + type(e).__name__)
                if still:
                    problems.append((n, "del %r returned normally but the child is %s" % (op[3], ", ".join(still)),
                                     still, "KeyError on lookup; not among the stored keys"))
            except Exception:
                pass
        # invariant + separation
        inv_ok = True
        for i in w.live():
            for b in invariant_problems(fns, w.handles[i]):
                inv_ok = False
                problems.append((n, "invariant broken on handle %d: %s" % (i, b), b, "invariant"))
        objs = w.all_objs()
        if len(set(map(id, objs))) != len(objs):
            inv_ok = False
            problems.append((n, "a variable object is reachable twice (structure shared between handles)",
                             "shared", "every object reachable once"))
        if outcome == "ok" and op[0] in ("copy", "select") and len(w.handles) == nh + 1:
            res = []
            traverse(M, w.handles[-1], res)
            if any(id(o) in before_ids for o in res):
                problems.append((n, "%s result shares variable objects with its source" % op[0], "shared", "fresh"))
            if op[0] == "copy" and src_obj is not None:
                so = []
                traverse(M, src_obj, so)
                if len(so) != len(res) or any(getattr(a, "_data", None) is not getattr(b, "_data", None)
                                               for a, b in zip(so, res)):
                    problems.append((n, "copy does not share the data objects of its source", "different", "same"))
                if any(a.attributes is b.attributes for a, b in zip(so, res)):
                    problems.append((n, "copy shares an attributes dict with its source", "shared", "copied"))
        # lookups answer from the tree as it is, whatever was looked up or edited before
        if lookups and inv_ok and not problems:
            for i in w.live():
                extra = ()
                if op[0] == "lookup" and outcome == "L" and i == op[1]:
                    extra = ((w.last_target, op[3]),)
                for (what, obs, exp) in history_independence_problems(M, w.handles[i], extra):
                    problems.append((n, "lookup on handle %d depends on the history: %s" % (i, what), obs, exp))
                    break
        if op[0] == "lookup":
            first = w.numbering()
            head = "L:" + (found_str(M, w.last, lambda o: first.get(id(o))) if outcome == "L" else outcome)
        else:
            head = outcome
        steps.append("%s %s" % (head, w.dump(inv_ok, lookups)))
        if problems:
            break
    return steps, problems, w


def strip_lookups(ops):
    return [op for op in ops if op[0] != "lookup"]


def interleaving_problems(fns, ops, steps):
    """the same edits without any lookup (neither the explicit ones nor the ones made after every operation): every
    edit must have the same outcome and leave the same store, and at the end every lookup must answer the same"""
    M = fns[0]
    plain = strip_lookups(ops)
    psteps, pproblems, pw = run_history(fns, plain, lookups=False)
    if pproblems:
        return []            # reported by the run with lookups as well, or by the witness run
    cut = lambda t: re.sub(r"\[L [^\]]*\]", "", t)
    with_l = [cut(st) for op, st in zip(ops, steps) if op[0] != "lookup"]
    bad = []
    for k, (a, b) in enumerate(zip(with_l, psteps)):
        if a != b:
            bad.append((len(ops) - 1, "edit %d (%s) leaves another store when lookups were interleaved before it"
                        % (k, plain[k][0]), a[:200], b[:200]))
            return bad
    if len(steps) == len(ops) and len(psteps) == len(plain) and ops:
        first = pw.numbering()
        number = lambda o: first.get(id(o))
        final_plain = " ".join(lookups_text(M, pw.handles[i], number) for i in pw.live())
        final_with = " ".join(re.findall(r"\[L [^\]]*\]", steps[-1]))
        if final_plain != final_with:
            bad.append((len(ops) - 1, "after the same edits the lookups answer differently when lookups were "
                        "interleaved", final_with[:300], final_plain[:300]))
    return bad


# ------------------------------------------------------------------------------------------------
NAMES = ["a", "b", "c", "x", "y", "st", "sq", "g", "v1", "a b", "m[0]", "p&q", "é", "日本", "50%", "dap4 x[é", "dap4", "t ]"]


def gen_history(fns, rng, maxlen):
    """generate ops while running them on the real classes (so that most ops are meaningful)"""
    M, _quote, unquote, walk, get_var = fns
    w = World(fns)
    ops = []
    pool = rng.sample(NAMES, rng.randint(5, 9))
    atom = [0]

    def fresh_atom():
        atom[0] += 1
        return atom[0]

    def do(op, raw=None):
        ops.append(op)
        nh = len(w.handles)
        out = w.apply(op)
        while len(w.rawname) < len(w.handles):
            w.rawname.append(raw)
        return out

    def pick_obj(h, want_cont=None, maxdepth=3):
        """random path below handle h (raw names), optionally ending at a container"""
        o = w.handles[h]
        path = []
        for _ in range(rng.randint(0, maxdepth)):
            if not is_cont(M, o) or not o._dict:
                break
            k = rng.choice(list(o._dict.keys()))
            path.append(unquote(k))
            o = o._dict[k]
        if want_cont is True:
            while not is_cont(M, o) and path:
                path.pop()
                o = w.nav(h, path)
        return path, o

    ghosts = []      # (handle, raw path to a container, key): looked up before an edit, to be looked up again later

    def cont_paths(h):
        """raw paths to every container below handle h"""
        out = [[]]
        for p, v in below(M, w.handles[h]):
            if is_cont(M, v):
                out.append([unquote(k) for k in p])
        return out

    def random_key(a):
        """a key to look up on container a: an id / dotted path of something below it (as stored, unquoted, with a
        foreign prefix, cut short), or a name that may not be there"""
        bl = below(M, a)
        q = rng.random()
        if bl and q < 0.8:
            p, v = rng.choice(bl)
            f = rng.random()
            if f < 0.35:
                return v.id
            if f < 0.6:
                return ".".join(p)
            if f < 0.75:
                return ".".join(unquote(k) for k in p)
            if f < 0.85:
                return rng.choice(pool) + "." + ".".join(p)
            if f < 0.93:
                return v.id + "." + rng.choice(pool)
            return ".".join(p[1:]) if len(p) > 1 else "." + p[0]
        if q < 0.9:
            return rng.choice(pool)
        return rng.choice(["", ".", rng.choice(pool) + "." + rng.choice(pool), "zz"])

    def lookup_op():
        live = w.live()
        if ghosts and rng.random() < 0.4:
            h, path, key = rng.choice(ghosts)
            if w.handles[h] is not None:
                do(("lookup", h, path, key))
                return
        conts = [h for h in live if is_cont(M, w.handles[h])]
        if not conts:
            return
        h = rng.choice(conts)
        path = rng.choice(cont_paths(h))
        do(("lookup", h, path, random_key(w.nav(h, path))))

    def remember(h):
        """before an edit through handle h: look some ids up (a memo would be filled now) and keep them for later"""
        if w.handles[h] is None or not is_cont(M, w.handles[h]):
            return []
        mine = []
        for path in cont_paths(h):
            a = w.nav(h, path)
            for p, v in below(M, a):
                mine.append((h, path, v.id))
                mine.append((h, path, ".".join(p)))
        rng.shuffle(mine)
        mine = mine[: rng.randint(1, 3)]
        for g in mine:
            if rng.random() < 0.5 and len(ops) < n:
                do(("lookup",) + g)
        ghosts.extend(mine)
        del ghosts[:-12]
        return mine

    n = rng.randint(6, maxlen)
    if rng.random() < 0.9:
        do(("new", "dataset", rng.choice(pool), 0), None)
        w.rawname[-1] = None
    pending = []
    while len(ops) < n:
        live = w.live()
        if pending and rng.random() < 0.7:
            g = pending.pop()
            if w.handles[g[0]] is not None:
                do(("lookup",) + g)
            continue
        r = rng.random()
        if r < 0.1:
            lookup_op()
            continue
        r = (r - 0.1) / 0.9
        if not live or r < 0.22:
            kind = rng.choice(["base", "base", "base", "struct", "seq", "grid"])
            name = rng.choice(pool)
            if kind != "base" and rng.random() < 0.3:
                # containers named like an existing container: nesting s inside s, later copies hoisted over their
                # own ancestors (ids of the moved subtree lie below the new id)
                named = [unquote(w.handles[x].name) for x in w.live() if is_cont(M, w.handles[x])
                         and not isinstance(w.handles[x], M.DatasetType)]
                if named:
                    name = rng.choice(named)
            do(("new", kind, name, fresh_atom() if kind == "base" else 0), name)
            w.rawname[-1] = name
            # usually insert it right away
            conts = [h for h in w.live()[:-1] if is_cont(M, w.handles[h])]
            if conts and rng.random() < 0.85 and len(ops) < n:
                h = rng.choice(conts)
                if rng.random() < 0.4:
                    pending = remember(h)
                    if len(ops) >= n:
                        break
                path, o = pick_obj(h, want_cont=True)
                if is_cont(M, o):
                    key = name if rng.random() < 0.93 else rng.choice(pool)
                    future = None
                    if path and rng.random() < 0.6 and len(ops) + 2 < n:
                        # the id-to-be, looked up on an ancestor BEFORE the child exists (KeyError; a memo of failed
                        # lookups would be filled now) and again once it has been inserted through the descendant
                        k = rng.randrange(len(path))
                        future = (h, list(path[:k]), ".".join([str(x) for x in path[k:]] + [key]))
                        do(("lookup",) + future)
                    do(("set", h, path, key, len(w.handles) - 1))
                    if future is not None and w.handles[h] is not None:
                        pending.append(future)
            continue
        h = rng.choice(live)
        root = w.handles[h]
        if rng.random() < 0.5:
            pending = remember(h)
            if len(ops) >= n:
                break
        if r < 0.32:          # move an existing root handle into a container (subtree insertion)
            srcs = [s for s in live if s != h and not isinstance(w.handles[s], M.DatasetType)]
            if srcs and is_cont(M, root):
                s = rng.choice(srcs)
                path, o = pick_obj(h, want_cont=True)
                if is_cont(M, o):
                    key = unquote(w.handles[s].name) if rng.random() < 0.9 else rng.choice(pool)
                    do(("set", h, path, key, s))
        elif r < 0.42:        # delete
            path, o = pick_obj(h, want_cont=True)
            if is_cont(M, o):
                if o._dict and rng.random() < 0.8:
                    key = rng.choice(list(o._dict.keys()))
                    if rng.random() < 0.15:
                        key = unquote(key)
                    elif rng.random() < 0.1 and below(M, o):
                        key = ".".join(rng.choice(below(M, o))[0])      # a dotted path is not a key of _dict
                else:
                    key = rng.choice(pool)
                do(("del", h, path, key))
        elif r < 0.55:        # copy
            path, o = pick_obj(h)
            do(("copy", h, path))
            w.rawname[-1] = None
        elif r < 0.72:        # select by tuple
            path, o = pick_obj(h, want_cont=True)
            if is_cont(M, o):
                ks = [unquote(k) for k in o._dict.keys()]
                rng.shuffle(ks)
                ks = ks[: rng.randint(0, len(ks))]
                q = rng.random()
                if q < 0.1 and ks:
                    ks.append(ks[0])
                elif q < 0.2:
                    ks.append(rng.choice(pool))
                if isinstance(o, M.GridType) and any(not isinstance(c, M.BaseType) for c in o._dict.values()):
                    continue
                if isinstance(o, M.GridType) and not ks:
                    continue        # grid[()] is an index (C02/C14), not a selection of children
                if isinstance(o, M.SequenceType) and o._data is not None and not seq_data_ok(M, o):
                    continue
                do(("select", h, path, ks))
                w.rawname[-1] = None
        elif r < 0.86:        # assign data
            path, o = pick_obj(h)
            if isinstance(o, M.SequenceType) and not seq_data_ok(M, o):
                continue
            if is_cont(M, o) and not isinstance(o, M.SequenceType) and rng.random() < 0.7:
                continue
            do(("setdata", h, path, fresh_atom()))
        else:                 # attribute
            path, o = pick_obj(h)
            do(("setattr", h, path, rng.choice(["units", "long name", "data", "é"]), rng.randint(0, 9)))
    return ops


def seq_data_ok(M, o):
    """SequenceType._set_data succeeds all the way: listed descendants are Base or Sequence"""
    for k in o._visible_keys:
        c = o._dict.get(k)
        if c is None:
            return False
        if isinstance(c, M.SequenceType):
            if not seq_data_ok(M, c):
                return False
        elif not isinstance(c, M.BaseType):
            return False
    return True


def history_case(ops, step=None):
    return {"kind": "history", "ops": [list(op) for op in ops], "step": step}


def history_problems(fns, ops):
    steps, problems, w = run_history(fns, ops)
    if not problems:
        problems = interleaving_problems(fns, ops, steps)
    return steps, problems, w


def shrink(fns, ops, what):
    """truncate after the failing step, then drop ops that neither create nor consume handles"""
    def fails(o):
        try:
            _, pr, _ = history_problems(fns, o)
        except Exception:
            return None
        return pr[0] if pr else None
    p = fails(ops)
    if p is None:
        return ops, None
    ops = ops[: p[0] + 1]
    i = len(ops) - 2
    while i >= 0:
        if ops[i][0] in ("del", "setdata", "setattr", "lookup"):
            cand = ops[:i] + ops[i + 1:]
            q = fails(cand)
            if q is not None:
                ops, p = cand, q
        i -= 1
    return ops, p


def explore_histories(ctx, fns, tier, search=False):
    M = fns[0]
    rng = ctx.rng("histories" + ("-search" if search else ""))
    maxlen = 25 if tier == "quick" else 60
    nhist = ctx.budget(1500, 15000)
    cases = []
    reported = 0
    for hno in range(nhist):
        ops = gen_history(fns, rng, maxlen)
        steps, problems, w = history_problems(fns, ops)
        if problems:
            if reported < 5:
                small, p = shrink(fns, ops, problems[0][1])
                p = p or problems[0]
                ctx.oracle_fail(p[1], history_case(small, p[0]), p[2], p[3], size=len(small))
                reported += 1
            else:
                p = problems[0]
                ctx.oracle_fail(p[1], history_case(ops[: p[0] + 1], p[0]), p[2], p[3], size=len(ops) + 100)
        line = "c12-run (" + " ".join(op_sexp(op) for op in ops[: len(steps)]) + ")"
        cases.append((line, steps, {"ops": [list(o) for o in ops[: len(steps)]]}))
        kinds = set(o[0] for o in ops)
        depth = max([0] + [len(o[2]) for o in ops if o[0] != "new"])
        ctx.count(("h", line), len(ops) > 3, tag="history:len%s" % ("<=10" if len(ops) <= 10 else "<=25" if len(ops) <= 25
                                                                   else ">25"),
                  sample=history_case(ops) if hno < 2 else None)
        for (op, st) in zip(ops, steps):
            head = st.split(" ", 1)[0]
            if op[0] == "lookup":
                head = "found" if head.startswith("L:o") else "derived" if head.startswith("L:(") else head[2:]
            ctx.tags["op:%s:%s" % (op[0], head)] += 1
        ctx.tags["depth:%d" % depth] += 1
    # correspondence: the model prints the same steps; `outside` ends the comparison of that history
    outs = common.run_driver([c[0] for c in cases])
    n_out = 0
    for (line, steps, meta), mod in zip(cases, outs):
        msteps = mod.split(" ; ") if mod else []
        outside = bool(msteps) and msteps[-1].strip() == "outside"
        if outside:
            n_out += 1
            msteps = msteps[:-1]
            exp = steps[: len(msteps)]
        else:
            exp = steps
        ctx.corr_checked += 1
        got = [s.strip() for s in msteps]
        want = [s.strip() for s in exp]
        if got != want:
            k = next((i for i in range(min(len(got), len(want))) if got[i] != want[i]), min(len(got), len(want)))
            d = {"function": "tree history", "line": line, "first_differing_step": k,
                 "impl": want[k] if k < len(want) else "(no step)", "model": got[k] if k < len(got) else "(no step)",
                 "meta": {"op": meta["ops"][k] if k < len(meta["ops"]) else None}}
            ctx.corr_disagreements.append(d if len(ctx.corr_disagreements) < 50 else None)
    # the guard of the history theorems (`Op.scope`), evaluated by the model and, independently, here
    _quote = fns[1]
    scases = []
    n_scope = 0
    for (line, steps, meta) in cases:
        ins = all("." not in _quote(o[2]).replace("%2E", ".") for o in meta["ops"] if o[0] == "new")
        n_scope += 1 if ins else 0
        scases.append(("c12-scope " + line[len("c12-run "):], "1" if ins else "0", {"ops": meta["ops"]}))
    ctx.correspond("Op.scope (guard of the history theorems)", scases)
    ctx.tags["history:inside-theorem-scope"] += n_scope
    ctx.extra["histories_inside_theorem_scope"] = n_scope
    ctx.tags["history:model-outside"] += n_out
    ctx.extra["histories"] = len(cases)
    ctx.extra["histories_ended_by_unmodelled_behaviour"] = n_out


WITNESSES = [
    # DESIGN §9 #14: a blank in a root-level key
    [("new", "dataset", "q", 0), ("new", "base", "c c", 1), ("set", 0, [], "c c", 1), ("new", "base", "z", 2),
     ("set", 0, [], "z", 2)],
    # tuple selection on a Structure with a name that needs quoting, then a replacement through the selection
    [("new", "struct", "st", 0), ("new", "base", "y z", 1), ("set", 0, [], "y z", 1), ("select", 0, [], ["y z"]),
     ("new", "base", "y z", 2), ("set", 2, [], "y z", 3)],
    [("new", "struct", "st", 0), ("new", "base", "x", 1), ("set", 0, [], "x", 1), ("select", 0, [], ["x", "x"])],
    # a container nested in a container of the same name, its copy hoisted to the outer one's place: the ids of
    # the copy's children must be re-derived although the old ids (s.s.a) lie below the new one (s)
    [("new", "dataset", "d", 0), ("new", "seq", "s", 0), ("new", "seq", "s", 0), ("new", "base", "a", 1),
     ("set", 2, [], "a", 3), ("new", "struct", "q", 0), ("new", "base", "x y", 2), ("set", 4, [], "x y", 5),
     ("set", 2, [], "q", 4), ("set", 1, [], "s", 2), ("set", 0, [], "s", 1), ("copy", 0, ["s", "s"]),
     ("set", 0, [], "s", 6)],
    [("new", "struct", "s", 0), ("new", "struct", "s", 0), ("new", "base", "a", 1), ("set", 1, [], "a", 2),
     ("set", 0, [], "s", 1), ("copy", 0, ["s"]), ("new", "dataset", "e", 0), ("set", 4, [], "s", 3)],
]


def explore(ctx, fns, tier, search=False):
    explore_quote(ctx, fns, tier, search)
    for ops in WITNESSES:
        steps, problems, w = history_problems(fns, ops)
        if problems:
            p = problems[0]
            ctx.oracle_fail(p[1], history_case(ops[: p[0] + 1], p[0]), p[2], p[3], size=len(ops))
    explore_histories(ctx, fns, tier, search)


def run(ctx):
    ctx.rule = ("quoting: every string of length <= 3 over a 40-character alphabet (ASCII specials, %, hex digits, "
                "'dap4', 2/3/4-byte UTF-8) plus seeded random strings of length 4..40; histories: seeded random "
                "operation sequences (<= 25 ops quick, <= 60 thorough) over {new, set/replace (moving a root under a "
                "container at a path), delete, copy, select-by-tuple, assign data, set attribute} on several live "
                "handles, names from a pool with blanks, brackets, &, %, non-ASCII and 'dap4' prefixes, never '.' or "
                "'/'; plus lookup operations (obj[key]: ids, relative dotted paths, unquoted / foreign-prefixed / cut "
                "forms, ghost ids of deleted variables) at random positions and before+after edits, and after every "
                "operation A[v.id] and A[relative path] for every container A and every v below it on every handle; a quoting case is non-trivial when quoting changes the name, a history when it has more than 3 "
                "ops; distinct by input")
    ctx.assumptions = ["Python's UTF-8 codec and urllib.parse.quote/unquote (modelled bytewise) are trusted",
                       "data objects are symbolic stand-ins: the tree code only stores, indexes and copies them",
                       "the model's store is a forest of trees with object identities; it is faithful while no "
                       "object is reachable twice, which is the proved invariant and is compared (id() classes) "
                       "after every operation"]
    ctx.proof_phase()
    fns = load()
    explore(ctx, fns, ctx.tier)
    ctx.exhaustive = True
    return ctx.finish(search=lambda c: explore(c, fns, "thorough", search=True), witnesses={})


def replay(payload):
    fns = load()
    case = payload["failure"]["case"]
    if case.get("kind") == "history":
        ops = [tuple(o) for o in case["ops"]]
        _, problems, _ = history_problems(fns, ops)
        return not problems
    if case.get("kind") in ("quote", "unquote"):
        class C(object):
            n = 0

            def oracle_fail(self, *a, **k):
                self.n += 1
        c = C()
        M, _quote, unquote, walk, get_var = fns
        s = case["name"]
        quote_oracle(c, fns, s, _quote(s), case)
        return c.n == 0
    return True
