"""C03 — slice algebra.  Proof: lean/Props/C03.lean.  Tie: the four pure functions vs the model,
exhaustively in the property's own scope + random beyond.  Oracle: numpy on arange."""
import itertools

import numpy as np

import common
from common import hexb

LEVEL = "proof"


def S(x):
    return "none" if x is None else str(x)


def sl_sexp(s):
    return "(s %s %s %s)" % (S(s.start), S(s.stop), S(s.step))


def idx_sexp(x):
    if x is Ellipsis:
        return "e"
    if isinstance(x, slice):
        return sl_sexp(x)
    return "(i %d)" % x


def tup_sexp(t):
    return "(" + " ".join(idx_sexp(x) for x in t) + ")"


def canon_idx_tuple(t):
    return tup_sexp(t)


def canon_slices(t):
    return "(" + " ".join(sl_sexp(s) for s in t) + ")"


def load():
    from pydap.lib import combine_slices, fix_slice, hyperslab
    from pydap.parsers import parse_hyperslab

    return fix_slice, combine_slices, hyperslab, parse_hyperslab


def err_class(e):
    n = type(e).__name__
    return n


# ------------------------------------------------------------------------------------------------
def scope_slices(N):
    bounds = [None] + list(range(-N, N + 4))
    for a in bounds:
        for b in bounds:
            for k in (None, 1, 2, 3, 4):
                yield slice(a, b, k)


def check_fix_axis(ctx, fix_slice, N, s, cases, where):
    """one axis: impl vs model (queued) and the numpy oracle"""
    x = np.arange(N)
    try:
        out = fix_slice(s, (N,))
        impl = canon_idx_tuple(out)
    except Exception as e:  # never expected in scope
        out = None
        impl = "escaped:" + err_class(e)
    cases.append(("fixslice (%d) (%s)" % (N, idx_sexp(s)), impl, {"N": N, "s": repr(s)}))
    exp = x[s]
    if out is None:
        ctx.oracle_fail("fix_slice raised", {"fn": "fix_slice", "N": N, "index": repr(s)}, impl, exp.tolist())
        return None
    got = x[out]
    if isinstance(s, int):
        ok = got == exp
    else:
        ok = got.shape == exp.shape and (got == exp).all()
        o = out[0]
        if not (o.start is not None and o.start >= 0 and o.stop is not None and o.stop >= 0 and o.step >= 1):
            ctx.oracle_fail("fix_slice output not normalised", {"fn": "fix_slice", "N": N, "index": repr(s)},
                            repr(out), "start>=0, stop>=0, step>=1")
    if not ok:
        ctx.oracle_fail("fix_slice changes the selection", {"fn": "fix_slice", "N": N, "index": repr(s)},
                        np.asarray(got).tolist(), np.asarray(exp).tolist(), size=N)
    nontrivial = isinstance(s, int) or not (s.start is None and s.stop is None and s.step is None)
    ctx.count(("fix", N, repr(s)), nontrivial, tag=where + ":" + ("int" if isinstance(s, int) else
                                                                   "neg" if ((s.start or 0) < 0 or (s.stop or 0) < 0)
                                                                   else "beyond" if (s.stop or 0) > N else "plain"),
              sample={"fn": "fix_slice", "N": N, "index": repr(s), "impl": impl})
    return out


def check_combine(ctx, fns, N, f1, s2raw, cases, where):
    fix_slice, combine_slices, hyperslab, parse_hyperslab = fns
    x = np.arange(N)
    L = len(x[f1])
    f2 = fix_slice(s2raw, (L,))
    try:
        c = combine_slices((f1,), f2)
        impl = canon_slices(c)
    except Exception as e:
        c = None
        impl = "escaped:" + err_class(e)
    cases.append(("combine (%s) %s" % (idx_sexp(f1), tup_sexp(f2)), impl,
                  {"N": N, "s1": repr(f1), "s2": repr(f2)}))
    exp = x[f1][s2raw]
    if isinstance(s2raw, int):
        exp = exp.reshape(1)
    case = {"fn": "combine_slices", "N": N, "stored": repr(f1), "second": repr(s2raw), "second_fixed": repr(f2)}
    if c is None:
        ctx.oracle_fail("combine_slices raised", case, impl, exp.tolist(), size=N)
        return
    got = x[c]
    if got.shape != exp.shape or not (got == exp).all():
        ctx.oracle_fail("combine_slices(s1, s2) does not select x[s1][s2]", case, got.tolist(), exp.tolist(),
                        size=N * 10 + (f1.step or 1))
    k1 = (f1.step or 1) if isinstance(f1, slice) else 1
    ctx.count(("comb", N, repr(f1), repr(f2)), len(exp) > 0, tag=where + ":stride1=%s" % ("1" if k1 == 1 else ">1"),
              sample=case)


def check_hyperslab(ctx, fns, N, fixed, cases, where):
    fix_slice, combine_slices, hyperslab, parse_hyperslab = fns
    shape = N if isinstance(N, tuple) else (N,)
    x = np.arange(int(np.prod(shape))).reshape(shape)
    try:
        text = hyperslab(fixed)
    except Exception as e:
        ctx.oracle_fail("hyperslab raised", {"fn": "hyperslab", "slices": repr(fixed)}, err_class(e), "text")
        return
    cases.append(("hyperslab %s" % canon_slices(fixed), "t:" + text, {"slices": repr(fixed)}))
    try:
        back = parse_hyperslab(text)
        impl = "(ok" + "".join(" " + sl_sexp(s) for s in back) + ")"
    except Exception as e:
        back = None
        impl = "(err %s)" % err_class(e)
    cases.append(("parsehs %s" % hexb(text.encode()), impl, {"text": text}))
    exp = x[fixed]
    case = {"fn": "parse_hyperslab(hyperslab(s))", "shape": list(shape), "slices": repr(fixed), "text": text}
    if back is None:
        ctx.oracle_fail("hyperslab text does not parse", case, impl, exp.tolist())
        return
    got = x[back]
    if got.shape != exp.shape or not (got == exp).all():
        ctx.oracle_fail("hyperslab text parses to a different selection", case, got.tolist(), exp.tolist())
    ctx.count(("hs", repr(shape), repr(fixed)), True, tag=where + ":hyperslab", sample=case)


AXIS_FORMS = [slice(None), slice(1, None), slice(None, -1), slice(-2, None, 2), slice(0, 99, 3), 0, -1, 1]


def tuples_scope(rank):
    """index tuples of length ≤ rank with at most one Ellipsis, entries from AXIS_FORMS"""
    for n in range(0, rank + 1):
        for entries in itertools.product(AXIS_FORMS, repeat=n):
            yield tuple(entries)
            for pos in range(0, n + 1):
                if n < rank or True:
                    t = entries[:pos] + (Ellipsis,) + entries[pos:]
                    if len(entries) <= rank:
                        yield t


def valid_for(shape, t):
    """inside the property's domain: after numpy's expansion every int is in [-N, N) and every
    negative slice bound is >= -N for its axis"""
    real = [e for e in t if e is not Ellipsis]
    if len(real) > len(shape) or len([e for e in t if e is Ellipsis]) > 1:
        return False
    if Ellipsis in t:
        pos = t.index(Ellipsis)
        full = list(t[:pos]) + [slice(None)] * (len(shape) - len(real)) + list(t[pos + 1:])
    else:
        full = list(t) + [slice(None)] * (len(shape) - len(real))
    for N, e in zip(shape, full):
        if isinstance(e, slice):
            if (e.start is not None and e.start < -N) or (e.stop is not None and e.stop < -N):
                return False
        elif not (-N <= e < N):
            return False
    return True


def check_tuple(ctx, fix_slice, shape, t, cases, where):
    x = np.arange(int(np.prod(shape))).reshape(shape)
    exp = x[t]
    try:
        out = fix_slice(t, shape)
        impl = canon_idx_tuple(out)
    except Exception as e:
        out = None
        impl = "escaped:" + err_class(e)
    cases.append(("fixslice (%s) %s" % (" ".join(map(str, shape)), tup_sexp(t)), impl,
                  {"shape": shape, "t": repr(t)}))
    case = {"fn": "fix_slice", "shape": list(shape), "index": repr(t)}
    if out is None:
        ctx.oracle_fail("fix_slice raised", case, impl, exp.tolist())
        return
    if len(out) != len(shape):
        ctx.oracle_fail("fix_slice result does not have one entry per axis", case, repr(out), len(shape))
        return
    try:
        got = x[out]
    except Exception as e:       # a result numpy cannot apply to the shape it was normalised for
        ctx.oracle_fail("fix_slice result cannot index an array of the shape it was computed for", case,
                        "%s: %s" % (type(e).__name__, repr(out)), exp.tolist())
        return
    if got.shape != exp.shape or not (got == exp).all():
        ctx.oracle_fail("fix_slice changes the selection", case, got.tolist(), exp.tolist())
    ctx.count(("tup", shape, repr(t)), len(t) > 0,
              tag=where + ":" + ("ellipsis" if any(e is Ellipsis for e in t) else "short" if len(t) < len(shape)
                                 else "full"), sample=case)


def check_combine_nd(ctx, fns, rng, n):
    """combine_slices on rank 2 and 3 (oracle, and since round 7 also the model): the stored tuple as the proxies hold it — a strided slice, a plain
    `slice(None)` (what a URL hyperslab leaves for the axes it does not name), a normalised slice — per axis, in any
    arrangement; the second tuple normalised for the shape the stored one leaves"""
    fix_slice, combine_slices, hyperslab, parse_hyperslab = fns
    nd_cases = []
    for _ in range(n):
        shape = tuple(rng.randint(1, 6) for _ in range(rng.choice([2, 2, 3])))
        x = np.arange(int(np.prod(shape))).reshape(shape)
        stored = []
        for N in shape:
            r = rng.random()
            if r < 0.35:
                stored.append(slice(None))
            elif r < 0.7:
                a = rng.randrange(N)
                stored.append(slice(a, rng.randint(a + 1, N + 2), rng.choice([1, 2, 2, 3])))
            else:
                a = rng.randrange(N)
                stored.append(slice(a, rng.randint(a + 1, N), 1) if a + 1 <= N - 1 else slice(a, N, 1))
        stored = tuple(stored)
        view = x[stored]
        second = []
        for L in view.shape:
            r = rng.random()
            if r < 0.3:
                second.append(slice(None))
            elif r < 0.75:
                a = rng.randrange(L)
                second.append(slice(a, rng.randint(a + 1, L + 1), rng.choice([1, 1, 2])))
            else:
                second.append(rng.randrange(L))
        second = tuple(second)
        f2 = fix_slice(second, view.shape)
        exp = view[tuple(slice(e, e + 1) if isinstance(e, int) else e for e in second)]
        case = {"fn": "combine_slices_nd", "shape": list(shape), "stored": repr(stored), "second": repr(second),
                "second_fixed": repr(f2)}
        # (theorem audit, round 7: C03_combine_tuple) the tuple-level function is tied to the model too, and in half of the
        # cases the stored tuple is given WITHOUT its trailing slice(None) entries (zip_longest fills them in again)
        stored_arg = stored
        if rng.random() < 0.5:
            k = len(stored)
            while k > 0 and stored[k - 1] == slice(None):
                k -= 1
            stored_arg = stored[:k]
        case["stored_given"] = repr(stored_arg)
        try:
            c = combine_slices(stored_arg, f2)
            nd_cases.append(("combine %s %s" % (tup_sexp(stored_arg), tup_sexp(f2)), canon_slices(c),
                             {"shape": list(shape), "s1": repr(stored_arg), "s2": repr(f2)}))
            got = x[tuple(slice(e, e + 1) if isinstance(e, int) else e for e in c)]
        except Exception as e:
            nd_cases.append(("combine %s %s" % (tup_sexp(stored_arg), tup_sexp(f2)), "escaped:" + err_class(e),
                             {"shape": list(shape), "s1": repr(stored_arg), "s2": repr(f2)}))
            ctx.oracle_fail("combine_slices raised (rank %d)" % len(shape), case, err_class(e), exp.tolist(), size=x.size)
            continue
        if got.shape != exp.shape or not (got == exp).all():
            ctx.oracle_fail("combine_slices(s1, s2) does not select x[s1][s2] (rank %d)" % len(shape), case, got.tolist(),
                            exp.tolist(), size=x.size * 10)
        ctx.count(("comb-nd", shape, repr(stored), repr(f2)), exp.size > 0,
                  tag="nd:rank%d:%s" % (len(shape), "strided-before-plain" if any(
                      (a.step or 1) > 1 and any(b == slice(None) for b in stored[i + 1:]) for i, a in enumerate(stored)) else "other"),
                  sample=case)
    ctx.correspond("combine_slices (whole tuples, zip_longest)", nd_cases)


MALFORMED = ["[", "]", "[]", "[1:2:3:4]", "[a]", "[1:b]", "[1][", "[1:2]]", "[[1]]", "[1:2:3][4:5:6:7]", "[ 1 : 2 ]",
             "[1_0]", "[+3]", "[-1:2]", "[1::2]", "[:]", "x", "[1]x[2]", "[1.5]", "[0x10]", "[१]", "[1][2][3]",
             "][", "[1:2][", "[1e3]"]


def run(ctx):
    ctx.rule = ("exhaustive enumeration of the property's scope (N 0..8, start/stop None or in [-N,N+3], step "
                "None/1..4, ints, Ellipsis positions, tuples to rank 3; all composition pairs over it) plus seeded "
                "random cases beyond it (N to 10^6, steps to 50, rank to 6) and a malformed hyperslab-text stream; "
                "a case is non-trivial when it is not the all-None slice / empty tuple / empty composition; distinct "
                "by (function, shape, index)")
    ctx.assumptions = ["numpy basic indexing is the oracle; `sel` (Lean) is compared with numpy on every case"]
    ctx.proof_phase()
    fns = load()
    fix_slice, combine_slices, hyperslab, parse_hyperslab = fns
    explore(ctx, fns, ctx.tier)
    return ctx.finish(search=lambda c: explore(c, fns, "thorough", search=True))


def explore(ctx, fns, tier, search=False):
    fix_slice, combine_slices, hyperslab, parse_hyperslab = fns
    cases = []
    sel_cases = []
    # (a) single axis, exhaustive in scope
    normalised = {}
    for N in range(0, 9):
        x = np.arange(N)
        seen = {}
        for s in scope_slices(N):
            out = check_fix_axis(ctx, fix_slice, N, s, cases, "scope")
            sel_cases.append(("sel %d %s" % (N, sl_sexp(s)), "(" + " ".join(map(str, x[s].tolist())) + ")",
                              {"N": N, "s": repr(s)}))
            if out is not None:
                seen[(out[0].start, out[0].stop, out[0].step)] = out[0]
        for i in range(-N, N):
            out = check_fix_axis(ctx, fix_slice, N, i, cases, "scope")
            sel_cases.append(("selint %d %d" % (N, i), str(int(x[i])), {"N": N, "i": i}))
        normalised[N] = list(seen.values())
    ctx.correspond("fix_slice", cases)
    ctx.correspond("sel (numpy specification function)", sel_cases)
    cases = []
    # (b) composition pairs: every normalised stored slice x every raw second slice of the scope
    for N in range(0, 9):
        x = np.arange(N)
        for f1 in normalised[N]:
            L = len(x[f1])
            for s2 in scope_slices(L):
                if s2.step == 4 and tier == "quick" and not search:
                    continue
                check_combine(ctx, fns, N, f1, s2, cases, "scope")
            for i in range(-L, L):
                check_combine(ctx, fns, N, f1, i, cases, "scope")
        # default (all-None) stored slice
        for s2 in scope_slices(N):
            check_combine(ctx, fns, N, slice(None), s2, cases, "scope-default")
    ctx.correspond("combine_slices", cases)
    check_combine_nd(ctx, fns, ctx.rng("combine-nd" + ("-search" if search else "")), 400 if (tier == "quick" and not search) else 6000)
    cases = []
    # (c) hyperslab print/parse for every normalised non-empty slice
    for N in range(1, 9):
        x = np.arange(N)
        for f1 in normalised[N]:
            if len(x[f1]) > 0:
                check_hyperslab(ctx, fns, N, (f1,), cases, "scope")
    # (d) tuples to rank 3
    shapes = {1: [(3,), (1,)], 2: [(3, 2), (2, 4)], 3: [(2, 3, 2), (3, 1, 4)]}
    for rank in (1, 2, 3):
        for shape in shapes[rank]:
            for t in tuples_scope(rank):
                n_real = len([e for e in t if e is not Ellipsis])
                if n_real > rank:
                    continue
                if not valid_for(shape, t):
                    continue
                check_tuple(ctx, fix_slice, shape, t, cases, "scope")
    ctx.correspond("fix_slice/hyperslab/parse_hyperslab", cases)
    cases = []
    ctx.exhaustive = True
    # (e) random beyond the scope
    rng = ctx.rng("beyond")
    n = 4000 if tier == "quick" else 60000

    def rbound(N):
        r = rng.random()
        if r < 0.2:
            return None
        if r < 0.6:
            return rng.randint(-N, N + 5)
        return rng.choice([-N, max(-1, -N), 0, 1, max(N - 1, 0), N, N + 1, N + 1000])

    def rslice(N):
        return slice(rbound(N), rbound(N), rng.choice([None, 1, 1, 2, 3, 5, 7, 50, rng.randint(1, 50)]))

    for _ in range(n):
        N = rng.choice([0, 1, 2, 3, 5, 8, 9, 13, 64, 100, 1000, 10 ** 6, rng.randint(0, 200)])
        s = rslice(N)
        x = np.arange(N)
        out = check_fix_axis(ctx, fix_slice, N, s, cases, "beyond")
        if out is None:
            continue
        f1 = out[0]
        L = len(x[f1])
        r = rng.random()
        s2 = rslice(L) if r < 0.85 or L == 0 else rng.randint(-L, L - 1)
        check_combine(ctx, fns, N, f1, s2, cases, "beyond")
        if L > 0:
            check_hyperslab(ctx, fns, N, (f1,), cases, "beyond")
            # a composed slice printed and parsed again
            f2 = fix_slice(s2, (L,))
            c = combine_slices((f1,), f2)
            if len(x[c]) > 0:
                check_hyperslab(ctx, fns, N, c, cases, "beyond-composed")
    for _ in range(n // 8):
        rank = rng.randint(1, 6)
        shape = tuple(rng.randint(1, 5) for _ in range(rank))
        m = rng.randint(0, rank)
        t = []
        for ax in range(m):
            N = shape[ax]
            t.append(rslice(N) if rng.random() < 0.7 else rng.randint(-N, N - 1))
        if rng.random() < 0.5:
            t.insert(rng.randint(0, len(t)), Ellipsis)
        t = tuple(t)
        if not valid_for(shape, t):
            continue
        check_tuple(ctx, fix_slice, shape, t, cases, "beyond")
    ctx.correspond("slice functions beyond the scope", cases)
    # (f') the three hyperslab forms as other clients write them: [a], [a:b], [a:k:b] (inclusive stop)
    cases = []
    forms = []
    for N in range(1, 7):
        for a in range(0, N):
            forms.append((N, "[%d]" % a, [a]))
            for b in range(a, N + 1):
                forms.append((N, "[%d:%d]" % (a, b), [x for x in range(a, b + 1) if x < N]))
                for k in (1, 2, 3):
                    forms.append((N, "[%d:%d:%d]" % (a, k, b), [x for x in range(a, b + 1, k) if x < N]))
    for _ in range(300 if tier == "quick" else 5000):
        N = rng.randint(1, 10 ** 4)
        a = rng.randint(0, N - 1)
        b = rng.randint(a, N + 3)
        k = rng.randint(1, 60)
        forms.append((N, "[%d:%d:%d]" % (a, k, b), [x for x in range(a, b + 1, k) if x < N]))
    for N, text, exp in forms:
        case = {"fn": "parse_hyperslab", "N": N, "text": text}
        try:
            back = parse_hyperslab(text)
            impl = "(ok" + "".join(" " + sl_sexp(s) for s in back) + ")"
            got = np.arange(N)[back].tolist()
        except Exception as e:
            impl = "(err %s)" % err_class(e)
            got = impl
        cases.append(("parsehs %s" % hexb(text.encode()), impl, {"text": text}))
        if got != exp:
            ctx.oracle_fail("parse_hyperslab selects other positions than the DAP hyperslab names", case, got, exp,
                            size=N)
        ctx.count(("form", N, text), True, tag="forms:%d-token" % (text.count(":") + 1), sample=case)
    ctx.correspond("parse_hyperslab on the three hyperslab forms", cases)
    # (f) malformed hyperslab texts: error classes must agree (feeds C15's model of parse errors)
    cases = []
    texts = list(MALFORMED)
    for _ in range(300):
        texts.append("".join(rng.choice("[]:0123456789 -+a_") for _ in range(rng.randint(0, 9))))
    for text in texts:
        try:
            back = parse_hyperslab(text)
            impl = "(ok" + "".join(" " + sl_sexp(s) for s in back) + ")"
        except Exception as e:
            impl = "(err %s)" % err_class(e)
        if all(ord(ch) < 128 for ch in text):
            cases.append(("parsehs %s" % hexb(text.encode()), impl, {"text": text}))
            ctx.count(("mal", text), True, tag="malformed:" + impl[:8])
    ctx.correspond("parse_hyperslab on malformed text", cases)


def replay(payload):
    """re-run the recorded failing case on the implementation; True when the property holds now"""
    fix_slice, combine_slices, hyperslab, parse_hyperslab = load()
    f = payload.get("failure")
    if not f:
        print("nothing to replay: %s" % payload.get("no_longer_checks"))
        return False
    c = f["case"]
    g = {"slice": slice, "Ellipsis": Ellipsis}
    if c["fn"] == "parse_hyperslab":
        x = np.arange(c["N"])
        got, exp = x[parse_hyperslab(c["text"])], np.asarray(f["expected"])
    elif c["fn"] == "fix_slice":
        shape = tuple(c["shape"]) if "shape" in c else (c["N"],)
        x = np.arange(int(np.prod(shape))).reshape(shape)
        idx = eval(c["index"], g)
        got, exp = x[fix_slice(idx, shape)], x[idx]
    elif c["fn"] == "combine_slices_nd":
        shape = tuple(c["shape"])
        x = np.arange(int(np.prod(shape))).reshape(shape)
        s1, s2, f2 = eval(c["stored"], g), eval(c["second"], g), eval(c["second_fixed"], g)
        one = lambda t: tuple(slice(e, e + 1) if isinstance(e, int) else e for e in t)
        given = eval(c["stored_given"], g) if "stored_given" in c else s1
        got, exp = x[one(combine_slices(given, f2))], x[s1][one(s2)]
    elif c["fn"] == "combine_slices":
        x = np.arange(c["N"])
        s1, s2, f2 = eval(c["stored"], g), eval(c["second"], g), eval(c["second_fixed"], g)
        got, exp = x[combine_slices((s1,), f2)], np.atleast_1d(x[s1][s2])
    else:
        shape = tuple(c["shape"])
        x = np.arange(int(np.prod(shape))).reshape(shape)
        s = eval(c["slices"], g)
        got, exp = x[parse_hyperslab(hyperslab(s))], x[s]
    print("observed", np.asarray(got).tolist(), "expected", np.asarray(exp).tolist())
    return np.asarray(got).shape == np.asarray(exp).shape and bool((np.asarray(got) == np.asarray(exp)).all())
