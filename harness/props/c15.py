"""C15 — every request gets a complete HTTP answer: data or a DAP error document.
Proof: lean/Props/C15.lean (model lean/PydapModel/Handler.lean).  Tie: outcome of
`Request.blank(path?query).get_response(BaseHandler(ds))` — exception class / status / response kind / whole body —
vs `Handler.handle` for generated datasets, valid CEs, fault-injected CEs and paths with / without / unknown
extension.  Oracle: the property read directly off the webob response (no model), for the bare handler and for the
handler behind the server-side-function middleware, with and without gzip, and for the same dataset with its
sequences behind lazy row streams; histories of requests on several datasets held by one process (explore_histories)."""
import common
import handler_gen as G
from common import hexb

LEVEL = "proof"

SSF_ESCAPE = "C15.ssf_middleware.raises_before_or_while_delegating"
HS_KEY = "C15.hyperslab_outside_shape.200_then_body_raises"


def hs_witness_request():
    """the witness of the repaired finding HS_KEY: /d.dods?a[20] on Int32 a[3] answered 200 and the body raised"""
    BaseHandler, _ = load()
    spec = {"name": "d", "vars": [{"k": "b", "name": "a", "dt": "i4", "shape": [3], "dims": [], "data": [5, 6, 7]}]}
    return G.run_request(BaseHandler(G.build(spec)), "/d.dods", "a[20]")


def load():
    from pydap.handlers.lib import BaseHandler
    from pydap.wsgi.ssf import ServerSideFunctions

    return BaseHandler, ServerSideFunctions


def canon_impl(res):
    """the implementation's outcome in the model's vocabulary"""
    if res["exc"]:
        return "escaped:" + res["exc"]
    if res["status"] == 500 and res["cdesc"] == "OPeNDAP_error":
        try:
            m = G.ERR_RE.match(res["body"].decode("utf-8"))
        except Exception:
            m = None
        return "errdoc:" + (m.group(1) if m else "malformed")
    if res["status"] == 200:
        kind = G.KIND_OF_DESC.get(res["cdesc"])
        if kind is None:
            return "ok:other"
        if res["body_exc"]:
            return "ok:%s:raises:%s" % (kind, res["body_exc"])
        # the data response is compared byte for byte too: declaration, `Data:\n`, the XDR payload
        return "ok:%s:%s" % (kind, hexb(res["body"]))
    return "status:%s" % res["status"]


EXC_LINE = __import__("re").compile(r"^([A-Za-z_][\w.]*)(?::|$)")

# the requests of C15_exception_classes_reached (lean/Props/C15.lean), run against the implementation too
REACHED = [("/d", ""), ("/d.dds", "a[x]"), ("/d.dds", "a[1:2:3:4]"), ("/d.dds", "a[3]"), ("/d.dds", "dap4.ce=a"), ("/d.foo", ""),
           ("/d.dds", "zz.p"), ("/d.dds", "("), ("/d.dds", "a.b"), ("/d.dmr", "")]
REACHED_SPEC = {"name": "d", "vars": [{"k": "b", "name": "a", "dt": "i4", "shape": [3], "dims": [], "data": [5, 6, 7]}]}


def impl_exc_class(res):
    """the class of the exception the guarded region caught, read off the traceback in the error document (or the class
    that escaped); None for a 200"""
    if res["exc"]:
        return res["exc"]
    if res["status"] != 500 or res["body"] is None:
        return None
    try:
        m = G.ERR_RE.match(res["body"].decode("utf-8"))
    except Exception:
        return "?"
    if not m:
        return "?"
    for line in reversed(m.group(2).strip('"').split("\n")):
        mm = EXC_LINE.match(line)
        if mm and not line.startswith(" "):
            return mm.group(1).rsplit(".", 1)[-1]
    return "?"


def judge(ctx, res, path, query, valid, where, case, cls=None, hs_cls=None):
    """the property, read directly off the response"""
    ext = G.ext_of(path)
    if res["exc"]:
        ctx.oracle_fail("the application raised %s instead of answering" % res["exc"], case,
                        "%s: %s" % (res["exc"], res.get("exc_msg")), "status 200 or a DAP error document", cls=cls,
                        size=len(path) + len(query or ""))
        return "escaped"
    if res["status"] == 200:
        want = G.CTYPE_OF_EXT.get(ext, "?")
        if want == "?" or (want is not None and res["ctype"] != want):
            ctx.oracle_fail("status 200 with content type %r for extension %r" % (res["ctype"], ext), case, res["ctype"], want, cls=cls)
        if valid and res["body_exc"]:
            ctx.oracle_fail("valid constraint: %s raised while the 200 body was read" % res["body_exc"], case,
                            "%s: %s" % (res["body_exc"], res.get("body_exc_msg")), "body readable to its end", cls=cls,
                            size=len(path) + len(query or ""))
            return "body-raises"
        if res["body_exc"]:
            # neither data nor an error document: the status line says 200 and the body cannot be produced
            ctx.oracle_fail("invalid constraint answered 200 and %s was raised while the body was read (neither data nor "
                            "an error document)" % res["body_exc"], case, "%s: %s" % (res["body_exc"], res.get("body_exc_msg")),
                            "an error document, or a 200 body readable to its end", cls=hs_cls, size=len(path) + len(query or ""))
            ctx.notes_count["invalid CE (%s, .%s, %s): 200 then %s while the body is read%s" % (
                case.get("class", "?").split("/")[0], ext, where, res["body_exc"],
                "" if hs_cls else " OUTSIDE the known class")] += 1
            return "200-body-raises"
        return "200"
    if res.get("clen") is not None and res["body"] is not None and not res["body_exc"]:
        # a complete HTTP answer: an announced Content-Length is the length of the body in bytes (an HTTP client reads
        # exactly that many: a shorter count cuts the error document before its closing brace)
        try:
            announced = int(res["clen"])
        except ValueError:
            announced = -1
        if announced != len(res["body"]):
            ctx.oracle_fail("the announced Content-Length is not the length of the body (status %s)" % res["status"], case,
                            announced, len(res["body"]), cls=cls, size=len(path) + len(query or ""))
            return "content-length"
    if res["status"] == 500:
        ok = res["cdesc"] == "OPeNDAP_error" and res["body"] is not None
        try:
            ok = ok and bool(G.ERR_RE.match(res["body"].decode("utf-8")))
        except Exception:
            ok = False
        if not ok:
            ctx.oracle_fail("error answer is not a DAP error document", case, (res["cdesc"], (res["body"] or b"")[:80]),
                            "Error { code = …; message = …; } marked OPeNDAP_error", cls=cls)
        if valid and ext in G.EXT_MODELLED:
            ctx.oracle_fail("valid constraint answered with an error document", case, (res["body"] or b"")[-300:].decode("utf-8", "replace"),
                            "status 200", cls=cls)
        return "errdoc"
    ctx.oracle_fail("status %s is neither 200 nor the error document" % res["status"], case, res["status"], "200 / 500 error document", cls=cls)
    return "other"



def holds_alone(c):
    """the single-request case `c` served by a freshly built application on freshly imported pydap modules: True when
    the property holds then (the failure seen in the run depended on what the process had served before)"""
    from collections import Counter
    G.fresh_pydap()
    BaseHandler, SSF = load()
    spec = spec_from_sexp(c["dataset"])
    ds = G.build(spec)
    app = {"handler": lambda: BaseHandler(ds), "ssf": lambda: SSF(BaseHandler(ds)), "gzip": lambda: BaseHandler(ds, gzip=True),
           "lazy": lambda: BaseHandler(G.build(spec, lazy="plain"))}[c["app"]]()
    res = G.run_request(app, c["path"], c["query"])
    q = common.Ctx("C15", "quick", 0)
    q.findings = []
    q.notes_count = Counter()
    judge(q, res, c["path"], c["query"], c["class"].startswith(("valid/known-ext", "valid/other-ext")), c["app"], c)
    return not q.oracle_failures


def settle(ctx, n0, case, budget):
    """failures recorded since position n0 belong to the single-request `case`: when the request is answered correctly by a
    fresh process, say so and rank the case behind the self-contained ones (its replay would hold)"""
    if len(ctx.oracle_failures) == n0:
        return False
    if budget[0] <= 0:
        for f in ctx.oracle_failures[n0:]:        # not re-checked: ranked behind the cases known to replay on their own
            f["size"] += 5 * 10 ** 5
        return False
    budget[0] -= 1
    try:
        alone = holds_alone(case)
    except Exception:
        alone = False
    if alone:
        for f in ctx.oracle_failures[n0:]:
            f["what"] += " - only after what this process had served before: a fresh process answers the same request correctly"
            f["size"] += 10 ** 6
    return True


def table_cases(ctx):
    """the response table and the error-document shape of the model vs the source"""
    BaseHandler, _ = load()
    from pydap.model import DatasetType
    from pydap.responses.error import ErrorResponse

    cases = []
    for ext in ["dds", "das", "dods", "ascii", "asc", "dmr", "html", "ver", "foo", "", "DDS", "json"]:
        cls = BaseHandler.responses.get(ext)
        if cls is None:
            impl = "none"
        elif ext in ("dmr", "html", "ver"):
            impl = "other||"
        else:
            h = dict(cls(DatasetType("x")).headers)
            kind = G.KIND_OF_DESC[h["Content-description"]]
            impl = "%s|%s|%s" % (kind, h["Content-type"], h["Content-description"])
        cases.append(("h-table %s" % G.hx(ext), impl, {"ext": ext}))
    for code, msg in [(-1, '"x"'), (7, '"Traceback:\n  a;b\n"'), (0, '""')]:
        class E(Exception):
            pass
        E.code = code
        try:
            raise E("x")
        except E:
            import sys
            er = ErrorResponse(sys.exc_info())
        # the message is whatever encode(traceback) is; the model takes it as a parameter
        m = G.ERR_RE.match(er.body)
        if not m:
            ctx.oracle_fail("ErrorResponse body is not the DAP error document", {"app": "handler", "path": "/d.nope", "query": "",
                            "dataset": "(ds x64 ())", "class": "table/unknown-ext"}, er.body[:80],
                            "Error {\n    code = …;\n    message = …;\n}")
            continue
        cases.append(("h-errbody %d %s" % (code, hexb(m.group(2).encode())), hexb(er.body.encode()), {"code": code}))
    from webob import Request
    r = Request.blank("/").get_response(er)
    cases.append(("h-errheaders", "%d|%s|%s" % (r.status_int, r.content_type, r.headers.get("Content-description")), {}))
    ctx.correspond("response table / ErrorResponse shape", cases)


def explore(ctx, tier, search=False):
    from collections import Counter
    BaseHandler, SSF = load()
    if not hasattr(ctx, "notes_count"):
        ctx.notes_count = Counter()
    rng = ctx.rng("requests" + ("-search" if search else ""))
    n_ds = 120 if tier == "quick" else 800
    if search:
        n_ds = 150
    cases = []
    pinned_probe = []
    exc_cases = []
    exc_examples = {}
    app0 = BaseHandler(G.build(REACHED_SPEC))
    sx0 = G.ds_sexp(REACHED_SPEC)
    for path, q in REACHED:
        res = G.run_request(app0, path, q)
        case = {"app": "handler", "path": path, "query": q, "dataset": sx0, "class": "reached/fixed"}
        judge(ctx, res, path, q, False, "handler", case)
        exc_cases.append(("h-exc %s %s %s" % (sx0, G.hx(path), G.hx(q)), res, case))
    settle_budget = [40]
    for di in range(n_ds):
        BaseHandler, SSF = load()      # (the modules may have been imported anew by `settle`)
        spec = G.gen_dataset(rng, ambiguous=rng.random() < 0.3)
        sx = G.ds_sexp(spec)
        ds = G.build(spec)
        apps = {"handler": BaseHandler(ds), "ssf": SSF(BaseHandler(ds)), "gzip": BaseHandler(ds, gzip=True)}
        if any(v["k"] == "sq" and v["rows"] for v in spec["vars"]):
            # the same dataset with its sequences behind lazy row streams (IterData): filters run when the stream is read
            apps["lazy"] = BaseHandler(G.build(spec, lazy="plain"))
        reqs = []
        for _ in range(10):
            q, _exp = G.gen_valid_ce(rng, spec)
            path, pcls = G.gen_path(rng)
            reqs.append((path, q, pcls, "valid"))
        for kind in G.FAULT_KINDS:
            for _ in range(2 if kind != "byte-mutation" else (6 if tier == "quick" else 30)):
                q0, _exp = G.gen_valid_ce(rng, spec)
                q = G.inject_fault(rng, spec, q0, kind)
                path, pcls = G.gen_path(rng) if rng.random() < 0.5 else ("/d.%s" % rng.choice(["dds", "dods", "ascii"]), "known-ext")
                reqs.append((path, q, pcls, kind))
        for path, q, pcls, kind in reqs:
            if any(ord(ch) > 126 or ord(ch) < 33 or ch == "#" for ch in q):
                continue
            res = G.run_request(apps["handler"], path, q)
            if not res["sent"]:
                ctx.notes_count["request not expressible through Request.blank"] += 1
                continue
            # dmr / html / ver are registered responses too: a valid constraint must give a readable body there as well
            valid = kind == "valid" and pcls in ("known-ext", "other-ext")
            hs_cls = None      # the finding HS_KEY is repaired: a 200 whose body raises is a violation wherever it occurs
            case = {"app": "handler", "path": path, "query": q, "dataset": sx, "class": kind + "/" + pcls}
            n0 = len(ctx.oracle_failures)
            verdict = judge(ctx, res, path, q, valid, "handler", case, hs_cls=hs_cls)
            reloaded = settle(ctx, n0, case, settle_budget)
            impl = canon_impl(res)
            cases.append(("h-handle %s %s %s" % (sx, G.hx(path), G.hx(q)), impl, case))
            exc_cases.append(("h-exc %s %s %s" % (sx, G.hx(path), G.hx(q)), res, case))
            ctx.count((sx, path, q), kind != "valid" or bool(q), tag="%s|%s|%s" % (kind, pcls, verdict),
                      sample={"path": path, "query": q, "outcome": impl[:60]})
            # the same request behind the function middleware and with gzip (oracle only)
            for name in ("ssf", "gzip", "lazy"):
                if name == "gzip" and rng.random() < 0.6:
                    continue
                if name == "lazy" and (name not in apps or rng.random() < 0.4):
                    continue
                r2 = G.run_request(apps[name], path, q)
                c2 = dict(case, app=name)
                n0 = len(ctx.oracle_failures)
                v2 = judge(ctx, r2, path, q, valid, name, c2, cls=SSF_ESCAPE if name == "ssf" else None, hs_cls=hs_cls)
                reloaded = settle(ctx, n0, c2, settle_budget) or reloaded
                ctx.count((name, sx, path, q), True, tag="%s:%s|%s" % (name, kind, v2))
    # correspondence: the model may leave the inside of the guarded region unresolved ("answered"):
    # then only the fact that the application answered is compared
    outs = common.run_driver([c[0] for c in cases])
    adj = []
    for (line, impl, meta), mod in zip(cases, outs):
        if mod == "answered" and not impl.startswith("escaped") and not impl.startswith("status"):
            ctx.tags["model:unresolved-inside-try"] += 1
            impl = "answered"
        else:
            ctx.tags["model:resolved"] += 1
        adj.append((line, impl, meta))
    ctx.correspond("BaseHandler.__call__ outcome (class, kind, whole body)", adj)
    # which exception class the guarded region raises: the model's `Exc` constructor vs the class named by the traceback
    # of the error document.  Where the model says `unspecified` only the table is filled.
    outs = common.run_driver([c[0] for c in exc_cases])
    adj = []
    for (line, res, meta), mod in zip(exc_cases, outs):
        cls = impl_exc_class(res)
        if res["status"] == 200:
            kind = G.KIND_OF_DESC.get(res["cdesc"])
            impl = "ok:%s" % (kind or "other")
        else:
            impl = "err:%s" % cls
        key = "raised|model=%s|impl=%s" % (mod.split(":", 1)[1] if mod.startswith("err:") else "-", cls or "-")
        if mod.startswith("err:") or cls:
            ctx.tags[key] += 1
            exc_examples.setdefault(key, "%s?%s" % (meta["path"], meta["query"]))
        if mod == "err:unspecified":
            impl = mod
        adj.append((line, impl, meta))
    ctx.correspond("exception class raised inside the guarded region (Exc constructor vs traceback of the error document)", adj)
    for key in sorted(exc_examples):
        ctx.notes.append("exception-class coverage %s: %d, e.g. %s" % (key, ctx.tags[key], exc_examples[key]))
    reachable = ["ValueError", "ConstraintExpressionError", "KeyError", "AttributeError", "unspecified"]
    missing = [e for e in reachable if not any(k.startswith("raised|model=%s|" % e) for k in exc_examples)]
    ctx.notes.append("exception-class coverage: Exc constructors produced by `guarded` reached in this run: %s; not reached: %s" % (
        ", ".join(e for e in reachable if e not in missing), ", ".join(missing) or "none"))
    for k, v in ctx.notes_count.items():
        ctx.notes.append("%s: %d" % (k, v))
    ctx.notes_count.clear()



# ------------------------------------------------------------------------------------------------ histories
def run_history(handlers, reqs, directory, upto=None):
    """serve `reqs` ([key, path, query, valid]) one after the other from handlers ([key, backend, spec]) that are all
    built first and live in this process together, on freshly imported pydap modules; returns the responses"""
    G.fresh_pydap()
    # a handler whose key ends in "'" replaces the handler of the same name while the process runs (a CSV file rewritten
    # with other column types, a dataset swapped): it is built when it is first asked, the one it replaces is not asked again
    apps = {key: G.build_app(backend, spec, directory) for key, backend, spec in handlers if not key.endswith("'")}
    late = {key: (backend, spec) for key, backend, spec in handlers if key.endswith("'")}
    out = []
    for key, path, q, _valid in reqs[: (upto + 1) if upto is not None else None]:
        if key not in apps:
            apps[key] = G.build_app(*late[key], directory)
        out.append(G.run_request(apps[key], path, q))
    return out


def history_case(handlers, reqs, k):
    key, path, q, valid = reqs[k]
    spec = [h for h in handlers if h[0] == key][0][2]
    return {"app": "history", "handlers": [[h[0], h[1], G.ds_sexp(h[2])] for h in handlers],
            "requests": [list(r) for r in reqs[: k + 1]], "index": k, "path": path, "query": q, "dataset": G.ds_sexp(spec),
            "class": ("valid" if valid else "faulty") + "/history"}


def fails_alone(handlers, reqs, idx, directory):
    """does the last of the requests `idx` (a sub-history, in order) still fail the oracle when served on its own?"""
    from collections import Counter
    sub = [reqs[i] for i in idx]
    res = run_history(handlers, sub, directory)[-1]
    q = common.Ctx("C15", "quick", 0)
    q.findings = []
    q.notes_count = Counter()
    judge(q, res, sub[-1][1], sub[-1][2], sub[-1][3], "history", {"class": "history"})
    return bool(q.oracle_failures)


def explore_histories(ctx, tier, search=False):
    """several datasets in one process: handlers built together, requests served alternately, every body read to its
    end; the oracle is `judge`, the tie is the whole history against the model of a process (`h-proc`)"""
    import shutil
    import tempfile
    from collections import Counter
    if not hasattr(ctx, "notes_count"):
        ctx.notes_count = Counter()
    rng = ctx.rng("histories" + ("-search" if search else ""))
    n_hist = 60 if tier == "quick" else 400
    directory = tempfile.mkdtemp(prefix="c15-hist-")
    lines = []
    shrunk = [0]
    try:
        for hi in range(n_hist):
            fam = G.gen_family(rng)
            handlers = [(key, backend, spec) for key, backend, spec in fam]
            by_key = {h[0]: h for h in handlers}
            reqs = []
            last = None
            n_req = rng.randint(8, 16)
            # in every third history one dataset is replaced while the process runs: same key, same file name / dataset
            # name, other column types and records (for CSV: the file is rewritten and opened again, as DapServer does)
            switch = None
            if hi % 3 == 2:
                old_key, old_backend, old_spec = rng.choice(handlers)
                new_spec = G.gen_csv_spec(rng, old_spec["name"].split("%2E")[0]) if old_backend == "csv" else None
                if new_spec is None:
                    for _try in range(50):
                        new_spec = G.gen_dataset(rng)
                        if any(v["k"] == "sq" and v["rows"] for v in new_spec["vars"]):
                            break
                    new_spec["name"] = old_spec["name"]
                handlers.append((old_key + "'", old_backend if old_backend == "csv" else rng.choice(["mem", "lazy", "ranged"]), new_spec))
                by_key[old_key + "'"] = handlers[-1]
                switch = (rng.randint(2, n_req - 2), old_key)
            for ri in range(n_req):
                live = [h[0] for h in handlers if not h[0].endswith("'")]
                if switch:
                    live = [k_ for k_ in live if k_ != switch[1]] + [switch[1] if ri < switch[0] else switch[1] + "'"]
                key = rng.choice([k_ for k_ in live if k_ != last] or [last]) if rng.random() < 0.85 else rng.choice(live)
                last = key
                _, backend, spec = by_key[key]
                for _try in range(30):
                    q, _exp = G.gen_valid_ce(rng, spec)
                    if backend != "ranged" or not any(c in q for c in "&<>=!"):
                        break
                else:
                    q = ""
                valid = True
                if rng.random() < 0.15:
                    q = G.inject_fault(rng, spec, q, rng.choice(G.FAULT_KINDS))
                    valid = False
                    if any(ord(ch) > 126 or ord(ch) < 33 or ch == "#" for ch in q):
                        continue
                ext = rng.choice(["dods", "dods", "dods", "dods", "ascii", "ascii", "dds", "dds", "das"])
                reqs.append((key, G.request_path(backend, spec, ext), q, valid))
            results = run_history(handlers, reqs, directory)
            impl = []
            for k, ((key, path, q, valid), res) in enumerate(zip(reqs, results)):
                if not res["sent"]:
                    impl.append(None)
                    continue
                probe = common.Ctx("C15", "quick", 0)
                probe.findings = []
                probe.notes_count = Counter()
                verdict = judge(probe, res, path, q, valid, "history", {"class": "history"})
                if probe.oracle_failures:
                    # record the smallest sub-history that still fails on its own (the request alone, a pair, the prefix)
                    idx = None
                    shrunk[0] += 1
                    for cand in ([[k]] + [[j, k] for j in range(k)]) if shrunk[0] <= 8 else []:   # (only the first few failures are minimised)
                        if fails_alone(handlers, reqs, cand, directory):
                            idx = cand
                            break
                    sub = [reqs[i] for i in idx] if idx else list(reqs[: k + 1])
                    used = {r[0] for r in sub}
                    case = history_case([h for h in handlers if h[0] in used], sub, len(sub) - 1)
                    for f in probe.oracle_failures:
                        ctx.oracle_fail("history of %d request(s) on %d dataset(s) in one process: %s" % (len(sub), len(used), f["what"]),
                                        case, f["observed"], f["expected"], size=len(repr(case)))
                impl.append(canon_impl(res))
                ctx.count(("history", hi, k, key, path, q), True, tag="history:%s|%s|%s|%s" % (
                    by_key[key][1], "valid" if valid else "faulty", G.ext_of(path), verdict),
                    sample={"history": hi, "backend": by_key[key][1], "path": path, "query": q})
            kept = [(r, i) for r, i in zip(reqs, impl) if i is not None]
            ctx.tags["history:backends=%s%s" % ("+".join(sorted(h[1] for h in handlers if not h[0].endswith("'"))),
                                                  " (one replaced while running)" if switch else "")] += 1
            line = "h-proc (%s) (%s)" % (" ".join("(%s %s)" % (G.hx(h[0]), G.ds_sexp(h[2])) for h in handlers),
                                         " ".join("(%s %s %s)" % (G.hx(r[0]), G.hx(r[1]), G.hx(r[2])) for r, _ in kept))
            lines.append((line, [i for _, i in kept], {"history": hi, "handlers": [[h[0], h[1], G.ds_sexp(h[2])] for h in handlers],
                                                       "requests": [list(r) for r, _ in kept]}))
    finally:
        shutil.rmtree(directory, ignore_errors=True)
        G.fresh_pydap()
    hist_tags = {k: v for k, v in ctx.tags.items() if k.startswith("history:")}
    ctx.notes.append("histories%s: %d histories, %d requests; per history: %s; per request (backend|valid|ext|verdict): %s" % (
        " (search)" if search else "", len(lines), sum(len(l[1]) for l in lines),
        ", ".join("%s: %d" % (k[len("history:backends="):], v) for k, v in sorted(hist_tags.items()) if k.startswith("history:backends=")),
        ", ".join("%s: %d" % (k[len("history:"):], v) for k, v in sorted(hist_tags.items(), key=lambda kv: -kv[1])
                  if not k.startswith("history:backends="))[:1500]))
    outs = common.run_driver([l[0] for l in lines])
    adj = []
    for (line, impl, meta), mod in zip(lines, outs):
        mods = mod.split(";") if mod else []
        if len(mods) == len(impl):
            impl = ["answered" if m == "answered" and not i.startswith("escaped") and not i.startswith("status") else i
                    for m, i in zip(mods, impl)]
            # point at the first request whose answer differs
            bad = [k for k, (m, i) in enumerate(zip(mods, impl)) if m != i]
            if bad:
                meta = dict(meta, first_difference=bad[0], request=meta["requests"][bad[0]])
        adj.append((line, ";".join(impl), meta))
    ctx.correspond("histories: several datasets served alternately by one process vs the process model (run)", adj)


def run(ctx):
    ctx.rule = ("per generated dataset (arrays, structures, grids, flat sequences): 10 valid CEs and 2..6 CEs per fault "
                "kind (unknown variable, non-numeric / over-long / negative / inverted / out-of-range hyperslab, too many "
                "indices, unbalanced brackets or parentheses, unknown function, wrong operand type, operands that are not "
                "Python literals, bad operator, function call combined with a faulty clause or argument, bad paths through "
                "the nested structure, percent escapes, dap4.ce, byte-level mutation) x paths with known / unmodelled / no / unknown extension; a case is "
                "non-trivial unless it is the valid empty query; distinct by (dataset, path, query); "
                "histories: 2..4 datasets held by handlers of one process (in-memory, lazy IterData, lazy with a record range, CSV files), "
                "same dataset name and ids drawn from the same pool with other types / shapes / record counts, 8..16 requests "
                "(.dods .ascii .dds .das, 15 % fault-injected) served alternately, each body read to its end")
    ctx.assumptions = ["webob Request/Response plumbing is trusted; the body is read through Response.body",
                       "inside the guarded region the model leaves comparisons of unlike types, operands that are not literals, paths "
                       "through base variables and odd record ranges unresolved (outcome `answered`): containment does not depend "
                       "on them; hyperslabs on arrays and grids are resolved (check_hyperslab)"]
    ctx.proof_phase()
    table_cases(ctx)
    explore_histories(ctx, ctx.tier)
    explore(ctx, ctx.tier)

    def search(c):
        explore_histories(c, "thorough", search=True)
        explore(c, "thorough", search=True)
    return ctx.finish(search=search, witnesses={SSF_ESCAPE: ssf_witness})


def ssf_witness():
    BaseHandler, SSF = load()
    import random
    spec = G.gen_dataset(random.Random(1))
    res = G.run_request(SSF(BaseHandler(G.build(spec))), "/d", "")
    return bool(res["exc"])


def replay(payload):
    BaseHandler, SSF = load()
    f = payload.get("failure")
    if not f:
        print("nothing to replay: %s" % payload.get("no_longer_checks"))
        return False
    c = f["case"]
    if c.get("app") == "history":
        import shutil
        import tempfile
        from collections import Counter
        directory = tempfile.mkdtemp(prefix="c15-replay-")
        try:
            handlers = [(k, b, spec_from_sexp(sx)) for k, b, sx in c["handlers"]]
            reqs = [tuple(r) for r in c["requests"]]
            results = run_history(handlers, reqs, directory)
        finally:
            shutil.rmtree(directory, ignore_errors=True)
        for (key, path, q, valid), res in zip(reqs, results):
            print("request %s?%s on %s (%s) -> exc=%s status=%s description=%s body_exc=%s" % (
                path, q, key, [h[1] for h in handlers if h[0] == key][0], res["exc"], res["status"], res["cdesc"], res["body_exc"]))
        qc = common.Ctx("C15", "quick", 0)
        qc.findings = []
        qc.notes_count = Counter()
        judge(qc, results[-1], reqs[-1][1], reqs[-1][2], reqs[-1][3], "history", c)
        for fl in qc.oracle_failures:
            print("  fails:", fl["what"])
        return not qc.oracle_failures
    spec = spec_from_sexp(c["dataset"])
    ds = G.build(spec)
    app = {"handler": lambda: BaseHandler(ds), "ssf": lambda: SSF(BaseHandler(ds)), "gzip": lambda: BaseHandler(ds, gzip=True),
           "lazy": lambda: BaseHandler(G.build(spec, lazy="plain"))}[c["app"]]()
    res = G.run_request(app, c["path"], c["query"])
    print("request %s?%s on app=%s -> exc=%s status=%s description=%s body_exc=%s" % (
        c["path"], c["query"], c["app"], res["exc"], res["status"], res["cdesc"], res["body_exc"]))

    class Quiet(common.Ctx):
        pass
    from collections import Counter
    q = Quiet("C15", "quick", 0)
    q.findings = []
    q.notes_count = Counter()
    judge(q, res, c["path"], c["query"], c["class"].startswith(("valid/known-ext", "valid/other-ext")), c["app"], c)
    for fl in q.oracle_failures:
        print("  fails:", fl["what"])
    return not q.oracle_failures


def spec_from_sexp(sx):
    """inverse of handler_gen.ds_sexp (replays carry the dataset in the model's notation)"""
    import re as _re
    toks = _re.findall(r"\(|\)|[^\s()]+", sx)
    pos = 0

    def rd():
        nonlocal pos
        t = toks[pos]
        pos += 1
        if t == "(":
            out = []
            while toks[pos] != ")":
                out.append(rd())
            pos += 1
            return out
        return t

    tree = rd()
    inv = {v: k for k, v in G.DTYPES.items()}

    def s(x):
        return bytes.fromhex(x[1:]).decode()

    def val(x):
        return s(x) if x.startswith("x") else int(x)

    def base(b):
        return {"k": "b", "name": s(b[1]), "dt": inv[s(b[2])], "shape": [int(x) for x in b[3]], "dims": [s(x) for x in b[4]],
                "data": [val(x) for x in b[5]]}

    def member(m):
        if m[0] == "st":
            return {"k": "st", "name": s(m[1]), "members": [base(b) for b in m[2]]}
        return base(m)

    vars_ = []
    for v in tree[2]:
        if v[0] == "b":
            vars_.append(base(v))
        elif v[0] == "st":
            vars_.append({"k": "st", "name": s(v[1]), "members": [member(m) for m in v[2]]})
        elif v[0] == "g":
            vars_.append({"k": "g", "name": s(v[1]), "array": base(v[2]), "maps": [base(m) for m in v[3]]})
        else:
            vars_.append({"k": "sq", "name": s(v[1]), "cols": [(s(c[0]), inv[s(c[1])]) for c in v[2]],
                          "rows": [[val(x) for x in r] for r in v[3]]})
    return {"name": s(tree[1]), "vars": vars_}
