"""C06 — all response kinds describe the same constrained dataset.
Proof: lean/Props/C06.lean (model lean/PydapModel/Handler.lean).  Tie: the four bodies (.dds .dods .ascii .das) of
BaseHandler(ds) for generated (dataset, valid CE) vs the model's bodies, byte for byte (the XDR payload of .dods is
decoded by the harness's own reader into the value sequence).  Oracle (no model): declarations read from the three
bodies by the harness's own DDS reader are equal to each other and to what numpy indexing of the source gives; every
value of the data response is printed by the ASCII response with its row-major index tuple, to '%.6g'; the ASCII body
reads to its end; the DAS does not depend on the query."""
import numpy as np

import common
import handler_gen as G
import props.c15 as c15

LEVEL = "proof"


def load():
    from pydap.handlers.lib import BaseHandler

    return BaseHandler


def attributed(spec):
    """the same dataset with attributes on everything (DAS independence is judged on it)"""
    ds = G.build(spec)
    ds.attributes["history"] = "generated"
    ds.attributes["NC_GLOBAL"] = {"n": 3, "title": "t"}
    from pydap.lib import walk
    for i, var in enumerate(walk(ds)):
        if var is not ds:
            var.attributes["units"] = "u%d" % i
            var.attributes["valid_range"] = [0, i + 1]
            if i % 2:
                # Byte-typed and bytes-valued attributes (numpy uint8 scalar / array, Python bytes)
                var.attributes["flag"] = np.uint8(200 + i % 50)
                var.attributes["mask"] = np.array([1, 128, 255], dtype="u1")
                var.attributes["raw"] = b"ab"
    return ds


def judge(ctx, spec, sx, q, expected, bodies, context=None, fixed=True):
    """bodies: ext -> run_request result. Returns a tag.  `context`: the pair of datasets held by the process and the
    requests served before this one (replayed with the case).  `fixed=False`: a variable named again after a STRIDED
    hyperslab - which elements the composition selects is numpy.lib.Arrayterator's business (it is not numpy's
    x[s1][s2], see design_notes/C06.md); the property asks that the three responses describe one dataset, so the
    declarations are compared with each other and the values of the data response with the ASCII listing, and the
    harness's statement of the composition rule (`expected`) is only counted"""
    case = {"dataset": sx, "query": q}
    if context:
        case["process"] = context
    size = len(q) + len(sx) // 50
    for ext in ("dds", "dods", "ascii"):
        r = bodies[ext]
        if r["exc"] or r["status"] != 200 or r["body_exc"]:
            what = ("%s raised while the .%s body was read" % (r["body_exc"], ext)) if r["body_exc"] else \
                ("the .%s request raised %s" % (ext, r["exc"])) if r["exc"] else ("the .%s request answered %s" % (ext, r["status"]))
            ctx.oracle_fail("valid constraint: " + what, dict(case, ext=ext),
                            r["exc"] or r["body_exc"] or (r["body"] or b"")[-200:].decode("utf-8", "replace"),
                            "status 200 and a body that reads to its end", size=size)
            return "incomplete:" + ext
    want_decl = G.expected_decl(expected)
    # the numpy expectation travels with the case, so that a replay judges against it too
    import json as _json
    case["want"] = {"decl": _json.loads(_json.dumps(want_decl)), "values": G.expected_values(expected)}
    decls = {}
    try:
        name, decls["dds"], rest = G.parse_dds(bodies["dds"]["body"].decode("ascii"))
        if rest != "":
            raise ValueError("text after the DDS: %r" % rest[:40])
        head, sep, payload = bodies["dods"]["body"].partition(b"Data:\n")
        if not sep:
            raise ValueError("no Data: separator in the data response")
        _, decls["dods"], rest2 = G.parse_dds(head.decode("ascii"))
        atext = bodies["ascii"]["body"].decode("ascii")
        _, decls["ascii"], arest = G.parse_dds(atext)
    except Exception as e:
        ctx.oracle_fail("a response's declaration part does not read as a DDS: %r" % (e,), case, repr(e), "three DDS texts", size=size)
        return "unreadable"
    if not fixed:
        ctx.tags["repeated after a strided hyperslab: declaration %s the Arrayterator rule" %
                 ("=" if decls["dds"] == want_decl else "differs from")] += 1
        want_decl = decls["dds"]
        case.pop("want", None)
    for k in ("dds", "dods", "ascii"):
        if decls[k] != want_decl:
            ctx.oracle_fail("the .%s declaration differs from the constrained source (names/order/types/shapes)" % k,
                            dict(case, ext=k), repr(decls[k])[:400], repr(want_decl)[:400], size=size)
            return "decl-differs"
    # values of the data response
    want_vals = G.expected_values(expected)
    try:
        vals = G.decode_dods_values(decls["dods"], payload)
    except Exception as e:
        ctx.oracle_fail("the data response does not decode against its own declaration: %r" % (e,), case, repr(e), "XDR values", size=size)
        return "undecodable"
    if not fixed:
        ctx.tags["repeated after a strided hyperslab: values %s the Arrayterator rule" % (
            "=" if [v if isinstance(v, str) else float(v) for v in vals] == [v if isinstance(v, str) else float(v) for v in want_vals]
            else "differ from")] += 1
        want_vals = vals
    if [v if isinstance(v, str) else float(v) for v in vals] != [v if isinstance(v, str) else float(v) for v in want_vals]:
        ctx.oracle_fail("the data response carries other values than the constrained source", case, vals[:30], want_vals[:30], size=size)
        return "values-differ"
    # the announced length of the data response is its length (the header is absent for sequences and strings)
    clen = bodies["dods"].get("clen")
    if clen is not None and int(clen) != len(bodies["dods"]["body"]):
        ctx.oracle_fail("the Content-Length of the data response differs from the length of its body", case, int(clen),
                        len(bodies["dods"]["body"]), size=size)
        return "content-length"
    want_clen = not any(e[0] == "sq" for e in expected) and "String" not in repr(want_decl)
    if want_clen != (clen is not None):
        ctx.oracle_fail("the data response %s a Content-Length" % ("lacks" if want_clen else "announces"), case, clen,
                        "a header exactly when the dataset holds neither a sequence nor strings", size=size)
        return "content-length-presence"
    # ASCII: every value, in order, with its index tuple
    if not arest.startswith("-" * 45 + "\n"):
        ctx.oracle_fail("no separator line after the ASCII declaration", case, arest[:60], "45 dashes", size=size)
        return "ascii-shape"
    try:
        cells = G.parse_ascii_data(decls["ascii"], arest[46:])
    except Exception as e:
        ctx.oracle_fail("the ASCII data section does not list the declared variables / all index tuples: %s" % e, case,
                        repr(e), "id line, one line per row-major index tuple, blank line", size=size)
        return "ascii-incomplete"
    printed = [c[2] for c in cells]
    want_printed = [G.printed(v) for v in vals]
    if printed != want_printed:
        ctx.oracle_fail("the ASCII response does not print every value of the data response (numbers to %.6g, strings quoted)", case,
                        printed[:30], want_printed[:30], size=size)
        return "ascii-values"
    return "ok"


def explore(ctx, tier, search=False):
    BaseHandler = load()
    rng = ctx.rng("four-bodies" + ("-search" if search else ""))
    n_ds = 200 if tier == "quick" else 1500
    if search:
        n_ds = 200
    cases = []
    clen_cases = []
    for pi in range(n_ds // 2):
        # two datasets of the same name (variables from the same pool of names, other types / shapes / record counts) are
        # held by two handlers of one process and asked alternately: an answer that depends on what the process served
        # before shows up.  pydap's modules are imported anew per pair, so that a pair replays on its own.
        G.fresh_pydap()
        BaseHandler = load()
        pair = []
        for side in (0, 1):
            di = 2 * pi + side
            spec = G.gen_dataset(rng)
            if side:
                spec["name"] = pair[0]["spec"]["name"]
            # every other dataset serves its sequences from a lazy row stream (plain, or already range-restricted); the same
            # handler object answers all 32 requests of the dataset
            lazy = False
            if pi % 2 and any(v["k"] == "sq" and v["rows"] for v in spec["vars"]):
                # every other pair is lazy on both sides (like-named columns of other types behind two row streams);
                # "plain" lazy sequences take selections too (the C04 findings empty result / column-vs-column are repaired)
                lazy = "ranged" if di % 4 == 3 else "plain"
            pair.append({"spec": spec, "sx": G.ds_sexp(spec), "lazy": lazy, "app": BaseHandler(G.build(spec, lazy=lazy)),
                         "app_attr": BaseHandler(attributed(spec))})
        for side in (0, 1):
            pair[side]["das_plain"] = G.run_request(pair[side]["app_attr"], "/d.das", "")
        served = []
        for ci, side in [(ci, side) for ci in range(9) for side in (0, 1)]:
            spec, sx, lazy, app, app_attr, das_plain = (pair[side][k] for k in ("spec", "sx", "lazy", "app", "app_attr", "das_plain"))
            q, expected = G.gen_valid_ce(rng, spec)
            repeated = None
            if ci == 8:
                # the ninth constraint names one array / grid / member twice or three times, any strides: the
                # expectation is the composition rule of numpy's Arrayterator stated by the harness (compose_windows)
                repeated = G.gen_repeated_ce(rng, spec)
                if repeated is not None:
                    q, expected = repeated
            for _ in range(20):
                if lazy != "ranged" or not any(c in q for c in "&<>=!"):
                    break
                q, expected = G.gen_valid_ce(rng, spec)
            else:
                q, expected = G.gen_valid_ce(rng, dict(spec, vars=[v for v in spec["vars"] if v["k"] != "sq"]))
            bodies = {ext: G.run_request(app, "/d." + ext, q) for ext in ("dds", "dods", "ascii", "das")}
            context = {"datasets": [pair[0]["sx"], pair[1]["sx"]], "lazy": [pair[0]["lazy"], pair[1]["lazy"]], "side": side,
                       "served": list(served)}
            served.append([side, q])
            strided = repeated is not None and any(__import__("re").search(r"\[\d+:[2-9]:\d+\]", it) for it in q.split(",")[:-1])
            tag = judge(ctx, spec, sx, q, expected, bodies, context, fixed=not strided)
            hs = "hyperslab" if "[" in q else "plain"
            if repeated is not None:
                hs = "repeated-item after-a-stride>1" if strided else "repeated-item after-unit-strides"
            kinds = "+".join(sorted({e[0] for e in expected})) or "empty"
            ctx.count((sx, q), bool(q), tag="%s|%s|sel=%s|%s" % (hs, kinds, "yes" if "&" in q or any(c in q for c in "<>=") else "no", tag),
                      sample={"query": q, "verdict": tag})
            vals_ = G.expected_values(expected)
            feats = [f for f, on in (("string-values", any(isinstance(v, str) for v in vals_)),
                                     ("nested-structure", any(e[0] == "st" and any(isinstance(l, tuple) for l in e[2]) for e in expected)),
                                     ("string-selection", '"' in q),
                                     ("strings-held-as-bytes", any(isinstance(v, str) for v in vals_) and "S)" in sx),
                                     ("last-index-beyond-extent", any(int(x) >= 8 for x in __import__("re").findall(r":(\d+)\]", q)))) if on]
            ctx.tags["feat=" + ("+".join(feats) or "none")] += 1
            leaves = G.decl_leaves(G.expected_decl(expected))
            for li, (_id, ty_, shp_) in enumerate(leaves):
                if ty_ == "Byte":
                    n_ = int(np.prod(shp_)) if shp_ else None
                    ctx.tags["byte=%s|%s" % ("scalar-or-column" if n_ is None else "array count%%4=%d%s" % (n_ % 4, " (empty)" if n_ == 0 else ""),
                                             "followed" if li + 1 < len(leaves) else "last")] += 1
            for ext in ("dds", "dods", "ascii", "das"):
                cases.append(("h-handle %s %s %s" % (sx, G.hx("/d." + ext), G.hx(q)), c15.canon_impl(bodies[ext]),
                              {"dataset": sx, "query": q, "ext": ext}))
            r_ = bodies["dods"]
            clen_cases.append(("h-clen %s %s %s" % (sx, G.hx("/d.dods"), G.hx(q)),
                               "n/a" if r_["exc"] or r_["status"] != 200 else (r_["clen"] or "none"),
                               {"dataset": sx, "query": q, "ext": "dods"}))
            ctx.tags["content-length=%s" % ("announced" if r_.get("clen") else "absent")] += 1
            # DAS independence, on the dataset that has attributes; also for a query that does not parse
            for qq in (q, rng.choice(["a[x]", "zz", "a[1:2:3:4]", "dap4.ce=a", "s&s.i>>1", "foo(", q + "]"])):
                d = G.run_request(app_attr, "/d.das", qq)
                if d["exc"] or d["status"] != 200 or d["body"] != das_plain["body"]:
                    ctx.oracle_fail("the DAS depends on the query", {"dataset": sx, "query": qq, "ext": "das"},
                                    d["exc"] or d["status"] if d["body"] is None else d["body"][:200].decode("ascii", "replace"),
                                    (das_plain["body"] or b"")[:200].decode("ascii", "replace"), size=len(qq))
                ctx.count(("das", sx, qq), True, tag="das-independence")
    ctx.correspond("the four bodies of BaseHandler for one query", cases)
    ctx.correspond("Content-Length of the data response (calculate_size) vs contentLength", clen_cases)
    # how often the generated cases lie in the domain of C06_payload_decodes(_source): typed values, no empty container
    for out in common.run_driver([c[0].replace("h-clen", "h-xdrwf", 1) for c in clen_cases]):
        ctx.tags["constrained dataset in C05's domain (Xdr.WF)=%s" % out] += 1


def run(ctx):
    ctx.rule = ("per generated dataset (arrays of rank 0..3, structures of arrays and of one nested structure of arrays, grids "
                "of rank 1..3, flat sequences; Int16/UInt16/Int32/UInt32/Float32/Float64 integer-valued and String: scalars, "
                "arrays, columns) 8 valid CEs: whole variables, hyperslabs [i] [a:b] [a:k:b] on arrays, grids, structure / "
                "nested-structure / grid members - also with fewer indices than axes and a last index beyond the extent -, "
                "shorthand member names, whole nested structures, sequence column projections, ranges and 1..2 selections "
                "(numbers, double-quoted strings, columns); a ninth CE naming one array / grid / member two or three times with "
                "hyperslabs of any stride; non-trivial = non-empty query; distinct by (dataset, query)")
    ctx.assumptions = ["'%.6g' is the opaque value formatter shared by pydap's encode() and the oracle; the model prints "
                       "integers (|v| < 10^6 prints identically); strings are ASCII without quote / comma / newline, held as numpy dtype U",
                       "XDR framing of the data response is read by the harness's own decoder (C01/C05 own the codec)",
                       "DAS attribute printing is outside the model (C08); independence of the query is judged on real bodies"]
    ctx.proof_phase()
    explore(ctx, ctx.tier)
    return ctx.finish(search=lambda c: explore(c, "thorough", search=True))


def replay(payload):
    BaseHandler = load()
    f = payload.get("failure")
    if not f:
        print("nothing to replay: %s" % payload.get("no_longer_checks"))
        return False
    c = f["case"]
    spec = c15.spec_from_sexp(c["dataset"])
    q = c["query"]
    if c.get("ext") == "das":
        app = BaseHandler(attributed(spec))
        a, b = G.run_request(app, "/d.das", q), G.run_request(app, "/d.das", "")
        ok = not a["exc"] and a["body"] == b["body"]
        print("das?%s %s das without query" % (q, "==" if ok else "!="))
        return ok
    app = BaseHandler(G.build(spec))
    pr = c.get("process")
    if pr:
        # the two datasets the process held, and what it had served before this request
        G.fresh_pydap()
        BaseHandler = load()
        apps = [BaseHandler(G.build(c15.spec_from_sexp(sx_), lazy=lz)) for sx_, lz in zip(pr["datasets"], pr["lazy"])]
        for side, q_ in pr["served"]:
            for ext in ("dds", "dods", "ascii", "das"):
                G.run_request(apps[side], "/d." + ext, q_)
        app = apps[pr["side"]]
        print("replayed %d earlier request groups on the two datasets of the process" % len(pr["served"]))
    bodies = {ext: G.run_request(app, "/d." + ext, q) for ext in ("dds", "dods", "ascii")}
    for ext, r in bodies.items():
        print(".%s?%s -> exc=%s status=%s body_exc=%s" % (ext, q, r["exc"], r["status"], r["body_exc"]))
    if any(r["exc"] or r["status"] != 200 or r["body_exc"] for r in bodies.values()):
        return False
    # re-judge with the declarations only (the numpy expectation is not stored in the replay): the three must agree,
    # decode, and the ASCII must list every value
    try:
        _, d1, _ = G.parse_dds(bodies["dds"]["body"].decode("ascii"))
        head, _, payload_ = bodies["dods"]["body"].partition(b"Data:\n")
        _, d2, _ = G.parse_dds(head.decode("ascii"))
        _, d3, arest = G.parse_dds(bodies["ascii"]["body"].decode("ascii"))
        vals = G.decode_dods_values(d2, payload_)
        cells = G.parse_ascii_data(d3, arest[46:])
        ok = d1 == d2 == d3 and [c_[2] for c_ in cells] == [G.printed(v) for v in vals]
        if ok and c.get("want"):
            import json as _json
            ok = _json.loads(_json.dumps(d1)) == c["want"]["decl"] and \
                [v if isinstance(v, str) else float(v) for v in vals] == [v if isinstance(v, str) else float(v) for v in c["want"]["values"]]
            print("declaration and values equal to the recorded numpy expectation: %s" % ok)
    except Exception as e:
        print("  fails:", e)
        return False
    exp = f.get("expected")
    print("declarations agree and ASCII lists all values: %s (recorded expectation: %s)" % (ok, str(exp)[:120]))
    return ok
