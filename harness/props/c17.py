"""C17 — lazy row streams: normal form, purity, re-iterability.  Proof: lean/Props/C17.lean.
Tie: programs of stream operations on IterData (lists) and CSVData (files): the listing and the recorded
pipeline of every intermediate stream vs the Lean model.  Oracle: plain-Python by-name reference
(filter source rows, select by name in order, slice in order); every intermediate stream is listed again
after all later steps and twice in a row."""
import copy
import ast
import csv
import zlib
import hashlib
import itertools
import os
import shutil
import tempfile

import seqnest
import seqtab
from seqtab import OPS, hexs, item_text

LEVEL = "proof"
SID = "s"


def load():
    from pydap.handlers.csv import CSVData
    from pydap.handlers.lib import ConstraintExpression, IterData
    from pydap.model import BaseType, SequenceType

    return IterData, CSVData, ConstraintExpression, BaseType, SequenceType


# ---- keys: ("str", name) ("list", [names]) ("int", i) ("sl", a, b, k) ("cond", id1, opsym, id2) -------------
def key_sexp(k):
    S = lambda x: "none" if x is None else str(x)
    if k[0] == "str":
        return "(str %s)" % k[1]
    if k[0] == "list":
        return "(list (%s))" % " ".join(k[1])
    if k[0] == "int":
        return "(int %d)" % k[1]
    if k[0] == "sl":
        return "(sl %s %s %s)" % (S(k[1]), S(k[2]), S(k[3]))
    return "(cond %s %s %s)" % (hexs(k[1]), OPS[k[2]][0], hexs(k[3]))


def key_py(k, CE):
    if k[0] == "str":
        return k[1]
    if k[0] == "list":
        return list(k[1])
    if k[0] == "int":
        return k[1]
    if k[0] == "sl":
        return slice(k[1], k[2], k[3])
    return CE(k[1] + k[2] + k[3])


def make_stream(fns, kind, names, rows, tmpdir):
    IterData, CSVData, CE, BaseType, SequenceType = fns
    seq = SequenceType(SID)
    for n in names:
        seq[n] = BaseType(n)
    if kind == "it":
        return IterData([tuple(r) for r in rows], copy.copy(seq))
    path = os.path.join(tmpdir, "t%s.csv" % hashlib.md5(repr((tuple(names), tuple(rows))).encode()).hexdigest()[:16])
    if not os.path.exists(path):
        with open(path, "w", newline="") as f:
            w = csv.writer(f, quoting=csv.QUOTE_NONNUMERIC)
            w.writerow(names)
            for r in rows:
                w.writerow(r)
    return CSVData(path, copy.copy(seq))


def pipe_text(d):
    t = d.template
    if hasattr(t, "_visible_keys"):
        vis = "seq:" + ",".join(t._visible_keys)
    else:
        vis = "base:" + t.id
    return "%s/%d/%d/%d/%d" % (vis, len(d.ifilter), len(d.imap), len(d.islice), d.level)


def listing(d):
    try:
        items = list(d)
    except Exception as e:
        return "iter:" + type(e).__name__, None
    return "[" + " ".join(item_text(x) for x in items) + "]", items


def run_impl(fns, kind, names, rows, ops, tmpdir):
    """returns (canonical text, [(stream, first listing text, items, pipe)], getitem error or None)"""
    CE = fns[2]
    cur = make_stream(fns, kind, names, rows, tmpdir)
    parts, seen, err, alias = [], [], None, []
    for k in list(ops) + [None]:
        text, items = listing(cur)
        pipe = pipe_text(cur)
        parts.append(text + "@" + pipe)
        seen.append((cur, text, items, pipe))
        if k is None:
            break
        try:
            key = key_py(k, CE)
            if k[0] == "cond" and k[1].count(".") == 1 and not k[3].startswith(SID + ".") and \
                    zlib.crc32(repr((names, ops)).encode()) % 3 == 0:
                # the same clause built with the comparison operators of a column stream that was stepped before
                # (`col = t[c][a:b]; t[col > v]`): the steps of the operand do not enter the clause
                try:
                    lit = ast.literal_eval(k[3])
                    operand = make_stream(fns, kind, names, rows, tmpdir)[k[1].split(".", 1)[1]][0:][::1]
                    import operator as _op
                    # (the operators themselves, as a user writes them: `col != v` is whatever Python makes of it)
                    built = {"<": _op.lt, ">": _op.gt, "<=": _op.le, ">=": _op.ge, "=": _op.eq, "!=": _op.ne}[k[2]](operand, lit)
                    key = built
                except (ValueError, SyntaxError, KeyError):
                    pass        # not a literal / not a column: the text form is used
            prev = cur
            cur = cur[key]
            alias.append(alias_text(prev, cur) + ";operand:" + pipe_text(prev))
        except Exception as e:
            err = type(e).__name__
            parts.append("getitem:" + err)
            alias.append("getitem:" + err)
            break
    run_impl.alias = " | ".join(alias)
    return " | ".join(parts), seen, err


def alias_text(a, b):
    """which fields of the stream returned by a step are the very objects its operand holds (object-level model
    PydapModel/IterHeap.lean, theorem audit round 7): the source and `root` are shared, the three lists and the
    template are new objects"""
    def m(x, y):
        return "shared" if x is y else "new"
    src = m(a.stream, b.stream) if not hasattr(a, "filepath") else ("shared" if a.filepath == b.filepath else "new")
    return "stream:%s,template:%s,ifilter:%s,imap:%s,islice:%s,root:%s" % (
        src, m(a.template, b.template), m(a.ifilter, b.ifilter), m(a.imap, b.imap), m(a.islice, b.islice),
        m(a.root, b.root))


# ---- by-name reference ------------------------------------------------------------------------------------
def reference(names, rows, ops, resolved):
    """list of expected item lists, one per prefix of ops, or None from the first prefix on that the by-name
    reading rejects (selection of a name that is not selected, a clause that is not `s.col OP s.col|literal`,
    negative slice bounds); a clause is accepted on every layout (also after a child selection)"""
    out = []
    layout, conds, slices = ("table", list(names)), [], []

    def evaluate():
        keep = seqtab.ref_filter(names, rows, conds)
        if layout[0] == "table":
            items = [tuple(r[names.index(n)] for n in layout[1]) for r in keep]
        else:
            items = [r[names.index(layout[1])] for r in keep]
        for (a, b, k) in slices:
            items = items[slice(a, b, k)]
        return items

    out.append(evaluate())
    for k, rc in zip(ops, resolved):
        if k[0] == "str":
            if layout[0] != "table" or k[1] not in layout[1]:
                return out
            layout = ("column", k[1])
        elif k[0] == "list":
            if layout[0] != "table" or any(n not in layout[1] for n in k[1]):
                return out
            layout = ("table", list(k[1]))
        elif k[0] == "int":
            if k[1] < 0:
                return out
            slices.append((k[1], k[1] + 1, None))
        elif k[0] == "sl":
            if any(x is not None and x < 0 for x in k[1:3]) or (k[3] is not None and k[3] < 1):
                return out
            slices.append(k[1:])
        else:
            if rc is None:
                return out
            conds.append(rc)
        out.append(evaluate())
    return out


def same_items(got, exp):
    if got is None or len(got) != len(exp):
        return False
    for g, e in zip(got, exp):
        if isinstance(e, tuple):
            if not isinstance(g, (tuple, list)) or len(g) != len(e) or any(a != b or isinstance(a, str) != isinstance(b, str)
                                                                            for a, b in zip(g, e)):
                return False
        elif isinstance(g, (tuple, list)) or g != e or isinstance(g, str) != isinstance(e, str):
            return False
    return True


def check_program(ctx, fns, kind, names, rows, ops, resolved, cases, tmpdir, where):
    line = "iter-run %s %s %s (%s)" % (kind, SID, seqtab.table_sexp(names, rows), " ".join(key_sexp(k) for k in ops))
    text, seen, err = run_impl(fns, kind, names, rows, ops, tmpdir)
    case = {"backend": kind, "names": names, "rows": [list(r) for r in rows], "ops": [list(k) for k in ops],
            "resolved": resolved}
    cases.append((line, text, case))
    if ops:
        cases.append(("iterheap-run" + line[len("iter-run"):], run_impl.alias, dict(case, what="aliasing")))
    exp = reference(names, rows, ops, resolved)
    size = len(ops) * 100 + len(rows) * 10 + len(names)
    for n, (stream, first, items, pipe) in enumerate(seen):
        if n < len(exp):
            if not same_items(items, exp[n]):
                ctx.oracle_fail("stream after %d step(s) does not list the reference rows" % n, dict(case, step=n),
                                first, repr(exp[n]), size=size + n)
        # purity and re-iterability: list again after all later steps, twice
        for again in (1, 2):
            t2, _ = listing(stream)
            if t2 != first or pipe_text(stream) != pipe:
                ctx.oracle_fail("stream %d changed after later steps / second iteration" % n, dict(case, step=n),
                                t2 + "@" + pipe_text(stream), first + "@" + pipe, size=size + n)
                break
        # two passes over the same stream object alive at once: a pass paused after two records, a complete pass in
        # between, then the rest of the paused pass; and the two passes of zip(s, s)
        if items is not None and not first.startswith("iter:"):
            try:
                it = iter(stream)
                head = list(itertools.islice(it, 2))
                whole = list(stream)
                inter = "[" + " ".join(item_text(x) for x in head + list(it)) + "]"
                pairs = list(zip(stream, stream))
                zipped = "[" + " ".join(item_text(a) for a, b in pairs) + "]"
                zipped2 = "[" + " ".join(item_text(b) for a, b in pairs) + "]"
                if not (inter == first and zipped == first and zipped2 == first and len(whole) == len(items)):
                    ctx.oracle_fail("two interleaved passes over stream %d do not each list its rows" % n, dict(case, step=n),
                                    {"paused+resumed": inter, "zip-left": zipped, "zip-right": zipped2}, first, size=size + n)
            except Exception as e:
                ctx.oracle_fail("interleaved passes over stream %d raised %s" % (n, type(e).__name__), dict(case, step=n),
                                repr(e)[:200], first, size=size + n)
    if len(exp) == len(ops) + 1 and err is not None:
        ctx.oracle_fail("a step of a valid program raised " + err, case, text, "no exception", size=size)
    valid = len(exp) == len(ops) + 1
    kinds = "".join(k[0][0] for k in ops)
    ctx.count((kind, tuple(names), tuple(rows), tuple(map(repr, ops))), len(ops) >= 2 and valid,
              tag="%s:%s:len%d:%s" % (where, kind, len(ops), "valid" if valid else "rejected"),
              sample=dict(case, impl=text[:200]))
    if "l" in kinds and "s" in kinds[kinds.index("l"):]:
        ctx.tags["has:list-then-child"] += 1
    if valid and "s" in kinds and "c" in kinds[kinds.index("s"):]:
        ctx.tags["has:child-then-clause"] += 1
    return valid


# ---- generators -------------------------------------------------------------------------------------------
def gen_program(rng, names, kinds, maxlen=6):
    n = rng.randint(0, maxlen)
    ops, resolved = [], []
    layout = ("table", list(names))
    for _ in range(n):
        r = rng.random()
        wild = rng.random() < 0.12
        if layout[0] == "column" and not wild and r >= 0.25:
            r = 0.7 + (r - 0.25) / 0.75 * 0.3      # only clauses and slices apply to a column
        if r < 0.25:
            id1, o, id2, rc = seqtab.gen_clause(rng, SID, names, kinds, junk=0.08)
            ops.append(("cond", id1, o, id2))
            resolved.append(rc)
            continue
        resolved.append(None)
        vis = layout[1] if layout[0] == "table" else names
        if r < 0.5:
            src = names if wild else vis
            m = rng.randint(1, len(src))
            ks = rng.sample(src, m)
            if wild and rng.random() < 0.3:
                ks.append("nope")
            ops.append(("list", ks))
            if layout[0] == "table" and all(k in layout[1] for k in ks):
                layout = ("table", ks)
        elif r < 0.7:
            k = rng.choice(names if wild else vis)
            ops.append(("str", k))
            if layout[0] == "table" and k in layout[1]:
                layout = ("column", k)
        elif r < 0.8:
            ops.append(("int", rng.choice([0, 0, 1, 2, 3, 5, -1] if wild else [0, 0, 1, 2, 3, 5])))
        else:
            a = rng.choice([None, None, 0, 1, 2, 3])
            b = rng.choice([None, None, 0, 1, 2, 4, 6, 9])
            k = rng.choice([None, None, 1, 2, 3])
            if wild and rng.random() < 0.3:
                a = -1
            ops.append(("sl", a, b, k))
    return ops, resolved


SMALL_NAMES, SMALL_KINDS = ["i", "f", "t"], ["i", "f", "t"]
SMALL_ROWS = [(1, 0.5, "ab"), (2, 1.5, "cd"), (3, 2.5, "ab"), (4, -1.0, "")]
SMALL_KEYS = [
    (("cond", "s.i", ">", "1"), ("i", ">", ("const", 1))),
    (("cond", "s.t", "=", '"ab"'), ("t", "=", ("const", "ab"))),
    (("cond", "s.f", "<=", "s.i"), ("f", "<=", ("name", "i"))),
    (("list", ["f", "i"]), None), (("list", ["i"]), None), (("list", ["t", "i", "f"]), None),
    (("str", "i"), None), (("str", "t"), None), (("str", "f"), None),
    (("int", 1), None), (("sl", 1, 3, None), None), (("sl", None, None, 2), None),
]


NESTED_ROWS = [(1, [(10, "a"), (11, "b")], "p"), (2, [], "q"), (3, [(30, "c")], "r")]


def nested_programs():
    """(program on D over (i, n{x,y}, t), expected listing) — one nested level, oracle only (outside the Lean model)"""
    R = NESTED_ROWS
    inner = lambda f=None: [[ir for ir in r[1] if f is None or f(ir)] for r in R]
    yield [("str", "n")], inner()
    yield [("str", "n"), ("str", "x")], [[ir[0] for ir in rr] for rr in inner()]
    yield [("str", "n"), ("list", ["y", "x"])], [[(ir[1], ir[0]) for ir in rr] for rr in inner()]
    yield [("list", ["t", "n"]), ("str", "n"), ("str", "y")], [[ir[1] for ir in rr] for rr in inner()]
    yield [("cond", "s.i", ">", "1"), ("str", "n"), ("sl", 1, None, None)], inner()[1:][1:]
    yield [("list", ["t", "n"]), ("sl", None, 2, None)], [(r[2], r[1]) for r in R][:2]
    yield [("cond", "s.n.x", ">", "10")], [(r[0], [ir for ir in r[1] if ir[0] > 10], r[2]) for r in R]
    yield [("cond", "s.n.x", ">", "10"), ("str", "n"), ("str", "y")], [[ir[1] for ir in r[1] if ir[0] > 10] for r in R]
    yield [("list", ["n", "i"]), ("cond", "s.n.y", "!=", '"a"'), ("str", "n")], [[ir for ir in r[1] if ir[1] != "a"] for r in R]
    # clauses after a child selection (fixed c409c34: resolved against the source rows)
    yield [("str", "n"), ("cond", "s.n.x", ">", "10")], [[ir for ir in r[1] if ir[0] > 10] for r in R]
    yield [("str", "n"), ("list", ["y"]), ("cond", "s.n.x", ">", "10")], [[(ir[1],) for ir in r[1] if ir[0] > 10] for r in R]
    yield [("str", "n"), ("str", "y"), ("cond", "s.n.x", ">", "10")], [[ir[1] for ir in r[1] if ir[0] > 10] for r in R]
    yield [("str", "n"), ("cond", "s.i", ">", "1")], [r[1] for r in R if r[0] > 1]
    yield [("str", "t"), ("cond", "s.i", "<", "3"), ("cond", "s.n.x", ">", "10")], [r[2] for r in R if r[0] < 3]
    yield [("list", ["t", "i"]), ("cond", "s.n.y", "!=", '"a"')], [(r[2], r[0]) for r in R]
    yield [("list", ["n", "n"]), ("cond", "s.n.y", "!=", '"a"')], [([ir for ir in r[1] if ir[1] != "a"],) * 2 for r in R]


def check_nested(ctx, fns):
    IterData, CSVData, CE, BaseType, SequenceType = fns

    def conv(x):
        if isinstance(x, IterData):
            return [conv(r) for r in x]
        if isinstance(x, tuple):
            return tuple(conv(v) for v in x)
        if isinstance(x, list):
            return [conv(v) for v in x]
        return x

    for ops, exp in nested_programs():
        s = SequenceType(SID)
        s["i"] = BaseType("i")
        n = s["n"] = SequenceType("n")
        n["x"] = BaseType("x")
        n["y"] = BaseType("y")
        s["t"] = BaseType("t")
        cur = IterData(list(NESTED_ROWS), copy.copy(s))
        case = {"nested": True, "ops": [list(k) for k in ops]}
        try:
            for k in ops:
                cur = cur[key_py(k, CE)]
            got = [conv(r) for r in cur]
            again = [conv(r) for r in cur]
        except Exception as e:
            got = again = "raised " + type(e).__name__
        if got != exp or again != got:
            ctx.oracle_fail("nested table: stream does not list the reference rows", case, repr(got), repr(exp),
                            size=50 + len(ops))
        ctx.count(("nested", repr(ops)), True, tag="nested:len%d" % len(ops), sample=case)


# ---- one nested level: random programs, model tie and by-name oracle ------------------------------------------
def make_nested(fns, hdr, rows):
    IterData, CSVData, CE, BaseType, SequenceType = fns
    s = SequenceType(SID)
    for n, k in hdr:
        if isinstance(k, list):
            c = s[n] = SequenceType(n)
            for x, _ in k:
                c[x] = BaseType(x)
        else:
            s[n] = BaseType(n)
    return IterData([tuple(r) for r in rows], copy.copy(s))


def nested_listing(fns, d):
    IterData = fns[0]

    def conv(x):
        if isinstance(x, IterData):
            return [conv(r) for r in x]
        if isinstance(x, tuple):
            return tuple(conv(v) for v in x)
        if isinstance(x, list):
            return [conv(v) for v in x]
        return x
    try:
        items = [conv(r) for r in d]
        return "[" + " ".join(seqnest.item_text(x) for x in items) + "]"
    except Exception as e:
        return "iter:" + type(e).__name__


def run_nested(fns, hdr, rows, ops):
    CE = fns[2]
    cur = make_nested(fns, hdr, rows)
    parts, seen, err = [], [], None
    for k in list(ops) + [None]:
        text = nested_listing(fns, cur)
        pipe = pipe_text(cur)
        parts.append(text + "@" + pipe)
        seen.append((cur, text, pipe))
        if k is None:
            break
        try:
            cur = cur[key_py(k, CE)]
        except Exception as e:
            err = type(e).__name__
            parts.append("getitem:" + err)
            break
    return " | ".join(parts), seen, err


def check_nested_program(ctx, fns, hdr, rows, ops, resolved, cases, where):
    line = "nest-run %s %s %s (%s)" % (SID, seqnest.hdr_sexp(hdr), seqnest.rows_sexp(rows), " ".join(key_sexp(k) for k in ops))
    text, seen, err = run_nested(fns, hdr, rows, ops)
    exp, inner_cond = seqnest.reference(hdr, rows, ops, resolved)
    case = {"nested": "program", "hdr": [[n, k if isinstance(k, str) else [list(x) for x in k]] for n, k in hdr],
            "rows": [[v if not isinstance(v, list) else [list(ir) for ir in v] for v in r] for r in rows],
            "ops": [list(k) for k in ops], "resolved": [list(r) if r else None for r in resolved],
            "clause_after_child": inner_cond is not None}
    cases.append((line, text, case))
    size = len(ops) * 100 + len(rows) * 10 + len(hdr)
    for n, (stream, first, pipe) in enumerate(seen):
        if n < len(exp):
            want = "[" + " ".join(seqnest.item_text(x) for x in exp[n]) + "]"
            if first != want:
                ctx.oracle_fail("nested table: stream after %d step(s) does not list the reference rows" % n,
                                dict(case, step=n), first, want, size=size + n)
        for again in (1, 2):
            t2 = nested_listing(fns, stream)
            if t2 != first or pipe_text(stream) != pipe:
                ctx.oracle_fail("nested table: stream %d changed after later steps / second iteration" % n,
                                dict(case, step=n), t2 + "@" + pipe_text(stream), first + "@" + pipe, size=size + n)
                break
    valid = len(exp) == len(ops) + 1
    if valid and err is not None:
        ctx.oracle_fail("nested table: a step of a valid program raised " + err, case, text, "no exception", size=size)
    ctx.count(("nested", seqnest.hdr_sexp(hdr), seqnest.rows_sexp(rows), tuple(map(repr, ops))), len(ops) >= 2 and valid,
              tag="%s:nested:len%d:%s%s" % (where, len(ops), "valid" if valid else "rejected",
                                          ":clause-after-child" if inner_cond is not None else ""),
              sample=dict(case, impl=text[:200]))


def explore_nested(ctx, fns, tier, search=False):
    cases = []
    rng = ctx.rng("nested-programs")
    n = 1500 if tier == "quick" else 20000
    if search:
        n = 10000
    for _ in range(n):
        hdr, rows = seqnest.gen_table(rng)
        ops, res = seqnest.gen_program(rng, SID, hdr)
        check_nested_program(ctx, fns, hdr, rows, ops, res, cases, "random")
    ctx.correspond("IterData programs on tables with one nested level (random, <= 6 steps)", cases)


def explore(ctx, fns, tier, search=False):
    tmpdir = tempfile.mkdtemp(prefix="c17-")
    try:
        check_nested(ctx, fns)
        explore_nested(ctx, fns, tier, search)
        cases = []
        # (a) exhaustive: every chain of length <= 3 over the key alphabet, 4x3 table, both constructors
        for kind in ("it", "csv"):
            for n in range(0, 4):
                for combo in itertools.product(SMALL_KEYS, repeat=n):
                    ops = [c[0] for c in combo]
                    res = [c[1] for c in combo]
                    check_program(ctx, fns, kind, SMALL_NAMES, SMALL_ROWS, ops, res, cases, tmpdir, "scope")
        ctx.correspond("IterData/CSVData programs (chains <= 3, exhaustive)", cases)
        ctx.exhaustive = True
        # (b) random programs <= 6 steps on random tables
        cases = []
        rng = ctx.rng("programs")
        n = 2000 if tier == "quick" else 25000
        if search:
            n = 20000
        for _ in range(n):
            names, kinds, rows = seqtab.gen_table(rng)
            ops, res = gen_program(rng, names, kinds)
            check_program(ctx, fns, rng.choice(["it", "csv"]), names, rows, ops, res, cases, tmpdir, "random")
        ctx.correspond("IterData/CSVData programs (random, <= 6 steps)", cases)
        # (c) literals: the driver's literal parser vs ast.literal_eval on the generated literal texts
        import ast
        cases = []
        for pool in seqtab.POOL.values():
            for v in pool:
                t = seqtab.lit_text(v)
                cases.append(("iter-lit %s" % hexs(t), seqtab.val_text(ast.literal_eval(t)), {"literal": t}))
        ctx.correspond("literal texts (ast.literal_eval)", cases)
    finally:
        shutil.rmtree(tmpdir, ignore_errors=True)


def run(ctx):
    ctx.rule = ("every chain of length <= 3 over a 12-key alphabet (3 clauses, 3 column lists, 3 child selections, int, "
                "2 slices) on a 4x3 table for IterData and CSVData (exhaustive), plus seeded random programs of 0..6 "
                "steps on tables of 0..8 rows x 1..5 typed columns, ~12% of steps deliberately ill-formed, clauses also "
                "after child selections; seeded random programs on tables with one nested sequence level (clauses on outer "
                "and on nested columns in every position, also after the child selection into the nested sequence); every "
                "intermediate stream is listed when created, and twice again after all later steps; a case is "
                "non-trivial when the program has >= 2 steps and is accepted by the by-name reference; distinct by "
                "(constructor, table, program)")
    ctx.assumptions = ["Python list/itertools.islice/csv.reader semantics; cell comparison and ast.literal_eval are "
                       "parameters shared by model and reference (driver instances compared on every generated literal)",
                       "C17 theorems cover flat tables and one nested sequence level; Python object aliasing (copied lists, "
                       "copied template) are exercised by the harness only (see design_notes/C17.md)"]
    ctx.proof_phase()
    fns = load()
    explore(ctx, fns, ctx.tier)
    return ctx.finish(search=lambda c: explore(c, fns, "thorough", search=True))


def replay(payload):
    fns = load()
    f = payload.get("failure")
    if not f:
        print("nothing to replay: %s" % payload.get("no_longer_checks"))
        return False
    c = f["case"]
    if c.get("nested") == "program":
        class RecP:
            fail = 0

            def oracle_fail(self, what, case, observed, expected, cls=None, size=None):
                if cls is None:
                    print(what, "observed", observed, "expected", expected)
                    self.fail += 1

            def count(self, *a, **k):
                pass
        rec = RecP()
        hdr = [(n, k if isinstance(k, str) else [tuple(x) for x in k]) for n, k in c["hdr"]]
        rows = [tuple(v if not isinstance(v, list) else [tuple(ir) for ir in v] for v in r) for r in c["rows"]]
        res = [None if r is None else tuple(tuple(x) if isinstance(x, list) else x for x in r) for r in c["resolved"]]
        check_nested_program(rec, fns, hdr, rows, [tuple(k) for k in c["ops"]], res, [], "replay")
        return rec.fail == 0
    if c.get("nested"):
        class Rec:
            fail = 0

            def oracle_fail(self, what, case, observed, expected, cls=None, size=None):
                if case["ops"] == c["ops"]:
                    print(what, "observed", observed, "expected", expected)
                    self.fail += 1

            def count(self, *a, **k):
                pass
        rec = Rec()
        check_nested(rec, fns)
        return rec.fail == 0
    ops = [tuple(k) for k in c["ops"]]
    rows = [tuple(r) for r in c["rows"]]
    res = [tuple(r[:2]) + (tuple(r[2]),) if r else None for r in c["resolved"]]
    tmpdir = tempfile.mkdtemp(prefix="c17r-")
    try:
        text, seen, err = run_impl(fns, c["backend"], c["names"], rows, ops, tmpdir)
        exp = reference(c["names"], rows, ops, res)
        ok = True
        for n, (stream, first, items, pipe) in enumerate(seen):
            if n < len(exp) and not same_items(items, exp[n]):
                print("step", n, "observed", first, "expected", exp[n])
                ok = False
            for _ in (1, 2):
                t2, _x = listing(stream)
                if t2 != first or pipe_text(stream) != pipe:
                    print("step", n, "stream changed:", t2, pipe_text(stream), "was", first, pipe)
                    ok = False
        if len(exp) == len(ops) + 1 and err is not None:
            print("valid program raised", err)
            ok = False
        return ok
    finally:
        shutil.rmtree(tmpdir, ignore_errors=True)
