"""C05 / C01 — the source representation (theorems C05_representation_*, C05_rep_*, C01_representation_*).
Cases are (value, representation) pairs: the harness builds the numpy array / Python object in that
representation, serves it, and hands the REAL memory of what the BaseType holds to the Lean model (`xdr-src-enc`,
`xdr-src-data`).  Oracle: the bytes served equal the independent reference encoding of the value (hence are equal
across representations), the DDS declares the value's DAP2 type, and (C01) the client reads the value back.
Records of lazy sequences: every cell in one of its forms (numpy scalar / 0-d array of any dtype char of the type,
Python int/float/bool, str, numpy.str_, numpy.bytes_, Python bytes)."""
import json
import struct

import numpy as np

import common  # noqa: F401
import xdrlib as X
import xdrrep as R
from common import hexb


SNAN = {"Float32": [0x7F800001, 0xFF9F5EB6, 0x7FBFFFFF], "Float64": [0x7FF0000000000001, 0xFFF4000000000123]}


def gen_value(rng, ty):
    """xdrlib's value generator plus signalling NaNs (quiet bit clear): a conversion through a Python float or
    another width sets the quiet bit"""
    if ty in SNAN and rng.random() < 0.12:
        return rng.choice(SNAN[ty])
    return X.gen_value(rng, ty)


def pack(x):
    if isinstance(x, bytes):
        return "x" + x.hex()
    if isinstance(x, (list, tuple)):
        return [pack(v) for v in x]
    return x


def unpack_vals(ty, x):
    return [bytes.fromhex(v[1:]) for v in x] if ty == "String" else list(x)


# ---------------------------------------------------------------------------------------------------
# a representation as a replayable record
def obj_record(obj):
    if isinstance(obj, np.ndarray):
        lo, hi = R.byte_bounds(obj)
        import ctypes
        ptr = obj.__array_interface__["data"][0]
        return {"kind": "ndarray", "dtype": obj.dtype.str if not obj.dtype.names else [list(x) for x in obj.dtype.descr],
                "shape": list(obj.shape), "strides": list(obj.strides),
                "offset": ptr - lo, "buf": (ctypes.string_at(lo, hi - lo) if hi > lo else b"").hex()}
    if isinstance(obj, np.generic):
        return {"kind": "npscalar", "dtype": obj.dtype.str, "buf": np.array(obj).tobytes().hex()}
    if isinstance(obj, bool):
        return {"kind": "bool", "value": obj}
    if isinstance(obj, int):
        return {"kind": "int", "value": obj}
    if isinstance(obj, float):
        return {"kind": "float", "buf": struct.pack("<d", obj).hex()}
    if isinstance(obj, str):
        return {"kind": "str", "value": obj}
    if isinstance(obj, bytes):
        return {"kind": "bytes", "buf": obj.hex()}
    raise TypeError(type(obj))


def obj_rebuild(r):
    k = r["kind"]
    if k == "ndarray":
        buf = bytearray(bytes.fromhex(r["buf"]))
        dt = np.dtype(r["dtype"]) if isinstance(r["dtype"], str) else np.dtype([tuple(x) for x in r["dtype"]])
        if not buf:
            return np.zeros(r["shape"], dtype=dt)
        return np.ndarray(tuple(r["shape"]), dtype=dt, buffer=buf, offset=r["offset"],
                          strides=tuple(r["strides"]))
    if k == "npscalar":
        return np.frombuffer(bytes.fromhex(r["buf"]), r["dtype"])[0]
    if k == "float":
        return struct.unpack("<d", bytes.fromhex(r["buf"]))[0]
    if k == "bytes":
        return bytes.fromhex(r["buf"])
    return r["value"]


# ---------------------------------------------------------------------------------------------------
def judge_obj(ty, shape, vals, obj, client=False):
    """direct oracle for one (value, representation).  returns (fails, held array, xdr or None)"""
    t = ("b", ty, tuple(shape), "v", False)
    d = vals if shape else vals[0]
    ref = X.ref_enc(t, d)
    fails = []
    try:
        held, status, dds, xdr = R.serve_obj(obj)
    except Exception as e:
        return [("GET .dods raised %s for a value held in this representation" % type(e).__name__, repr(e)[:200],
                 ref.hex())], None, None
    if xdr is None:
        fails.append(("no data response for a value held in this representation", dds[:160].decode("latin1"), ref.hex()))
        return fails, held, None
    if xdr != ref:
        fails.append(("bytes differ from the reference encoding of the value held", xdr.hex(), ref.hex()))
    want = "    %s v" % ty
    if want + ";" not in dds.decode("latin1") and want + "[" not in dds.decode("latin1"):
        fails.append(("the DDS declares another type than the value's", dds.decode("latin1"), ty))
    if client and not fails:
        try:
            got = R.client_read(obj)
            probs = []
            c = X.canon(t, got, probs)
            if c != d:
                fails.append(("the client reads other values than the source holds", pack(c), pack(d)))
            elif probs:
                fails.append(("the client reports another type or shape", probs[:3], "%s %s" % (ty, list(shape))))
        except Exception as e:
            fails.append(("the client raised %s" % type(e).__name__, repr(e)[:200], pack(d)))
    return fails, held, xdr


def check_value(ctx, rng, ty, shape, vals, cases, client=False, budget=6):
    seen = {}
    for label, obj in R.representations(rng, ty, shape, vals, budget):
        fails, held, xdr = judge_obj(ty, shape, vals, obj, client)
        case = {"rep": label, "ty": ty, "shape": list(shape), "vals": pack(vals), "obj": obj_record(obj),
                "client": client}
        size = len(json.dumps(case))
        for what, obs, exp in fails:
            ctx.oracle_fail(what, case, obs, exp, size=size)
        if xdr is not None:
            seen.setdefault(xdr, (label, case["obj"]))
        ctx.tags["rep:" + label.split("/")[1]] += 1
        ctx.tags["rep-dtype:" + label.split("/")[0]] += 1
        ctx.count(("rep", ty, tuple(shape), label, repr(vals)[:200]), True)
        if held is not None and isinstance(held, np.ndarray):
            a = R.arr_sexp(held)
            meta = {"rep": label, "ty": ty, "shape": list(shape), "vals": pack(vals), "obj": case["obj"]}
            cases.append(("xdr-src-enc " + a, "(ok %s)" % hexb(xdr) if xdr is not None else "(err)", meta))
            cases.append(("xdr-src-data " + a, R.data_line(ty, shape, vals), meta))
            if ty != "String" and label.split("/")[1] in ("C", "0d") and held.size and held.flags.c_contiguous:
                # machinery check of `storeC` (used by the non-vacuity examples): the model's memory = numpy's
                cases.append(("xdr-src-store %s %d (%s) (%s)" % (held.dtype.char, held.dtype.byteorder == ">",
                                                                 " ".join(map(str, shape)), " ".join(map(str, vals))),
                              "((%s) %s)" % (" ".join(map(str, held.strides)), hexb(held.tobytes())), meta))
        if shape and all(n > 0 for n in shape) and held is not None and isinstance(held, np.ndarray) and rng.random() < 0.35:
            check_hyperslab(ctx, rng, ty, shape, vals, label, obj, held, cases)
    if len(seen) > 1:
        (x1, (l1, o1)), (x2, (l2, o2)) = list(seen.items())[:2]
        ctx.oracle_fail("two representations of the same value are served as different bytes",
                        {"ty": ty, "shape": list(shape), "vals": pack(vals), "reps": [l1, l2], "objs": [o1, o2]},
                        x1.hex(), x2.hex())


def check_hyperslab(ctx, rng, ty, shape, vals, label, obj, held, cases):
    """an in-range hyperslab of a variable held in this representation: the handler encodes the strided VIEW
    `data[slices]` of the source; oracle = reference encoding of the selected values, model = encArr on the
    memory of that very view"""
    sl = []
    for n in shape:
        a = rng.randint(0, n - 1)
        b = rng.randint(a, n - 1)
        sl.append((a, rng.randint(1, 3), b))
    ce = "v" + "".join("[%d:%d:%d]" % x for x in sl)
    idx = tuple(slice(a, b + 1, k) for a, k, b in sl)
    sub = np.array(vals, dtype=object).reshape(shape)[idx]
    t2 = ("b", ty, tuple(sub.shape), "v", False)
    ref = X.ref_enc(t2, list(sub.reshape(-1)))
    case = {"rep": label, "ty": ty, "shape": list(shape), "vals": pack(vals), "obj": obj_record(obj), "ce": ce,
            "ref": ref.hex()}
    try:
        _, status, dds, xdr = R.serve_obj(obj, ce)
    except Exception as e:
        ctx.oracle_fail("GET .dods?<hyperslab> raised %s for a value held in this representation" % type(e).__name__,
                        case, repr(e)[:200], ref.hex())
        return
    if xdr != ref:
        ctx.oracle_fail("hyperslab of a value held in this representation: bytes differ from the reference encoding "
                        "of the selection", case, xdr.hex() if xdr is not None else dds[:160].decode("latin1"), ref.hex())
    ctx.tags["rep-hyperslab:" + label.split("/")[1]] += 1
    ctx.count(("rep-ce", ty, tuple(shape), label, ce, repr(vals)[:120]), True)
    if xdr is not None and held.dtype.char != "S":
        cases.append(("xdr-src-enc " + R.arr_sexp(held[idx]), "(ok %s)" % hexb(xdr), {"rep": label, "ce": ce, "obj": case["obj"]}))


def check_built(ctx, rng, cases):
    """`Rep.build` (theorem C05_representation_independent_built): the harness lays the same representation out with
    numpy — a buffer of `fill` bytes, a view with offset `pre` and C strides of pitch `step * itemsize` — and compares
    the model's memory with numpy's, then serves the view like every other representation"""
    ty = rng.choice([t for t in X.TYPES if t != "String"])
    rank = rng.choice([1, 1, 2, 3])
    shape = tuple(rng.randint(1, 3) for _ in range(rank))
    t = ("b", ty, shape, "v", False)
    vals = X.gen_data(rng, t)
    c = rng.choice(R.chars_for(ty, vals))
    order = rng.choice("<>") if c not in "Bb?" else "<"
    step, pre, fill = rng.choice([1, 1, 2, 3]), rng.choice([0, 0, 1, 5, 8]), rng.choice([0, 1, 0xEE, 0xFF])
    src = R.logical(ty, shape, vals, c, order)
    w = src.dtype.itemsize
    n = int(np.prod(shape))
    buf = bytearray([fill]) * (pre + n * step * w)
    strides, acc = [], step * w
    for d in reversed(shape):
        strides.insert(0, acc)
        acc *= d
    view = np.ndarray(shape, dtype=src.dtype, buffer=buf, offset=pre, strides=tuple(strides))
    view[...] = src
    label = "%s%s/built" % (order if c not in "Bb?" else "|", c)
    fails, held, xdr = judge_obj(ty, shape, vals, view)
    case = {"rep": label, "ty": ty, "shape": list(shape), "vals": pack(vals), "obj": obj_record(view), "client": False}
    for what, obs, exp in fails:
        ctx.oracle_fail(what, case, obs, exp, size=len(json.dumps(case)))
    ctx.tags["rep:built"] += 1
    ctx.count(("built", ty, shape, c, order, step, pre, fill, repr(vals)[:120]), True)
    meta = {"rep": label, "obj": case["obj"]}
    cases.append(("xdr-src-build %s %d %d %d %d (%s) (%s)" % (c, order == ">", step, pre, fill, " ".join(map(str, shape)),
                                                             " ".join(map(str, vals))),
                  "((%s) %d %s)" % (" ".join(map(str, view.strides)), pre, hexb(bytes(buf))), meta))
    if xdr is not None:
        cases.append(("xdr-src-enc " + R.arr_sexp(view), "(ok %s)" % hexb(xdr), meta))


# ---------------------------------------------------------------------------------------------------
# outside the domain: what the code does there is stated by negative theorems; the model must agree
def check_outside(ctx, cases):
    probes = [("int64 beyond 32 bits", np.array([2 ** 32 + 5, -2 ** 31 - 1, 7], "<i8")),
              ("uint64 beyond 32 bits", np.array([2 ** 32 + 5], ">u8")),
              ("float16", np.array([1.5], "<f2")), ("longdouble", np.array([1.5], "g")),
              ("bytes outside ASCII", np.array([b"\xc3\xa9", b"a"]))]
    for what, arr in probes:
        held, status, dds, xdr = R.serve_obj(arr)
        impl = "(ok %s)" % hexb(xdr) if xdr is not None else "(err keyError)"
        cases.append(("xdr-src-enc " + R.arr_sexp(held), impl, {"outside": what}))
        ctx.tags["outside:" + what] += 1
    # text outside ASCII: the exception escapes while the body is streamed
    arr = np.array(["\xe9"])
    try:
        R.serve_obj(arr)
        impl = "(ok)"
    except UnicodeEncodeError:
        impl = "(err unicode)"
    cases.append(("xdr-src-enc " + R.arr_sexp(arr), impl, {"outside": "text outside ASCII"}))
    for c in "bhilqBHILQ?efdgSU":
        dt = np.dtype(c)
        k = {"i": "i", "u": "u", "b": "u", "f": "f", "S": "S", "U": "U"}[dt.kind]
        cases.append(("xdr-src-dtype " + c, "%s %d" % (k, dt.itemsize), {"dtype": c}))


# ---------------------------------------------------------------------------------------------------
# records of lazy sequences
def seq_of_cells(cols, rows):
    from pydap.handlers.lib import BaseHandler, IterData
    from pydap.model import BaseType, DatasetType, SequenceType

    ds = DatasetType("d")
    s = SequenceType("q")
    for name, _ty in cols:
        s[name] = BaseType(name)
    s.data = IterData([tuple(r) for r in rows], s)
    ds["q"] = s
    return BaseHandler(ds)


def client_rows(app, t):
    """the rows the pydap client iterates over for sequence `q` served by `app` (C01)"""
    from pydap.client import open_url

    c = open_url("http://localhost:8001/d", application=app)
    probs = []
    got = X.canon(t, list(X.materialise_rows(c["q"].iterdata(), t)), probs)
    return got, probs


def client_fails(app, t, vals_rows):
    try:
        got, probs = client_rows(app, t)
    except Exception as e:
        return [("the client raised %s on a sequence" % type(e).__name__, repr(e)[:200], pack(vals_rows))]
    if got != [list(r) for r in vals_rows]:
        return [("the client reads other rows than the source holds", pack(got), pack(vals_rows))]
    if probs:
        return [("the client reports another type for a column", probs[:3], "source types")]
    return []


def judge_cells(cols, vals_rows, obj_rows, client=False):
    """cols: [(name, ty)], vals_rows: model values, obj_rows: the Python objects holding them"""
    t = ("sq", "q", [("b", ty, (), name, False) for name, ty in cols], "iter")
    ref = X.ref_enc(t, vals_rows)
    if client:
        f = client_fails(seq_of_cells(cols, obj_rows), t, vals_rows)
        if f:
            return f, None
    try:
        r = X.get(seq_of_cells(cols, obj_rows), "/d.dods")
        raw = r.body
    except Exception as e:
        return [("GET .dods of a lazy sequence raised %s" % type(e).__name__, repr(e)[:200], ref.hex())], None
    if not raw.startswith(b"Dataset {") or b"Data:\n" not in raw:
        return [("no data response for a lazy sequence", raw[:160].decode("latin1"), ref.hex())], None
    dds, xdr = X.split_body(raw)
    fails = []
    if xdr != ref:
        fails.append(("bytes of a lazy sequence differ from the reference encoding of the values held", xdr.hex(), ref.hex()))
    text = dds.decode("latin1")
    for name, ty in cols:
        if "        %s %s;" % (ty, name) not in text:
            fails.append(("the DDS declares another type than the column's", text, "%s %s" % (ty, name)))
            break
    return fails, xdr


def cell_obj_record(o):
    return obj_record(o)


def check_cells(ctx, rng, cases, client=False):
    types = [rng.choice(X.TYPES) for _ in range(rng.randint(1, 3))]
    cols = [("c%d" % i, ty) for i, ty in enumerate(types)]
    nrows = rng.choice([1, 1, 2, 3])
    vals_rows, obj_rows, cell_rows, labels, big_rows = [], [], [], [], []
    for _ in range(nrows):
        vr, orow, cr, lr, br = [], [], [], [], []
        for name, ty in cols:
            v = gen_value(rng, ty)
            label, obj, cell, big = rng.choice(R.cell_forms(rng, ty, v))
            vr.append(v)
            orow.append(obj)
            cr.append(cell)
            lr.append(label)
            br.append(big)
        vals_rows.append(vr)
        obj_rows.append(orow)
        cell_rows.append(cr)
        labels.append(lr)
        big_rows.append(br)
    fails, xdr = judge_cells(cols, vals_rows, obj_rows, client)
    case = {"cells": {"client": client, "cols": cols, "vals": pack(vals_rows), "objs": [[cell_obj_record(o) for o in r] for r in obj_rows],
                      "labels": labels}}
    for what, obs, exp in fails:
        ctx.oracle_fail(what, case, obs, exp, size=len(json.dumps(case)))
    for lr in labels:
        for lab in lr:
            ctx.tags["cell:" + lab.split(":")[0]] += 1
    flat = "Byte" not in types
    ctx.tags["cells:" + ("flat" if flat else "general")] += 1
    ctx.count(("cells", repr(cols), repr(labels), repr(vals_rows)[:200]), True)
    if xdr is not None and flat and nrows == 1:
        cases.append(("xdr-src-rec (%s) (%s)" % (" ".join(types), " ".join(cell_rows[0])),
                      "(ok %s)" % hexb(xdr[4:-4]), {"cells": case["cells"]}))
    if xdr is not None:
        cases.append(("xdr-src-rows (%s) (%s)" % (" ".join(types), " ".join(
            "(%s)" % " ".join("(%d %s)" % (b, c) for b, c in zip(br, cr)) for br, cr in zip(big_rows, cell_rows))),
            "(ok %s)" % hexb(xdr), {"cells": case["cells"]}))
    if xdr is not None and not flat and nrows == 1:
        cases.append(("xdr-src-recg (%s)" % " ".join("(%d %s)" % (b, c) for b, c in zip(big_rows[0], cell_rows[0])),
                      "(ok %s)" % hexb(xdr[4:-4]), {"cells": case["cells"]}))
    for (name, ty), cell, obj, big, lab in zip(cols, cell_rows[0], obj_rows[0], big_rows[0], labels[0]):
        cases.append(("xdr-src-cellty " + cell, ty, {"cells": case["cells"]}))
        if lab != "np.bytes_":
            # `np.array(value)` (BaseType._set_data; the general path): the model's 0-d array = numpy's
            a = np.array(obj)
            chars = a.dtype.itemsize if a.dtype.char == "S" else a.dtype.itemsize // 4 if a.dtype.char == "U" else 0
            cases.append(("xdr-src-cellarr %d %s" % (big, cell), "(%s %d %s)" % (a.dtype.char, chars, hexb(a.tobytes())),
                          {"cells": case["cells"]}))


# ---------------------------------------------------------------------------------------------------
# numpy-backed sequences: a structured array whose fields have their own dtype char / byte order / width
def build_recarray(rng, cols, vals_rows):
    n = len(vals_rows)
    fields, colarrs = [], []
    for j, (name, ty) in enumerate(cols):
        vals = [r[j] for r in vals_rows]
        c = rng.choice(R.chars_for(ty, vals))
        order = rng.choice("<>") if c not in "Bb?S" else "<"
        a = R.logical(ty, (n,), vals, c, order, width_extra=rng.choice([0, 0, 2]))
        fields.append((name, a.dtype))
        colarrs.append(a)
    layout = rng.choice(["C", "strided", "rev", "offset"])
    m = {"C": n, "strided": 2 * n, "rev": n, "offset": n + 3}[layout]
    big = np.zeros((m,), dtype=fields)
    view = {"C": big, "strided": big[::2], "rev": big[::-1], "offset": big[2:2 + n]}[layout]
    for (name, _), a in zip(cols, colarrs):
        view[name] = a
    return view, layout


def judge_recarray(cols, vals_rows, arr, client=False):
    from pydap.handlers.lib import BaseHandler
    from pydap.model import BaseType, DatasetType, SequenceType

    t = ("sq", "q", [("b", ty, (), name, False) for name, ty in cols], "numpy")
    ref = X.ref_enc(t, vals_rows)
    ds = DatasetType("d")
    s = SequenceType("q")
    for name, _ty in cols:
        s[name] = BaseType(name)
    s.data = arr
    ds["q"] = s
    if client:
        f = client_fails(BaseHandler(ds), t, vals_rows)
        if f:
            return f, None
    try:
        raw = X.get(BaseHandler(ds), "/d.dods").body
    except Exception as e:
        return [("GET .dods of a numpy-backed sequence raised %s" % type(e).__name__, repr(e)[:200], ref.hex())], None
    if not raw.startswith(b"Dataset {") or b"Data:\n" not in raw:
        return [("no data response for a numpy-backed sequence", raw[:160].decode("latin1"), ref.hex())], None
    dds, xdr = X.split_body(raw)
    fails = []
    if xdr != ref:
        fails.append(("bytes of a numpy-backed sequence differ from the reference encoding of the rows held", xdr.hex(), ref.hex()))
    text = dds.decode("latin1")
    for name, ty in cols:
        if "        %s %s;" % (ty, name) not in text:
            fails.append(("the DDS declares another type than the field's", text, "%s %s" % (ty, name)))
            break
    return fails, xdr


def check_recarray(ctx, rng, cases, client=False):
    types = [rng.choice(X.TYPES) for _ in range(rng.randint(1, 3))]
    cols = [("c%d" % i, ty) for i, ty in enumerate(types)]
    n = rng.choice([0, 1, 2, 3])
    vals_rows = [[gen_value(rng, ty) for ty in types] for _ in range(n)]
    arr, layout = build_recarray(rng, cols, vals_rows)
    fails, xdr = judge_recarray(cols, vals_rows, arr, client)
    case = {"recarray": {"client": client, "cols": cols, "vals": pack(vals_rows), "arr": obj_record(arr), "layout": layout,
                         "names": [c[0] for c in cols]}}
    for what, obs, exp in fails:
        ctx.oracle_fail(what, case, obs, exp, size=len(json.dumps(case)))
    ctx.tags["recarray:" + layout] += 1
    for name, _ in cols:
        ctx.tags["recfield:" + arr.dtype[name].str[:2]] += 1
    ctx.count(("recarray", repr(cols), layout, arr.dtype.str, repr(vals_rows)[:200]), True)
    if xdr is not None:
        cases.append(("xdr-src-seq (%s) (%s) %d" % (" ".join(types), " ".join(R.arr_sexp(arr[name]) for name, _ in cols), n),
                      "(ok %s)" % hexb(xdr), {"recarray": case["recarray"]}))


# ---------------------------------------------------------------------------------------------------
FOCUS_SHAPES = [(), (1,), (3,), (2, 3), (3, 2), (2, 1, 2), (0,), (2, 0)]


def explore(ctx, label, n_random, client=False, every_type=True):
    rng = ctx.rng(label)
    cases = []
    if every_type:
        for ty in X.TYPES:
            for shape in FOCUS_SHAPES:
                t = ("b", ty, shape, "v", rng.random() < 0.3 and ty == "Int16")
                d = X.gen_data(rng, t)
                check_value(ctx, rng, ty, shape, d if shape else [d], cases, client, budget=8)
    for _ in range(n_random):
        t = X.gen_base(rng, "v")
        d = X.gen_data(rng, t)
        if t[1] in SNAN:
            d = [gen_value(rng, t[1]) if rng.random() < 0.3 else v for v in d] if t[2] else gen_value(rng, t[1])
        check_value(ctx, rng, t[1], t[2], d if t[2] else [d], cases, client, budget=5)
    for _ in range(n_random):
        check_cells(ctx, rng, cases, client)
    for _ in range(n_random):
        check_recarray(ctx, rng, cases, client)
    for _ in range(n_random // 2):
        check_built(ctx, rng, cases)
    check_outside(ctx, cases)
    ctx.correspond("encArr / NpArr.data? / encCellsFlat vs responses.dods on the real memory of the source", cases)


def replay_case(c):
    """True = property holds on this case"""
    if "cells" in c:
        cc = c["cells"]
        cols = [tuple(x) for x in cc["cols"]]
        vals = [[bytes.fromhex(v[1:]) if isinstance(v, str) else v for v in row] for row in cc["vals"]]
        objs = [[obj_rebuild(o) for o in row] for row in cc["objs"]]
        fails, _ = judge_cells(cols, vals, objs, cc.get("client", False))
    elif "recarray" in c:
        cc = c["recarray"]
        cols = [tuple(x) for x in cc["cols"]]
        vals = [[bytes.fromhex(v[1:]) if isinstance(v, str) else v for v in row] for row in cc["vals"]]
        fails, _ = judge_recarray(cols, vals, obj_rebuild(cc["arr"]), cc.get("client", False))
    elif "obj" in c and "ce" in c:
        _, status, dds, xdr = R.serve_obj(obj_rebuild(c["obj"]), c["ce"])
        fails = [] if xdr is not None and xdr.hex() == c["ref"] else \
            [("hyperslab bytes differ from the reference encoding of the selection", (xdr or dds[:160]).hex(), c["ref"])]
    elif "obj" in c:
        vals = unpack_vals(c["ty"], c["vals"])
        fails, _, _ = judge_obj(c["ty"], tuple(c["shape"]), vals, obj_rebuild(c["obj"]), c.get("client", False))
    else:
        got = [R.serve_obj(obj_rebuild(o))[3] for o in c["objs"]]
        fails = [] if got[0] is not None and got[0] == got[1] else \
            [("two representations of the same value are served as different bytes", (got[0] or b"").hex(), (got[1] or b"").hex())]
    for what, obs, exp in fails:
        print("FAILS:", what, "| observed", str(obs)[:300], "| expected", str(exp)[:300])
    return not fails
