"""C18 — all traffic uses the dataset's session; caching never changes results; cache keys.
Proof: lean/Props/C18.lean (session invariant over the proxy heap model; cache-key relation over the model of
`patch_session_for_shared_dap_cache`).  Tie: (a) the same traced histories as C14, run on plain / CachedSession(memory)
/ CachedSession + consolidated keys sessions: the model's log (session, request) vs the URLs handed to the session;
(b) custom_create_key vs the model on generated URL pairs (props/c18_cachekey.py); (c) real CachedSession histories vs
the caching-session model: hit/miss, returned body, wire (props/c18_cachehist.py); (d) the REAL `consolidate_metadata` on a
real CachedSession against an in-process multi-file DAP4 server: GETs, outcome, keys afterwards and read-history trace vs
the model of lean/PydapModel/Consolidate.lean; reads through the consolidated session vs plain session vs the files' own
values (props/c18_consolidate.py).
Oracle: a transport adapter mounted on the session is the only way to the server, name resolution disabled (a request
through any other session fails in milliseconds and the read raises); every proxy carries the dataset's session;
reads on the cached sessions equal the reads on the plain session; key collisions judged directly."""
import zlib

import common
from props import c18_cachehist, c18_cachekey, c18_consolidate, c18_sessions, c18_transport
from props import clientsim as cs

LEVEL = "proof"
KINDS = ["plain", "cached", "cached+keys"]


def explore(ctx, tier, search=False):
    cases = []
    n = 25 if (tier == "quick" and not search) else 600
    from props.c14 import FIXED
    todo = [("fixed/%d" % i, ops) for i, ops in enumerate(FIXED)] + [("s/%d" % i, None) for i in range(n)]
    for label, ops in todo:
        rng = ctx.rng(label)
        if ops is None:
            ops = cs.gen_history(rng, rng.randint(1, 8))
        reads = {}
        gz = zlib.crc32(label.encode()) % 2 == 1      # every other history: the server compresses its answers
        if gz:
            # (a gzip-enabled handler behind the function middleware answers function calls with 500 — the compressed
            # response no longer offers the parsed dataset; outside this property and C19's quantifier, noted in
            # design_notes/C19.md: function calls stay in the uncompressed histories)
            ops = [op for op in ops if op[0] != "fn"]
        for kind in KINDS:
            case = {"session": kind, "ops": cs.ops_json(ops), "label": label, "gzip": gz}
            sim = cs.Sim(kind, gzip=gz)
            hr = cs.HistoryRun(ctx, sim, ops, case).run()
            reads[kind] = hr.reads
            cases.append((sim.model_line(), sim.impl_output(), case))
            n_get = len(sim.sent) - sim.mark
            ctx.count((kind, repr(ops)), n_get > 0, tag="%s:gets=%s:cache-hits=%s" % (
                kind, "0" if n_get == 0 else "1-9" if n_get < 10 else "10+",
                "n/a" if kind == "plain" else "yes" if len(sim.wire) < len(sim.sent) else "no"),
                sample={"session": kind, "ops": cs.ops_json(ops)[:3]})
            if kind != "plain" and hr.reads != reads["plain"]:
                ctx.oracle_fail("reads through a caching session differ from reads through a plain session", case,
                                hr.reads[:6], reads["plain"][:6], size=100 * len(ops) + len(repr(ops)))
    ctx.correspond("session of every GET (model log vs URLs handed to the session)", cases)
    autosession_pass(ctx)
    c18_cachekey.explore(ctx, "thorough" if search else tier)
    c18_cachehist.explore(ctx, "thorough" if search else tier)
    c18_consolidate.explore(ctx, "thorough" if search else tier)
    c18_sessions.explore(ctx, "thorough" if search else tier)
    c18_transport.explore(ctx, "thorough" if search else tier)


def autosession_pass(ctx):
    """a dataset opened WITHOUT `session=`: open_url builds the session itself (from session_kwargs / use_cache).  Every
    later request made on behalf of the dataset — variables, derived sequences, server-function results — must be sent
    by that one session object (and carry its credentials), never by a fresh anonymous one.  Oracle only."""
    import requests
    import warnings
    import numpy as np
    from pydap.client import open_url
    from pydap.handlers.lib import BaseHandler
    from pydap.wsgi.ssf import ServerSideFunctions

    cs.block_network()
    app = ServerSideFunctions(BaseHandler(cs.make_dataset()))
    adapter = cs.WSGIAdapter(app, [])
    sent = []
    orig = requests.Session.send

    def send(self, request, **kw):
        sent.append((id(self), request.url, request.headers.get("Authorization")))
        return adapter.send(request, **kw)
    requests.Session.send = send
    try:
        for variant, kw in (("token", {"session_kwargs": {"token": "sesame"}}),
                            ("cache", {"use_cache": True, "cache_kwargs": {"cache_name": "c18_auto", "backend": "memory"}}),
                            ("default", {})):
            del sent[:]
            case = {"kind": "autosession", "variant": variant}
            try:
                with warnings.catch_warnings():
                    warnings.simplefilter("ignore")
                    ds = open_url("http://dap.test/ds", protocol="dap2", **kw)
                    np.asarray(ds["a"][0].data)
                    list(ds["s"]["i"])
                    list(ds["s"][ds["s"]["i"] > 2].iterdata())
                    try:
                        res = ds.functions.mean(ds["a"], 0)
                        res["a"]
                    except AttributeError:
                        pass
            except Exception as e:
                ctx.oracle_fail("a dataset opened without session= could not be read", case, "%s: %s" % (type(e).__name__, e),
                                "reads through the session open_url created", size=10)
                continue
            own = id(ds.session)
            foreign = [(u, a) for (i, u, a) in sent if i != own]
            noauth = [u for (i, u, a) in sent if variant == "token" and a != "Bearer sesame"]
            if foreign or noauth or not sent:
                ctx.oracle_fail("a request on behalf of a dataset opened without session= was not sent by the session open_url "
                                "created for it (or without its credentials)", case,
                                {"other-session": foreign[:3], "without-token": noauth[:3], "requests": len(sent)},
                                "every request sent by dataset.session", size=10)
            ctx.count(("autosession", variant), True, tag="autosession:%s:requests=%d" % (variant, min(len(sent), 9)))
    finally:
        requests.Session.send = orig


def run(ctx):
    ctx.rule = ("the read histories of C14's domain (1..8 operations, all live objects re-read after each) on three "
                "session kinds {plain, CachedSession(memory), CachedSession + consolidated keys}; a history is non-trivial "
                "when it issues at least one GET; plus URL pairs for the cache-key relation (hosts, paths under / sibling "
                "of / outside the common base, Earthdata collections, constraints inside/outside the shared set, quoting, "
                "parameter order), non-trivial when at least one of the two gets a normalised key; plus URL histories (2..12 GETs "
                "with repeats over pools mixing the same classes) on real CachedSession(memory) sessions, unpatched and with "
                "consolidated keys, non-trivial when at least one GET is answered from the cache; plus collections of 0..5 DAP4 files "
                "(root dimensions of sizes 0, 1, 2, 3+, dimension arrays equal across files or not, dimensions missing in / only in "
                "later files, groups, query strings, sibling directories, no common directory, the early exits) given to the real "
                "consolidate_metadata, with read histories of 2..14 reads (whole variables, element 0, other elements, slices, "
                "dimension arrays, from several files), non-trivial when consolidate_metadata issued at least one GET")
    ctx.assumptions = ["requests / requests_cache (dispatch, storage, expiry) are modelled, not verified; the unpatched "
                       "create_key is assumed injective on URLs and disjoint from normalised key texts",
                       "EXPLICIT (hypothesis of C18_cache_transparent_customKey): the server answers a declared shared-"
                       "dimension constraint identically in every file under the declared base (and within one Earthdata "
                       "collection); without it consolidation changes results (C18_cache_consolidated_needs_shared_equal)",
                       "name resolution is disabled: a request outside the session fails fast"]
    ctx.rule += ("; plus transport scenarios (a dataset with a Sequence of 0..200 rows and an array served by a real BaseHandler, "
                 "gzip-coding or not, and raw bodies gzip / plain / unknown coding of 0..700 bytes; 3..12 reads with repeats: open_url, "
                 "Sequence iteration, array slices, open_dods_url, whole and streamed reads of raw URLs with stream= on/off; raw stream "
                 "cut into generated short reads) on {requests.Session, CachedSession(memory), create_session(use_cache)}, non-trivial "
                 "when the scenario issues at least one GET")
    ctx.assumptions.append("urllib3 (incremental gzip decoding = gunzip of the whole body), requests (content / iter_content) and "
                           "requests_cache (stores header + decoded content, replays it undecoded) behave as listed in "
                           "design_notes/C18.md, transport section; unz (z b) = b is a hypothesis of C18_read_paths_agree")
    ctx.proof_phase()
    explore(ctx, ctx.tier)
    return ctx.finish(search=lambda c: explore(c, "thorough", search=True),
                      witnesses={c18_cachekey.K_EARTHDATA: c18_cachekey.wit_earthdata})


def replay(payload):
    f = payload.get("failure")
    if not f:
        print("nothing to replay: %s" % payload.get("no_longer_checks"))
        return False
    c = f["case"]
    if c.get("kind") == "autosession":
        ctx = common.Ctx("C18", "quick", 0)
        ctx.findings = []
        autosession_pass(ctx)
        for fl in ctx.oracle_failures[:3]:
            print(fl["what"], "observed", fl["observed"])
        return not ctx.oracle_failures
    if "transport" in c:
        return c18_transport.replay_case(c)
    if "history" in c:
        return c18_cachehist.replay_case(c)
    if "process" in c:
        return c18_sessions.replay_case(c)
    if "collection" in c:
        return c18_consolidate.replay_case(c)
    if "ops" not in c:
        return c18_cachekey.replay_case(c)
    ctx = common.Ctx("C18", "quick", 0)
    ctx.findings = []
    ops = cs.ops_unjson(c["ops"])
    reads = {}
    for kind in KINDS:
        sim = cs.Sim(kind, gzip=c.get("gzip", False))
        hr = cs.HistoryRun(ctx, sim, ops, c).run()
        reads[kind] = hr.reads
        if hr.reads != reads["plain"]:
            ctx.oracle_fail("cached reads differ", c, hr.reads[:6], reads["plain"][:6])
    for fl in ctx.oracle_failures[:3]:
        print(fl["what"], "observed", fl["observed"], "expected", fl["expected"])
    return not ctx.oracle_failures
