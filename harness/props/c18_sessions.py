"""C18 (several sessions in one process) — helper for harness/props/c18.py, not a check by itself.

Property part: "with a caching session every read returns the same data as with a plain session; two requests share a
cache entry only if they have the same URL, or, after metadata consolidation, the same declared shared-dimension
constraint under the declared common base" — for a session on which nothing was consolidated that means: plain keys, plain
answers, whatever happens to the OTHER sessions of the process (seed C18-y: one backend object shared by the caching
sessions of one cache name).

Model: lean/PydapModel/Sessions.lean (command `sess-run`), theorems `C18_consolidation_is_per_session`,
`C18_consolidate_leaves_other_sessions`, `C18_bystander_session_plain`, `C18_bystander_shared_file`,
`C18_shared_backend_refuted` in lean/Props/C18.lean.

(a) correspondence: a process of 3–4 REAL sessions — caching sessions from `pydap.net.create_session(use_cache=True, …)`,
    all on the SAME cache settings, plus a plain session — over the in-process multi-file DAP4 server of
    c18_consolidate.py; a history of events: GET through session i (DMR and `.dap` reads of the collection's files, as
    pydap's client writes them), REAL `consolidate_metadata(urls, session_i)` (once or twice, on the same or on different
    sessions, the second time with the files in another order = another first file), `create_session` in the middle of
    the history.  Per GET handed to ANY session (the consolidation's own GETs included, sorted per consolidation — the
    thread pool decides their order): session, request parts, key (`session.cache.create_key` at that moment, read
    back into original / normalised parts), hit/miss (`response.from_cache`), and which wire request's answer came back
    (X-Origin stamp) vs the model.
(b) oracle, independent of the model: every GET through a session that is never consolidated in the history returns the
    body a plain `requests.Session` returns for that URL, stamped with its own URL, and (caching sessions) under the key
    a fresh unpatched `CachedSession` gives; after the history the never-consolidated caching sessions give the fresh
    session's key to every probe URL.
`replay_case(case) -> bool` re-runs one recorded process history on the implementation (True = property holds).
"""
import contextlib
import io
import warnings

from props import c18_cachekey as ck
from props import c18_consolidate as cc
from props import clientsim as cs


def make_session(caching, files, twin, log, index):
    """a session of the process; `log` receives (session index, prepared url, key | None, plain key, from_cache, origin)"""
    s = cc.new_session("cached" if caching else "plain", files, [], [])
    inner = s.send

    def send(request, **kw):
        k = s.cache.create_key(request) if caching else None
        pk = twin.cache.create_key(request)
        r = inner(request, **kw)
        log.append((index, request.url, k, pk, bool(getattr(r, "from_cache", False)), r.headers.get("X-Origin")))
        return r
    s.send = send
    return s


def show(entry):
    i, url, k, pk, hit, origin = entry
    return "%d:%s=%s:%s" % (i, cc.req_show(url), "plain" if k is None else ck.impl_canon(k, pk),
                            "h:" + cc.req_show(origin) if hit else "m")


def read_url(coll, op):
    i, name, idx = op
    f = coll["files"][i]
    ce = cc.ce_of(name, idx, cc.shape_of(f, cc.find_var(f, name)))
    return "http://%s%s.dap?dap4.ce=%s" % (f.get("host", cc.HOST), f["path"], ce.replace("[", "%5B").replace("]", "%5D"))


def run_case(ctx, case, corr):
    import requests
    import requests_cache
    from pydap.client import consolidate_metadata

    coll = case["collection"]
    files = cc.build_files(coll)
    for f in coll["files"]:
        f["parsed_dims"] = cc.parsed_dims(files, f)
    twin = requests_cache.CachedSession(backend="memory")
    ref = cc.new_session("plain", files, [], [])
    log = []
    flags = list(case["process"])
    sessions = [make_session(bool(c), files, twin, log, i) for i, c in enumerate(flags)]
    consolidated = set()
    impl = []
    evs = []
    bodies = []         # (session, url, content) of every direct GET
    for ev in case["events"]:
        mark = len(log)
        if ev[0] == "get":
            _, i, url = ev
            r = sessions[i].get(url)
            bodies.append((i, r.request.url if r.request is not None else url, r.content, r.status_code))
            impl += [show(e) for e in log[mark:]]
            evs.append("(get %d %s)" % (i, cc.req_sexp(requests.Request("GET", url).prepare().url)))
        elif ev[0] == "cons":
            _, i, order = ev
            consolidated.add(i)
            urls = [cc.user_url(coll["files"][k]) for k in order]
            with contextlib.redirect_stdout(io.StringIO()), warnings.catch_warnings():
                warnings.simplefilter("ignore")
                try:
                    consolidate_metadata(urls, sessions[i])
                except (TypeError, ValueError, KeyError):
                    pass
            impl += sorted(show(e) for e in log[mark:])
            evs.append("(cons %d (%s))" % (i, " ".join(cc.file_sexp(coll["files"][k]) for k in order)))
        else:
            flags.append(ev[1])
            sessions.append(make_session(bool(ev[1]), files, twin, log, len(sessions)))
            evs.append("(create %d)" % ev[1])
    # The model stores the answer of every pre-fetch; requests_cache stores 200 answers only.  A consolidation whose
    # FIRST file has a dimension without a variable of that name gets an error answer to that pre-fetch (nothing is
    # stored, later reads miss): the status of the pre-fetch answer is not modelled (design_notes/C18.md), such
    # histories are judged by the direct oracle only.
    def _prefetch_refused(ev):
        f0 = coll["files"][ev[2][0]]
        return any(not any(v["name"] == dn for v in f0["vars"]) for dn, _ in f0["dims"])
    if any(ev[0] == "cons" and _prefetch_refused(ev) for ev in case["events"]):
        ctx.count(("sessions-unmodelled", repr(case)), nontrivial=False, tag="process:prefetch-answered-with-an-error(oracle only)")
    else:
        corr.append(("sess-run (%s) (%s)" % (" ".join(str(c) for c in case["process"]), " ".join(evs)),
                     "(" + " ".join(impl) + ")", dict(case)))

    # ---- direct oracle --------------------------------------------------------------------------
    ok = True
    size = 1000 * len(coll["files"]) + 100 * len(case["events"]) + len(repr(case))
    plain_body = {}
    n_by = n_by_after = 0
    first_cons = next((k for k, ev in enumerate(case["events"]) if ev[0] == "cons"), None)
    for i, url, k, pk, hit, origin in log:
        if i in consolidated:
            continue
        n_by += 1
        if flags[i] and k != pk:
            ctx.oracle_fail("the cache key of a session that is never consolidated is not the key of a fresh caching session "
                            "(another session of the process was consolidated)", case,
                            {"session": i, "url": url, "key": k}, {"plain key": pk}, size=size)
            ok = False
            break
        if origin != url:
            ctx.oracle_fail("a GET through a session that is never consolidated is answered with another request's answer", case,
                            {"session": i, "url": url, "answer of": origin}, {"answer of": url}, size=size)
            ok = False
            break
    for i, url, content, status in bodies:
        if i in consolidated:
            continue
        if url not in plain_body:
            r = ref.get(url)
            plain_body[url] = (r.content, r.status_code)
        if (content, status) != plain_body[url]:
            ctx.oracle_fail("a read through a session that is never consolidated differs from the plain session's read "
                            "(another session of the process was consolidated)", case,
                            {"session": i, "url": url, "status": status, "body": content[:60].hex()},
                            {"status": plain_body[url][1], "body": plain_body[url][0][:60].hex()}, size=size)
            ok = False
            break
    for i, s in enumerate(sessions):
        if not flags[i] or i in consolidated:
            continue
        for u in cc.probes_for(coll)[:240]:
            p = requests.Request("GET", u).prepare()
            if s.cache.create_key(p) != twin.cache.create_key(p):
                ctx.oracle_fail("after the history a never-consolidated caching session gives a probe request another key "
                                "than a fresh caching session", case, {"session": i, "url": p.url, "key": s.cache.create_key(p)},
                                {"plain key": twin.cache.create_key(p)}, size=size)
                ok = False
                break
    if first_cons is not None:
        n_by_after = sum(1 for ev in case["events"][first_cons:] if ev[0] == "get" and ev[1] not in consolidated)
    norm = sum(1 for e in log if e[2] is not None and e[2] != e[3])
    other = sum(1 for e in log if e[4] and e[5] != e[1])
    ctx.count(("sessions", repr(case)), nontrivial=n_by_after > 0 and norm > 0,
              tag="process:sessions=%d:consolidations=%d:%s:bystander-gets-after=%s:other-file-hits=%s" % (
                  len(sessions), sum(1 for ev in case["events"] if ev[0] == "cons"),
                  "declares" if norm else "declares-nothing", "0" if n_by_after == 0 else "1+", "0" if other == 0 else "1+"),
              sample={"process": case["process"], "events": [e[:2] for e in case["events"]][:6]} if other else None)
    run_case.last = {"gets": len(log), "bystander_gets": n_by, "normalised": norm, "other_file_hits": other,
                     "hits": sum(1 for e in log if e[4])}
    return ok


def gen_case(rng):
    coll = cc.gen_collection(rng, mode=rng.choice(["agree", "disagree-values", "disagree-values", "disagree-size", None]))
    nf = len(coll["files"])
    flags = [1, 1, 0] + ([rng.choice([1, 1, 0])] if rng.random() < 0.6 else [])
    rng.shuffle(flags)
    ops = cc.gen_reads(rng, coll, rng.randint(4, 9))
    pool = [read_url(coll, op) for op in ops]
    pool += ["http://%s%s.dmr" % (f.get("host", cc.HOST), f["path"]) for f in coll["files"][:2]]
    caching = [i for i, c in enumerate(flags) if c]
    events = []
    n = rng.randint(7, 16)
    has_zero = any(n_ == 0 for f in coll["files"] for _, n_ in f["dims"])
    cons_at = sorted(rng.sample(range(n), rng.choice([1, 1, 2])))
    cons_at[0] = min(cons_at[0], n // 3)
    done = []
    create_at = rng.randrange(n) if rng.random() < 0.4 else None
    nsess = len(flags)
    for k in range(n):
        if k in cons_at:
            # mostly a caching session; the plain one: consolidate_metadata warns and returns
            i = rng.choice(caching) if rng.random() < 0.9 else rng.randrange(len(flags))
            if has_zero and i in done:
                # (an error answer — the pre-fetch of `d[0:1:-1]` — is not stored by requests-cache; the model stores every
                # answer: the second pre-fetch of one session would differ in hit/miss only)
                i = next((j for j in caching if j not in done), None)
            if i is not None:
                order = list(range(nf))
                if done:
                    r = rng.randrange(nf)
                    order = order[r:] + order[:r]
                    if rng.random() < 0.3 and nf > 2:
                        order = order[:-1]
                events.append(["cons", i, order])
                done.append(i)
            continue
        if k == create_at:
            events.append(["create", 1])
            nsess += 1
            continue
        events.append(["get", rng.randrange(nsess), rng.choice(pool)])
    # the reads the property is about: every declared-dimension read once more, through every session, at the end
    dims0 = [d for d, n_ in coll["files"][0]["dims"]]
    tail = [u for u, op in zip(pool, ops) if op[1] in dims0]
    rng.shuffle(tail)
    for u in tail[:4]:
        for i in rng.sample(range(nsess), min(nsess, 3)):
            events.append(["get", i, u])
    return {"process": flags, "collection": coll, "events": events}


def fixed_cases():
    t = lambda n, o: cc.make_var("t", "Int32", ["t"], (n,), o)   # noqa: E731
    coll = {"files": [cc._f("/data/A.nc", [("t", 2)], [t(2, 0)]), cc._f("/data/sub/B.nc", [("t", 2)], [t(2, 30)])],
            "mode": "disagree-values"}
    whole = lambda i: read_url(coll, [i, "t", [["all"]]])   # noqa: E731
    # the witness of the theorems: session 0 consolidated, session 1 reads `t` of the second file whole
    yield {"process": [1, 1, 0], "collection": coll,
           "events": [["cons", 0, [0, 1]], ["get", 1, whole(1)], ["get", 0, whole(1)], ["create", 1], ["get", 3, whole(1)],
                      ["get", 2, whole(1)], ["get", 1, whole(1)], ["get", 1, whole(0)], ["get", 0, whole(0)]]}
    # the bystander was created AFTER the consolidation; then a second consolidation with the other file first
    yield {"process": [1, 0], "collection": coll,
           "events": [["get", 0, whole(1)], ["cons", 0, [0, 1]], ["create", 1], ["get", 2, whole(1)], ["get", 2, whole(0)],
                      ["cons", 2, [1, 0]], ["get", 0, whole(0)], ["get", 2, whole(0)], ["get", 1, whole(0)], ["get", 0, whole(1)]]}
    # two consolidations on ONE session (the second closure wraps the first), a bystander in between
    yield {"process": [1, 1], "collection": coll,
           "events": [["cons", 1, [0, 1]], ["get", 0, whole(1)], ["cons", 1, [1, 0]], ["get", 1, whole(0)], ["get", 1, whole(1)],
                      ["get", 0, whole(0)], ["get", 0, whole(1)]]}


def replay_case(case):
    import common

    cs.block_network()
    ctx = common.Ctx("C18", "quick", 0)
    ctx.findings = []
    ok = run_case(ctx, case, [])
    for fl in ctx.oracle_failures[:3]:
        print(fl["what"], "observed", fl["observed"], "expected", fl["expected"])
    return ok


def explore(ctx, tier):
    cs.block_network()
    corr = []
    from collections import Counter
    st = Counter()
    cases = list(fixed_cases())
    rng = ctx.rng("sessions")
    n = 600 if ctx.tier == "thorough" else 150 if tier == "thorough" else 45
    cases += [gen_case(rng) for _ in range(n)]
    for case in cases:
        run_case(ctx, case, corr)
        st["process histories"] += 1
        for k, v in run_case.last.items():
            st[k] += v
    ctx.notes.append("several sessions in one process: " + ", ".join("%s=%d" % kv for kv in sorted(st.items())))
    ctx.correspond("several sessions: create_session sessions + consolidate_metadata on one of them, per GET session / key / "
                   "hit-miss / whose answer vs model sess-run", corr)
    return {"process_histories": len(cases)}
