"""C02 — remote subsetting = numpy indexing.  Proof: lean/Props/C02.lean (chain model
PydapModel/Subset.lean on top of the C03 slice algebra).

Tie: for generated (shape, URL pre-constraint, index) triples the real client (open_url on an in-process
WSGI BaseHandler) is run and three observables are compared with the model: the slice each proxy stores
after opening (`c02-open`), the *parsed* projection the served application receives for `var[idx]`
(`c02-req`, grids: one request per child, `c02-grid`), and the source positions per axis contained in
the decoded answer (`c02-chain`, the whole chain incl. hyperslab text and the server's parser).
DAP4 proxies are tied twice: at the request level with a mocked GET (the request `BaseProxyDap4.__getitem__`
issues, parsed with pydap's own DAP4 `parse_ce`), and end to end against the independent reference DAP4 server
(`oracle/refdap4.py`, wrapped by `props/c02_dap4.py` so that a `dap4.ce` in the DMR request declares the
constrained shape): `c02-cshape`/`c02-open` after `open_url(url?dap4.ce=/a[a:s:b]…, protocol="dap4")`, `c02-req`
on the `dap4.ce` the reference server receives (parsed by the reference server's own parser), `c02-chain` on the
decoded answer.

Oracle (independent of the model): `client[var][idx].data == src[pre][idx]` with integer axes re-expanded
to length 1, for arrays and grids (maps sliced along the matching axes, `output_grid` on/off); the same for DAP4 through the reference
server (values, shape, item size; int32/float64/uint8/int16, both byte orders, named and anonymous dimensions), and for
the mocked DAP4 pass the requested hyperslab applied to the source with numpy.
"""
import itertools
import random
import warnings
import zlib
from urllib.parse import unquote

import numpy as np

import common
from common import hexb
from props.c03 import S, sl_sexp, idx_sexp, tup_sexp, canon_slices

LEVEL = "proof"
warnings.simplefilter("ignore")


# ------------------------------------------------------------------------------------------------
# served dataset
def make_dataset(shape):
    from pydap.model import BaseType, DatasetType, GridType

    n = int(np.prod(shape))
    src = np.arange(n, dtype="i4").reshape(shape)
    ds = DatasetType("ds")
    dims = tuple("m%d" % i for i in range(len(shape)))
    ds["a"] = BaseType("a", src.copy(), dims=dims)
    g = GridType("g")
    g["g"] = BaseType("g", src.copy(), dims=dims)
    maps = []
    for ax, N in enumerate(shape):
        m = (np.arange(N, dtype="i4") + 100 * (ax + 1))
        maps.append(m)
        g["m%d" % ax] = BaseType("m%d" % ax, m.copy(), dims=(dims[ax],))
    ds["g"] = g
    return ds, src, maps


class Served:
    """in-process WSGI application recording what it receives"""

    def __init__(self, shape):
        from pydap.handlers.lib import BaseHandler

        self.shape = tuple(shape)
        self.ds, self.src, self.maps = make_dataset(shape)
        self.handler = BaseHandler(self.ds)
        self.log = []

    def __call__(self, environ, start_response):
        self.log.append((environ.get("PATH_INFO", ""), environ.get("QUERY_STRING", "")))
        environ["x-wsgiorg.throw_errors"] = True
        return self.handler(environ, start_response)

    def parsed_since(self, mark):
        """(id, slices) of every data request received since `mark`, parsed with the server's parser"""
        from pydap.parsers import parse_ce

        out = []
        for path, qs in self.log[mark:]:
            if not path.endswith(".dods"):
                out.append(("?" + path, ()))
                continue
            proj, sel = parse_ce(qs)
            for p in proj:
                ident = ".".join(name for name, _ in p)
                inner = [s for _, s in p[:-1] if s]
                out.append((ident if not inner else ident + "!inner", p[-1][1]))
        return out


def pre_text(pre):
    return "".join("[%d:%d:%d]" % (a, s, b) for (a, s, b) in pre)


def pre_slices(pre):
    return tuple(slice(a, b + 1, s) for (a, s, b) in pre)


def open_client(srv, pre, output_grid=True):
    from pydap.client import open_url

    q = ""
    if pre:
        q = "?a%s,g%s" % (pre_text(pre), pre_text(pre))
    return open_url("http://localhost/ds" + q, application=srv, output_grid=output_grid, protocol="dap2")


# ------------------------------------------------------------------------------------------------
# numpy side
def expand_index(idx, rank):
    t = idx if isinstance(idx, tuple) else (idx,)
    real = [e for e in t if e is not Ellipsis]
    if Ellipsis in [e for e in t if e is Ellipsis]:
        pos = [i for i, e in enumerate(t) if e is Ellipsis][0]
        return list(t[:pos]) + [slice(None)] * (rank - len(real)) + list(t[pos + 1:])
    return list(t) + [slice(None)] * (rank - len(real))


def keep1(idx, cshape):
    out = []
    for e, L in zip(expand_index(idx, len(cshape)), cshape):
        if isinstance(e, slice):
            out.append(e)
        else:
            i = e % L
            out.append(slice(i, i + 1))
    return tuple(out)


def in_domain(idx, cshape):
    t = idx if isinstance(idx, tuple) else (idx,)
    if len([e for e in t if e is Ellipsis]) > 1 or len([e for e in t if e is not Ellipsis]) > len(cshape):
        return False
    for e, L in zip(expand_index(idx, len(cshape)), cshape):
        if isinstance(e, slice):
            if (e.start is not None and e.start < -L) or (e.stop is not None and e.stop < -L):
                return False
        elif not (-L <= e < L):
            return False
    return True


def positions(arr, shape):
    """per-axis source positions of an answer whose values are flat source indices"""
    arr = np.asarray(arr)
    out = []
    for ax in range(arr.ndim):
        ix = [0] * arr.ndim
        ix[ax] = slice(None)
        col = arr[tuple(ix)]
        out.append(np.unravel_index(col, shape)[ax].tolist())
    return out


def pos_sexp(p):
    return "(ok (" + " ".join("(" + " ".join(map(str, ax)) + ")" for ax in p) + "))"


def stored_sexp(t):
    return "(" + " ".join(idx_sexp(s) for s in t) + ")"


def err_class(e):
    return type(e).__name__


# ------------------------------------------------------------------------------------------------
def idx_forms(L, rng=None):
    """all single-axis forms of the quantifier for an axis of length L"""
    out = list(range(-L, L))
    b = [None] + list(range(-L, L + 3))
    for a in b:
        for z in b:
            for k in (None, 1, 2, 3):
                out.append(slice(a, z, k))
    return out


def rand_axis_entry(rng, L):
    if rng.random() < 0.3:
        return rng.randint(-L, L - 1)

    def bd():
        return None if rng.random() < 0.25 else rng.randint(-L, L + 2)
    return slice(bd(), bd(), rng.choice([None, 1, 1, 2, 3]))


def rand_index(rng, cshape):
    rank = len(cshape)
    n = rng.randint(0, rank)
    t = [rand_axis_entry(rng, cshape[i]) for i in range(n)]
    r = rng.random()
    if r < 0.35:
        # Ellipsis: entries after it address the *last* axes
        pos = rng.randint(0, n)
        post = n - pos
        t = [rand_axis_entry(rng, cshape[i]) for i in range(pos)] + [Ellipsis] + \
            [rand_axis_entry(rng, cshape[rank - post + j]) for j in range(post)]
    elif r < 0.45 and n == 1:
        return t[0]
    return tuple(t)


def rand_pre(rng, shape):
    rank = len(shape)
    n = rng.randint(0, rank)
    pre = []
    for ax in range(n):
        N = shape[ax]
        a = rng.randint(0, N - 1)
        s = rng.choice([1, 1, 2, 2, 3])
        b = rng.randint(a, N - 1) if rng.random() < 0.9 else N + rng.randint(0, 1)
        pre.append((a, s, b))
    return pre


# ------------------------------------------------------------------------------------------------
class Runner:
    def __init__(self, ctx):
        self.ctx = ctx
        self.cases = []
        self.servers = {}
        self.clients = {}

    def server(self, shape):
        if shape not in self.servers:
            self.servers[shape] = Served(shape)
        return self.servers[shape]

    def client(self, shape, pre, og):
        key = (shape, tuple(pre), og)
        if key not in self.clients:
            srv = self.server(shape)
            try:
                c = open_client(srv, pre, og)
            except Exception as e:      # opening with a valid hyperslab must not raise: judged, not a harness error
                self.ctx.oracle_fail("opening the dataset with a valid hyperslab raised",
                                     {"kind": "array", "shape": list(shape), "pre": [list(p) for p in pre], "index": "()"},
                                     "escaped:" + err_class(e), "a dataset of shape %r" % (tuple(srv.src[pre_slices(pre)].shape),))
                self.clients[key] = None
                return None, None
            cshape = tuple(self.server(shape).src[pre_slices(pre)].shape)
            self.clients[key] = (c, cshape)
            self.check_open(srv, c, shape, pre, cshape)
        return self.clients[key] or (None, None)

    def check_open(self, srv, c, shape, pre, cshape):
        ctx = self.ctx
        pre_s = "(" + " ".join(sl_sexp(s) for s in pre_slices(pre)) + ")"
        self.cases.append(("c02-cshape (%s) %s" % (" ".join(map(str, shape)), pre_s),
                           "(" + " ".join(map(str, c["a"].shape)) + ")", {"shape": shape, "pre": pre, "what": "shape"}))
        if tuple(c["a"].shape) != cshape:
            ctx.oracle_fail("constrained shape reported by the client differs from numpy's",
                            {"kind": "open", "shape": list(shape), "pre": pre}, list(c["a"].shape), list(cshape))
        line = "c02-open %s (%s)" % (pre_s, " ".join(map(str, cshape)))
        self.cases.append((line, stored_sexp(c["a"].data.slice), {"shape": shape, "pre": pre, "what": "a.slice"}))
        self.cases.append((line, stored_sexp(c["g"].array.data.slice), {"shape": shape, "pre": pre, "what": "g.array.slice"}))
        if len(c["g"].array.data.slice) < len(c["g"].maps):
            # (a stored slice shorter than the rank is judged, not a harness error)
            ctx.oracle_fail("the slice stored for a grid's array has fewer entries than the grid has maps",
                            {"kind": "open", "shape": list(shape), "pre": pre}, stored_sexp(c["g"].array.data.slice),
                            "one entry per dimension")
            return
        for ax, (name, m) in enumerate(c["g"].maps.items()):
            st = c["g"].array.data.slice[ax]
            self.cases.append(("c02-open (%s) (%d)" % (sl_sexp(st) if st != slice(None) else "", cshape[ax]),
                               stored_sexp(m.data.slice), {"shape": shape, "pre": pre, "what": "map.slice"}))

    # -- arrays -------------------------------------------------------------------------------
    def array_case(self, shape, pre, idx, where):
        ctx = self.ctx
        srv = self.server(shape)
        c, cshape = self.client(shape, pre, True)
        if c is None:
            return
        base = srv.src[pre_slices(pre)]
        case = {"kind": "array", "shape": list(shape), "pre": [list(p) for p in pre], "index": repr(idx)}
        if not in_domain(idx, cshape):
            return
        exp = base[keep1(idx, cshape)]
        if exp.size == 0:
            ctx.count(("arr", shape, tuple(pre), repr(idx)), False, tag=where + ":empty-selection(skipped)")
            return
        mark = len(srv.log)
        try:
            got = np.asarray(c["a"][idx].data)
            impl_pos = pos_sexp(positions(got, shape)) if got.shape == exp.shape or got.size else "(shape %r)" % (got.shape,)
        except Exception as e:
            got = None
            impl_pos = "escaped:" + err_class(e)
        reqs = srv.parsed_since(mark)
        t = idx if isinstance(idx, tuple) else (idx,)
        sh = " ".join(map(str, shape))
        self.cases.append(("c02-chain (%s) (%s) %s" % (sh, " ".join(sl_sexp(s) for s in pre_slices(pre)), tup_sexp(t)),
                           impl_pos, case))
        if len(reqs) == 1 and reqs[0][0] == "a":
            impl_req = canon_slices(reqs[0][1])
        else:
            impl_req = "requests:" + repr(reqs)
        self.cases.append(("c02-req %s (%s) %s" % (stored_sexp(c["a"].data.slice), " ".join(map(str, cshape)), tup_sexp(t)),
                           impl_req, case))
        if got is None:
            ctx.oracle_fail("remote indexing raised", case, impl_pos, exp.tolist(), size=exp.size + 10 * len(shape))
        elif got.shape != exp.shape or not (got == exp).all():
            ctx.oracle_fail("remote indexing returns other elements than numpy", case, got.tolist(), exp.tolist(),
                            size=int(np.prod(shape)) + 10 * len(shape) + len(repr(idx)))
        stride = any(s > 1 for (_, s, _) in pre)
        kind = "ellipsis" if any(e is Ellipsis for e in t) else "short" if len(t) < len(shape) else "full"
        if len(reqs) == 1 and any(sl.stop is not None and sl.stop > N for sl, N in zip(reqs[0][1], shape)):
            # fix_slice normalises an open/over-long stop to N + start: the last index requested is ≥ N
            ctx.tags["stop-beyond-extent:dap2(last index ≥ N requested; pydap server clips like numpy)"] += 1
        ctx.count(("arr", shape, tuple(pre), repr(idx)), True,
                  tag="%s:array:rank%d:%s:%s" % (where, len(shape), "pre-stride" if stride else "pre" if pre else "nopre", kind),
                  sample=case)

    # -- grids --------------------------------------------------------------------------------
    def grid_case(self, shape, pre, idx, og, where):
        ctx = self.ctx
        srv = self.server(shape)
        c, cshape = self.client(shape, pre, og)
        if c is None:
            return
        rank = len(shape)
        pfull = list(pre_slices(pre)) + [slice(None)] * (rank - len(pre))
        base = srv.src[tuple(pfull)]
        case = {"kind": "grid", "shape": list(shape), "pre": [list(p) for p in pre], "index": repr(idx), "output_grid": og}
        if not in_domain(idx, cshape):
            return
        k1 = keep1(idx, cshape)
        exp = base[k1]
        if exp.size == 0:
            ctx.count(("grid", shape, tuple(pre), repr(idx), og), False, tag=where + ":empty-selection(skipped)")
            return
        mark = len(srv.log)
        try:
            r = c["g"][idx]
            err = None
        except Exception as e:
            r = None
            err = "escaped:" + err_class(e)
        reqs = srv.parsed_since(mark)
        names = {"g.g": 0}
        for ax in range(rank):
            names["g.m%d" % ax] = ax + 1
        t = idx if isinstance(idx, tuple) else (idx,)
        if err is None and all(n in names for n, _ in reqs):
            impl = "(" + " ".join("(%d %s)" % (names[n], canon_slices(s)) for n, s in sorted(reqs, key=lambda x: names[x[0]])) + ")"
        else:
            impl = (err or "") + "requests:" + repr(reqs)
        arr_stored = c["g"].array.data.slice
        self.cases.append(("c02-grid %d %s (%s) %s" % (1 if og else 0, stored_sexp(arr_stored),
                                                       " ".join(map(str, cshape)), tup_sexp(t)), impl, case))
        size = int(np.prod(shape)) + 10 * rank + len(repr(idx))
        if r is None:
            ctx.oracle_fail("grid indexing raised", case, err, exp.tolist(), size=size)
        else:
            try:
                if og:
                    got = np.asarray(r["g"].data)
                    ok = got.shape == exp.shape and (got == exp).all()
                    obs = {"g": got.tolist()}
                    expd = {"g": exp.tolist()}
                    for ax in range(rank):
                        d = r["m%d" % ax].data
                        d = np.asarray(d if isinstance(d, np.ndarray) else d[:])
                        e = srv.maps[ax][pfull[ax]][k1[ax]]
                        obs["m%d" % ax], expd["m%d" % ax] = d.tolist(), e.tolist()
                        ok = ok and d.shape == e.shape and (d == e).all()
                    if len(list(r.keys())) != rank + 1:
                        ok = False
                else:
                    got = np.asarray(r.data)
                    ok = got.shape == exp.shape and (got == exp).all() and len(reqs) == 1
                    obs, expd = {"g": got.tolist(), "requests": len(reqs)}, {"g": exp.tolist(), "requests": 1}
            except Exception as e:
                ok, obs, expd = False, "escaped:" + err_class(e), exp.tolist()
            if not ok:
                ctx.oracle_fail("sliced grid: array or maps differ from numpy along the matching axes", case, obs, expd,
                                size=size)
        stride = any(s > 1 for (_, s, _) in pre)
        kind = "ellipsis" if any(e is Ellipsis for e in t) else "short" if len(t) < rank else "full"
        ctx.count(("grid", shape, tuple(pre), repr(idx), og), True,
                  tag="%s:grid(og=%s):rank%d:%s:%s" % (where, "on" if og else "off", rank,
                                                       "pre-stride" if stride else "pre" if pre else "nopre", kind),
                  sample=case)

    def flush(self, what):
        self.ctx.correspond(what, self.cases)
        self.cases = []


# ------------------------------------------------------------------------------------------------
# DAP4 proxies, request level
DMR = """<?xml version="1.0" encoding="ISO-8859-1"?>
<Dataset xmlns="http://xml.opendap.org/ns/DAP/4.0#" dapVersion="4.0" dmrVersion="1.0" name="ds">
%s
    <Int32 name="a">
%s
    </Int32>
</Dataset>
"""


class _Stop(Exception):
    pass


def dap4_case(ctx, cases, rng, shape, pre, idx, where):
    import pydap.handlers.dap as hd
    from pydap.parsers import parse_ce

    src = np.arange(int(np.prod(shape)), dtype="i4").reshape(shape)
    base = src[pre_slices(pre)]
    cshape = base.shape
    if not in_domain(idx, cshape):
        return
    exp = base[keep1(idx, cshape)]
    if exp.size == 0:
        return
    dims = "\n".join('    <Dimension name="d%d" size="%d"/>' % (i, n) for i, n in enumerate(cshape))
    dd = "\n".join('        <Dim name="/d%d"/>' % i for i in range(len(cshape)))
    seen = []

    class R:
        text = DMR % (dims, dd)

    def fake_get(url, *a, **k):
        seen.append(url)
        if ".dmr" in url:
            return R()
        raise _Stop()

    case = {"kind": "dap4", "shape": list(shape), "pre": [list(p) for p in pre], "index": repr(idx)}
    old = hd.GET
    hd.GET = fake_get
    try:
        q = "?dap4.ce=/a" + pre_text(pre) if pre else ""
        h = hd.DAPHandler("http://localhost/ds" + q, protocol="dap4")
        proxy = h.dataset["a"].data
        stored = proxy.slice
        try:
            proxy[idx]
            url = None
        except _Stop:
            url = seen[-1]
    except Exception as e:
        ctx.oracle_fail("DAP4 proxy raised", case, "escaped:" + err_class(e), exp.tolist())
        return
    finally:
        hd.GET = old
    t = idx if isinstance(idx, tuple) else (idx,)
    pre_s = "(" + " ".join(sl_sexp(s) for s in pre_slices(pre)) + ")"
    cases.append(("c02-open %s (%s)" % (pre_s, " ".join(map(str, cshape))), stored_sexp(stored), case))
    proj, sel = parse_ce(url.split("?", 1)[1], "dap4")
    name, slices = proj[0][-1]
    cases.append(("c02-req %s (%s) %s" % (stored_sexp(stored), " ".join(map(str, cshape)), tup_sexp(t)),
                  canon_slices(slices), case))
    try:
        got = src[slices]
    except IndexError as e:     # a request with more hyperslab groups than the rank: judged, not a harness error
        ctx.oracle_fail("DAP4 proxy requests a hyperslab the source cannot take", case,
                        {"request": unquote(url.split("?", 1)[1]), "numpy": "escaped:" + err_class(e)}, exp.tolist(),
                        size=int(np.prod(shape)) + 10 * len(shape) + len(repr(idx)))
        return
    if name.lstrip("/") != "a" or got.shape != exp.shape or not (got == exp).all():
        ctx.oracle_fail("DAP4 proxy requests other elements than numpy selects", case,
                        {"request": unquote(url.split("?", 1)[1]), "selects": got.tolist()}, exp.tolist(),
                        size=int(np.prod(shape)) + 10 * len(shape) + len(repr(idx)))
    ctx.count(("dap4", shape, tuple(pre), repr(idx)), True,
              tag="%s:dap4:rank%d:%s" % (where, len(shape), "pre-stride" if any(s > 1 for _, s, _ in pre) else
                                         "pre" if pre else "nopre"), sample=case)


# ------------------------------------------------------------------------------------------------
# DAP4 end to end against the reference DAP4 server
class RefServerBroken(RuntimeError):
    """the reference server (not pydap) answered something numpy does not select: infrastructure"""


DAP4_DTYPES = ["i4", "f8", "u1", "i2"]


class Dap4E2E:
    def __init__(self, ctx):
        self.ctx = ctx
        self.cases = []
        self.clients = {}

    def client(self, shape, pre, dtype, little, anon):
        from props import c02_dap4 as D
        from pydap.client import open_url

        key = (shape, tuple(pre), dtype, little, anon)
        if key in self.clients:
            return self.clients[key]
        if len(self.clients) > 400:
            self.clients.clear()
        src = D.make_source(shape, dtype)
        srv = D.PreRefServer(D.make_spec(shape, dtype), {"/a": src, "/z": np.array([7, 8], dtype="i2")},
                             little=little, rng=None, anon_dims=anon)
        q = "?dap4.ce=/a" + pre_text(pre) if pre else ""
        ds = open_url("http://localhost/ds" + q, application=srv, protocol="dap4")
        cshape = tuple(src[pre_slices(pre)].shape)
        self.clients[key] = (srv, ds, src, cshape)
        self.check_open(srv, ds, shape, pre, cshape, dtype, little, anon)
        return self.clients[key]

    def check_open(self, srv, ds, shape, pre, cshape, dtype, little, anon):
        ctx = self.ctx
        case = {"kind": "dap4-open", "shape": list(shape), "pre": [list(p) for p in pre], "dtype": dtype,
                "little": little, "anon": anon}
        pre_s = "(" + " ".join(sl_sexp(s) for s in pre_slices(pre)) + ")"
        want_q = "dap4.ce=/a" + pre_text(pre) if pre else ""
        if srv.requests != [("/ds.dmr", want_q)]:
            ctx.oracle_fail("DAP4 open_url does not pass the URL's constraint on to the DMR request", case,
                            srv.requests, [["/ds.dmr", want_q]])
        a = ds["a"]
        self.cases.append(("c02-cshape (%s) %s" % (" ".join(map(str, shape)), pre_s),
                           "(" + " ".join(map(str, a.shape)) + ")", dict(case, what="shape")))
        self.cases.append(("c02-open %s (%s)" % (pre_s, " ".join(map(str, cshape))), stored_sexp(a.data.slice),
                           dict(case, what="a.slice")))
        if tuple(a.shape) != cshape or tuple(a.data.shape) != cshape:
            ctx.oracle_fail("constrained shape reported by the DAP4 client differs from numpy's", case,
                            [list(a.shape), list(a.data.shape)], list(cshape))
        if pre and "z" in ds:
            ctx.oracle_fail("DAP4 dataset opened with a projection lists a variable that was not projected", case,
                            sorted(ds.keys()), ["a"])

    def case(self, shape, pre, idx, where, dtype="i4", little=True, anon=False, via="var"):
        from props import c02_dap4 as D

        ctx = self.ctx
        shape = tuple(shape)
        rank = len(shape)
        src0 = D.make_source(shape, dtype)
        base = src0[pre_slices(pre)]
        cshape = base.shape
        if not in_domain(idx, cshape):
            return
        exp = base[keep1(idx, cshape)]          # numpy on the source array only
        key = ("dap4-e2e", shape, tuple(pre), repr(idx), dtype, little, anon, via)
        if exp.size == 0:
            ctx.count(key, False, tag=where + ":dap4-e2e:empty-selection(skipped)")
            return
        case = {"kind": "dap4-e2e", "shape": list(shape), "pre": [list(p) for p in pre], "index": repr(idx),
                "dtype": dtype, "little": little, "anon": anon, "via": via}
        size = int(np.prod(shape)) + 10 * rank + len(repr(idx)) + 5 * len(pre)
        try:
            srv, ds, src, _ = self.client(shape, pre, dtype, little, anon)
        except RefServerBroken:
            raise
        except Exception as e:
            ctx.oracle_fail("DAP4 open_url raised", case, "escaped:%s: %s" % (err_class(e), str(e)[:120]), exp.tolist(),
                            size=size)
            return
        a = ds["a"]
        # the chunk partition of the answer is a function of the case (replayable)
        srv.rng = random.Random(zlib.crc32(repr(sorted(case.items())).encode()))
        mark, bmark, over = len(srv.requests), len(srv.bodies), srv.overshoot
        try:
            got = np.asarray(a[idx].data if via == "var" else a.data[idx])
            impl_pos = pos_sexp(positions(got.astype("i8"), shape)) if got.size else "(shape %r)" % (got.shape,)
        except Exception as e:
            got = None
            impl_pos = "escaped:" + err_class(e)
        reqs = srv.requests[mark:]
        t = idx if isinstance(idx, tuple) else (idx,)
        stored = a.data.slice
        # what the reference server received, parsed by the reference server's own parser
        impl_req = "requests:" + repr(reqs)
        if len(reqs) == 1 and reqs[0][0] == "/ds.dap":
            try:
                proj = D.split_ce(reqs[0][1])
                if len(proj) == 1 and proj[0][0] == "/a":
                    impl_req = canon_slices(proj[0][1])
                    # cross-check of the reference server itself with a second decoder
                    path, query, status, body = srv.bodies[bmark]
                    want = src[tuple(proj[0][1])]
                    if status.startswith("200"):
                        _, vals, crc_ok = D.decode_response(body, dtype, want.size)
                        if not crc_ok or vals.tolist() != want.reshape(-1).tolist():
                            raise RefServerBroken("%r: sent %r, numpy selects %r" % (query, vals.tolist(), want.tolist()))
            except (ValueError, IndexError):      # (IndexError: a request with more groups than the rank; judged below)
                pass
        self.cases.append(("c02-req %s (%s) %s" % (stored_sexp(stored), " ".join(map(str, cshape)), tup_sexp(t)),
                           impl_req, case))
        self.cases.append(("c02-chain (%s) (%s) %s" % (" ".join(map(str, shape)),
                                                       " ".join(sl_sexp(s) for s in pre_slices(pre)), tup_sexp(t)),
                           impl_pos, case))
        if got is None:
            status = srv.bodies[-1][2:] if len(srv.bodies) > bmark else None
            ctx.oracle_fail("DAP4 remote indexing raised", case, [impl_pos, repr(reqs), repr(status)[:160]], exp.tolist(),
                            size=size)
        elif got.shape != exp.shape or got.tolist() != exp.tolist() \
                or (got.dtype.kind, got.dtype.itemsize) != (exp.dtype.kind, exp.dtype.itemsize):
            ctx.oracle_fail("DAP4 remote indexing returns other elements than numpy", case,
                            {"request": repr(reqs), "shape": list(got.shape), "dtype": got.dtype.str[1:], "data": got.tolist()},
                            {"shape": list(exp.shape), "dtype": exp.dtype.str[1:], "data": exp.tolist()}, size=size)
        if srv.overshoot > over:
            ctx.tags["stop-beyond-extent:dap4(last index ≥ N requested; reference server clips like numpy)"] += 1
        ctx.count(key, True,
                  tag="%s:dap4-e2e:pre=%s:rank=%d" % (where, "stride" if any(s > 1 for _, s, _ in pre) else
                                                      "step1" if pre else "none", rank),
                  sample=case)
        ctx.tags["dap4-e2e:dtype=%s:%s" % (dtype, "little" if little else "big")] += 1

    def flush(self, what):
        self.ctx.correspond(what, self.cases)
        self.cases = []


def rand_pre_inside(rng, shape):
    """pre-constraint of the task's domain: per axis a ≤ b inside the extent, s in 1..3; any number of leading axes"""
    pre = []
    for ax in range(rng.randint(1, len(shape))):
        N = shape[ax]
        a = rng.randint(0, N - 1)
        pre.append((a, rng.choice([1, 2, 2, 3]), rng.randint(a, N - 1)))
    return pre


def explore_dap4_e2e(ctx, quick):
    E = Dap4E2E(ctx)
    # (a) rank 1, N ≤ 6, every index form, no pre-constraint: exhaustive (int32; the other types on N = 4)
    for N in range(1, 7):
        for f in idx_forms(N):
            E.case((N,), [], f, "scope")
    for dtype, little, anon in (("f8", False, True), ("u1", True, False), ("i2", False, False)):
        forms = idx_forms(4)
        if quick:
            forms = ctx.rng("e2e/dtype/" + dtype).sample(forms, 80)
        for f in forms:
            E.case((4,), [], f, "scope", dtype=dtype, little=little, anon=anon, via="proxy")
    E.flush("DAP4 end to end (reference server), rank 1 exhaustive")
    # (b) rank 1, every pre-constraint [a:s:b] inside the extent, s ≤ 3; index forms sampled (quick) / all (thorough)
    k = 0
    for N in range(1, 7):
        for a in range(N):
            for s in (1, 2, 3):
                for b in range(a, N):
                    L = len(range(a, b + 1, s))
                    forms = idx_forms(L)
                    if quick:
                        rng = ctx.rng("e2e/b/%d/%d/%d/%d" % (N, a, s, b))
                        forms = rng.sample(forms, min(len(forms), 10)) + [slice(None), -1, slice(1, None), slice(None, None, 2),
                                                                          slice(1, None, 3)]
                    k += 1
                    dtype = DAP4_DTYPES[k % 4]
                    for f in forms:
                        E.case((N,), [(a, s, b)], f, "scope", dtype=dtype, little=bool(k % 3), anon=bool(k % 2),
                               via="var" if k % 5 else "proxy")
        E.flush("DAP4 end to end (reference server), rank 1 with pre-constraint")
        E.clients.clear()
    # (c) rank 2-3 sampled
    rng = ctx.rng("e2e/rank23")
    for _ in range(ctx.budget(150, 2500)):
        rank = rng.choice([2, 2, 3, 3, 1])
        shape = tuple(rng.randint(1, 6) for _ in range(rank))
        dtype = rng.choice(DAP4_DTYPES)
        little = rng.random() < 0.5
        anon = rng.random() < 0.4
        for pre in ([], rand_pre_inside(rng, shape), rand_pre_inside(rng, shape)):
            cshape = np.empty(shape)[pre_slices(pre)].shape
            for _ in range(8):
                E.case(shape, pre, rand_index(rng, cshape), "sampled", dtype=dtype, little=little, anon=anon,
                       via="var" if rng.random() < 0.7 else "proxy")
        if len(E.cases) > 4000:
            E.flush("DAP4 end to end (reference server), rank 1-3 sampled")
    E.flush("DAP4 end to end (reference server), rank 1-3 sampled")


# ------------------------------------------------------------------------------------------------
PROJ_TEXTS = ["a", "a[0]", "a[0:1]", "a[0:2:9]", "g.m0[1:2]", "g[0][1].g[2]", "a[1]x", "a]", "a[", "[1]", "a[1][2][3]",
              "a[1:2:3:4]", "a[x]", "s.t[0:1:3]", "a[ 1 ]", "a.b.c", "a[0:1:2][3:4]", "", "a[]", "a[1]]", "a[[1]"]


def explore(ctx, tier, search=False):
    R = Runner(ctx)
    quick = tier == "quick" and not search
    # (a) rank 1, N ≤ 6, every index form of the quantifier, no pre-constraint: exhaustive
    for N in range(1, 7):
        for f in idx_forms(N):
            R.array_case((N,), [], f, "scope")
    R.flush("client/server chain, rank 1 exhaustive")
    # (b) rank 1 with every pre-constraint [a:s:b] (s ≤ 3) and a reduced but complete-in-kind index set
    for N in range(1, 7):
        for a in range(N):
            for s in (1, 2, 3):
                for b in range(a, N):
                    L = len(range(a, b + 1, s))
                    forms = idx_forms(L)
                    if quick:
                        rng = ctx.rng("b/%d/%d/%d/%d" % (N, a, s, b))
                        forms = rng.sample(forms, min(len(forms), 12)) + [slice(None), -1, slice(1, None), slice(None, None, 2)]
                    for f in forms:
                        R.array_case((N,), [(a, s, b)], f, "scope")
    R.flush("client/server chain, rank 1 with pre-constraint")
    ctx.exhaustive = not quick
    # (c) rank 2-3 sampled: arrays and grids, output_grid on/off
    rng = ctx.rng("rank23")
    n_shapes = 25 if quick else 200
    per = 40 if quick else 150
    for _ in range(n_shapes):
        rank = rng.choice([1, 2, 2, 3, 3])
        shape = tuple(rng.randint(1, 6) for _ in range(rank))
        srv = R.server(shape)
        for pre in ([], rand_pre(rng, shape), rand_pre(rng, shape)):
            cshape = srv.src[pre_slices(pre)].shape
            for _ in range(per // 3):
                idx = rand_index(rng, cshape)
                r = rng.random()
                if r < 0.4:
                    R.array_case(shape, pre, idx, "sampled")
                elif r < 0.85:
                    R.grid_case(shape, pre, idx, True, "sampled")
                else:
                    R.grid_case(shape, pre, idx, False, "sampled")
        R.flush("client/server chain, rank 1-3 sampled")
        R.clients.clear()
    # fixed grid cases that must always be present (Ellipsis in every position of a rank-3 grid)
    shape = (2, 3, 4)
    for idx in [(Ellipsis, 1), (0, Ellipsis), (Ellipsis,), (slice(0, 1), Ellipsis, slice(1, 3)), (1,), (Ellipsis, 1, slice(None)),
                (slice(None), 1), -1, slice(0, 2)]:
        for pre in ([], [(0, 1, 1), (0, 2, 2)], [(1, 1, 1), (0, 1, 2), (1, 2, 3)]):
            R.grid_case(shape, pre, idx, True, "fixed")
            R.grid_case(shape, pre, idx, False, "fixed")
            R.array_case(shape, pre, idx, "fixed")
    R.flush("client/server chain, fixed grid cases")
    # (d) DAP4 proxies at request level
    cases = []
    rng = ctx.rng("dap4")
    for _ in range(150 if quick else 3000):
        rank = rng.choice([1, 2, 3])
        shape = tuple(rng.randint(1, 6) for _ in range(rank))
        pre = rand_pre(rng, shape) if rng.random() < 0.7 else []
        cshape = np.empty(shape)[pre_slices(pre)].shape
        dap4_case(ctx, cases, rng, shape, pre, rand_index(rng, cshape), "sampled")
    ctx.correspond("DAP4 proxy: stored slice and issued request", cases)
    # (d') DAP4 end to end against the reference DAP4 server, without and with URL pre-constraint
    explore_dap4_e2e(ctx, quick)
    # (d'') end to end on VALUES: the composed model (Subset ∘ gather ∘ DDS ∘ XDR) vs the real pipeline, numpy oracle
    import sys
    from props import c02_e2e

    c02_e2e.explore_e2e(ctx, sys.modules[__name__], quick)
    # (e) server-side projection tokens (name/hyperslab split, error classes)
    from pydap.parsers import parse_projection

    cases = []
    rng = ctx.rng("proj")
    texts = list(PROJ_TEXTS)
    for _ in range(200):
        texts.append("".join(rng.choice("ab.[]:0123 ") for _ in range(rng.randint(0, 10))))
    for t in texts:
        if "(" in t or "," in t:
            continue
        try:
            p = parse_projection(t)
            impl = "(ok" + "".join(" (%s %s)" % (hexb(n.encode()), canon_slices(s)) for n, s in p[0]) + ")"
        except Exception as e:
            impl = "(err %s)" % err_class(e)
        cases.append(("c02-proj %s" % hexb(t.encode()), impl, {"text": t}))
        ctx.count(("proj", t), True, tag="projection-token:" + impl[:5])
    ctx.correspond("parse_projection (one token)", cases)


def run(ctx):
    ctx.rule = ("rank 1, N 1..6: every index form of the quantifier (ints in [-N,N), slices with start/stop None or in "
                "[-N,N+2], step None/1/2/3) exhaustively without pre-constraint, and for every pre-constraint [a:s:b] "
                "(s ≤ 3) a seeded sample (quick) / all forms (thorough); rank 1-3 with extents 1..6 sampled: arrays, grids "
                "with output_grid on/off, Ellipsis, short tuples, pre-constraints with strides; DAP4 proxies at request "
                "level (mocked GET) and end to end against the reference DAP4 server: rank 1 every index form without "
                "pre-constraint (int32; float64/uint8/int16 on N = 4), every pre-constraint [a:s:b] inside the extent "
                "(s ≤ 3) with sampled (quick) / all (thorough) forms, rank 1-3 sampled with leading-axis pre-constraints, "
                "dtypes, both byte orders, named/anonymous dimensions; end to end on VALUES (props/c02_e2e.py): 160 (quick) typed sources "
                "over all 8 DAP2 types, rank 0-3, extents 1-5, C01's value generator, strided pre-constraints, arrays and grids with "
                "typed maps — composed model vs the real pipeline, body bytes, parsed declaration, numpy oracle bit for bit; 300 "
                "gather-vs-numpy cases rank 0-4. A case is non-trivial when its numpy selection is non-empty (others are outside the property and "
                "skipped); distinct by (kind, shape, pre-constraint, index)")
    ctx.assumptions = ["numpy basic indexing is the oracle and the specification function (`sel`, `npSlices`: one "
                       "selection per axis)",
                       "DAP4: pydap has no DAP4 server; the server is the independent reference harness/oracle/refdap4.py "
                       "(numpy slicing, clips a last index beyond the extent like numpy) wrapped by props/c02_dap4.py so that "
                       "a dap4.ce in the DMR request declares the constrained shape (shared Dimensions resized, or anonymous "
                       "Dim sizes); every answer it sends is re-read by a second decoder and compared with numpy on the "
                       "received hyperslab before pydap's result is judged"]
    ctx.proof_phase()
    explore(ctx, ctx.tier)
    return ctx.finish(search=lambda c: explore(c, "thorough", search=True))


def replay(payload):
    f = payload.get("failure")
    if not f:
        print("nothing to replay: %s" % payload.get("no_longer_checks"))
        return False
    c = f["case"]
    ctx = common.Ctx("C02", "quick", 0)
    ctx.findings = []
    g = {"slice": slice, "Ellipsis": Ellipsis}
    shape = tuple(c["shape"])
    pre = [tuple(p) for p in c.get("pre", [])]
    if c["kind"] == "open":
        R = Runner(ctx)
        R.client(shape, pre, True)
    elif c["kind"] == "array":
        Runner(ctx).array_case(shape, pre, eval(c["index"], g), "replay")
    elif c["kind"] == "grid":
        Runner(ctx).grid_case(shape, pre, eval(c["index"], g), c["output_grid"], "replay")
    elif c["kind"] in ("e2e-array", "e2e-grid"):
        import sys
        from props import c02_e2e

        c02_e2e.replay_case(ctx, sys.modules[__name__], c)
    elif c["kind"] == "dap4-open":
        Dap4E2E(ctx).client(shape, pre, c["dtype"], c["little"], c["anon"])
    elif c["kind"] == "dap4-e2e":
        Dap4E2E(ctx).case(shape, pre, eval(c["index"], g), "replay", dtype=c["dtype"], little=c["little"],
                          anon=c["anon"], via=c["via"])
    else:
        dap4_case(ctx, [], None, shape, pre, eval(c["index"], g), "replay")
    for fl in ctx.oracle_failures:
        print("observed", fl["observed"], "expected", fl["expected"])
    return not ctx.oracle_failures
