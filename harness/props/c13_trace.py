"""C13 write/allocation tracing, installed from the harness process (no hooks in pydap).

* `DapType.__init__`/`__setattr__` are wrapped: every object constructed while a request is being traced is
  *owned* by that request; every slot store is logged as (stage, class, field, owned).
* the containers hanging off DAP objects (`attributes` incl. nested dicts/lists, `_dict`, `_visible_keys`, `dims`)
  are replaced by tracking subclasses: the served dataset's in place before serving (tagged shared), a request's
  own at the moment they are stored in a slot (tagged with the request); every mutation is logged the same way.
* stage markers come from wrappers around the pipeline functions of handlers/lib.py and wsgi/ssf.py.
Requests are identified by thread (one traced request per thread at a time).
"""
import copy as _copy
import threading
from collections import OrderedDict

import common  # noqa: F401

_state = threading.local()
_installed = False
SHARED = "shared"


class Trace:
    def __init__(self, label):
        self.label = label
        self.owned = {}          # id(obj) -> obj (strong ref: ids are not recycled while tracing)
        self.events = []         # (stage, cls, field, owned: bool)
        self.allocs = []         # (stage, cls)
        self.stage = "copy"        # nothing is stored before BaseHandler.parse copies the dataset
        self.foreign = []        # writes to objects this request does not own


def current():
    return getattr(_state, "trace", None)


def _cls(obj):
    return type(obj).__name__


def _owned(tr, obj):
    return id(obj) in tr.owned


def _log(obj, cls, field):
    tr = current()
    if tr is None:
        return
    own = _owned(tr, obj)
    tr.events.append((tr.stage, cls, field, own))
    if not own:
        tr.foreign.append((tr.stage, cls, field, getattr(obj, "_c13_tag", None) or "untracked"))


class TDict(dict):
    __slots__ = ("_c13_tag", "_c13_what")

    def _w(self):
        _log(self, "dict", self._c13_what)

    def __setitem__(self, k, v):
        self._w()
        dict.__setitem__(self, k, v)

    def __delitem__(self, k):
        self._w()
        dict.__delitem__(self, k)

    def update(self, *a, **kw):
        self._w()
        dict.update(self, *a, **kw)

    def pop(self, *a):
        self._w()
        return dict.pop(self, *a)

    def popitem(self):
        self._w()
        return dict.popitem(self)

    def clear(self):
        self._w()
        dict.clear(self)

    def setdefault(self, *a):
        self._w()
        return dict.setdefault(self, *a)

    def __ior__(self, o):
        self._w()
        dict.update(self, o)
        return self


class TODict(OrderedDict):
    def _w(self):
        _log(self, "dict", self._c13_what)

    def __setitem__(self, k, v):
        if "_c13_what" in self.__dict__:
            self._w()
        OrderedDict.__setitem__(self, k, v)

    def __delitem__(self, k):
        self._w()
        OrderedDict.__delitem__(self, k)

    def pop(self, *a):
        self._w()
        return OrderedDict.pop(self, *a)

    def popitem(self, last=True):
        self._w()
        return OrderedDict.popitem(self, last)

    def clear(self):
        self._w()
        OrderedDict.clear(self)

    def move_to_end(self, *a, **k):
        self._w()
        OrderedDict.move_to_end(self, *a, **k)

    def update(self, *a, **kw):
        self._w()
        OrderedDict.update(self, *a, **kw)

    def setdefault(self, *a):
        self._w()
        return OrderedDict.setdefault(self, *a)


class TList(list):
    __slots__ = ("_c13_tag", "_c13_what")

    def _w(self):
        _log(self, "list", self._c13_what)


def _mk(name):
    base = getattr(list, name)

    def f(self, *a, **k):
        self._w()
        return base(self, *a, **k)
    f.__name__ = name
    return f


for _n in ("append", "extend", "insert", "remove", "pop", "clear", "sort", "reverse", "__setitem__", "__delitem__",
           "__iadd__", "__imul__"):
    setattr(TList, _n, _mk(_n))

TRACKED_FIELDS = ("attributes", "_dict", "_visible_keys", "dims")


def _track(value, what, tag, register):
    """convert a plain container to its tracking subclass (recursively for attribute values)"""
    t = type(value)
    if t is dict:
        out = TDict()
        for k, v in value.items():
            dict.__setitem__(out, k, _track(v, what + ".*", tag, register) if what.startswith("attributes") else v)
    elif t is OrderedDict:
        out = TODict()
        for k, v in value.items():
            OrderedDict.__setitem__(out, k, v)
    elif t is list:
        out = TList(_track(v, what + ".*", tag, register) if what.startswith("attributes") else v for v in value)
    else:
        return value
    if isinstance(out, TODict):
        out.__dict__["_c13_tag"] = tag
        out.__dict__["_c13_what"] = what
    else:
        out._c13_tag = tag
        out._c13_what = what
    register(out)
    return out


def install():
    """wrap the pydap classes and pipeline functions once per process"""
    global _installed
    if _installed:
        return
    _installed = True
    import pydap.handlers.lib as hl
    import pydap.model as model
    import pydap.wsgi.ssf as ssf

    DapType = model.DapType
    orig_init = DapType.__init__

    def traced_init(self, *a, **k):
        tr = current()
        if tr is not None and id(self) not in tr.owned:
            tr.owned[id(self)] = self
            tr.allocs.append((tr.stage, _cls(self)))
        return orig_init(self, *a, **k)

    def traced_setattr(self, name, value):
        tr = current()
        if tr is not None:
            if id(self) not in tr.owned and "_id" not in self.__dict__ and "name" not in self.__dict__:
                # object under construction by a subclass that stores before DapType.__init__ ran
                tr.owned[id(self)] = self
                tr.allocs.append((tr.stage, _cls(self)))
            if name in TRACKED_FIELDS:
                value = _track(value, name, tr.label, lambda o: tr.owned.__setitem__(id(o), o))
            if not isinstance(getattr(type(self), name, None), property):
                _log(self, _cls(self), name)
        object.__setattr__(self, name, value)

    DapType.__init__ = traced_init
    DapType.__setattr__ = traced_setattr

    def stage_wrapper(mod, fname, stage, after=None):
        orig = getattr(mod, fname)

        def w(*a, **k):
            tr = current()
            if tr is not None:
                tr.stage = stage
            try:
                return orig(*a, **k)
            finally:
                if tr is not None and after:
                    tr.stage = after
        w.__name__ = fname
        w.__wrapped__ = orig
        setattr(mod, fname, w)

    stage_wrapper(hl, "apply_selection", "selection")
    stage_wrapper(hl, "wrap_arrayterator", "wrap")
    stage_wrapper(hl, "apply_projection", "projection", after="response")
    stage_wrapper(ssf, "eval_function", "ssf-eval", after="ssf")
    stage_wrapper(ssf, "apply_projection", "ssf-projection", after="ssf")
    orig_parse = hl.BaseHandler.parse

    def parse(self, *a, **k):
        try:
            return orig_parse(self, *a, **k)
        finally:
            tr = current()
            if tr is not None:
                tr.stage = "response"
    hl.BaseHandler.parse = parse


def share(ds):
    """tag every container of the served dataset as shared (in place); returns the registry of shared objects"""
    reg = {}

    def register(o):
        reg[id(o)] = o

    def go(v):
        reg[id(v)] = v
        for f in TRACKED_FIELDS:
            if f in v.__dict__:
                object.__setattr__(v, f, _track(v.__dict__[f], f, SHARED, register))
        share_stream(v.__dict__.get("_data"), register)
        for c in getattr(v, "_dict", {}).values():
            go(c)
    go(ds)
    return reg


def _tlist(items, what, register):
    out = TList(items)
    out._c13_tag = SHARED
    out._c13_what = what
    register(out)
    return out


def _track_row(row, register, depth=0):
    """a source record: every LIST in it (the record itself, the list of its inner records, an inner record) becomes
    a tracking list tagged shared; tuples are rebuilt around their tracked parts (they cannot be written anyway)"""
    if depth > 3:
        return row
    if type(row) is list:
        return _tlist([_track_row(x, register, depth + 1) for x in row], "source-record" if depth != 1 else "source-inner-records", register)
    if type(row) is tuple:
        return tuple(_track_row(x, register, depth + 1) for x in row)
    return row


def share_stream(data, register):
    """the records held by the source of a lazy data object (IterData.stream) belong to the served dataset: a store
    into one of them (`row[col] = ...` on a list record, `.append/.sort/...`) is a store outside the request.
    A list stream is converted in place; a record array with object columns gets its inner lists converted (stores
    into the array's own fields are seen by the snapshot, numpy offers no hook)."""
    import numpy as np

    stream = getattr(data, "stream", None)
    if getattr(data, "islice", None) is None or stream is None:
        return
    if type(stream) is list:
        seen = {}
        for i, row in enumerate(stream):
            if id(row) not in seen:
                seen[id(row)] = _track_row(row, register)
            stream[i] = seen[id(row)]
    elif isinstance(stream, np.ndarray) and stream.dtype.names:
        for n in stream.dtype.names:
            if stream.dtype[n].hasobject:
                col = stream[n]
                for i in range(len(col)):
                    col[i] = _track_row(col[i], register, 1)


def traced_call(app, url, label, call):
    """run one request under a fresh Trace (current thread); returns (outcome, Trace)"""
    tr = Trace(label)
    _state.trace = tr
    try:
        out = call(app, url)
    finally:
        _state.trace = None
    return out, tr
