"""C18 (metadata consolidation) — helper for harness/props/c18.py, not a check by itself.

Property: "... two requests share a cache entry only if they have the same URL, or, after metadata consolidation, the
same declared shared-dimension constraint under the declared common base", and "with a caching session every read
returns the same data as with a plain session".  This module exercises the function that DECLARES the shared
constraints: the REAL `pydap.client.consolidate_metadata` on a REAL `requests_cache.CachedSession(backend="memory")`,
against an in-process multi-file DAP4 server (harness/oracle/refdap4.py, one reference server per file) behind a
requests transport adapter (name resolution is blocked: the adapter is the only route).

Model: lean/PydapModel/Consolidate.lean (command `cons-run`), theorems `C18_consolidate_*` / `C18_declared_*` /
`C18_consolidated_*` in lean/Props/C18.lean.

(a) correspondence, per generated collection (2–5 files; root dimensions of sizes 0, 1, 2, 3+; a dimension array per
    dimension; same-named data variables with different values per file; optional group with its own dimension;
    query strings; sibling directories; other hosts; the error exits):
      * the GETs handed to the session by the DMR phase and by the pre-fetch phase (each phase as a sorted list: the
        order inside a phase is the thread pool's), as parsed request parts;
      * the outcome (None / TypeError / ValueError / KeyError);
      * the key `session.cache.create_key` gives afterwards to a set of probe requests (every file, a sibling directory,
        another host × every dimension name × last indices -1..max+1, with and without leading '/') — this is how the
        declared constraints and the declared base are observed, without looking at private arguments;
      * a read history (open_url per file, then whole variables, element 0, other elements, slices, dimension arrays, from
        several files, interleaved) through the consolidated session: per GET handed to the session, the request, whether
        it was answered from the store, and WHICH wire request's answer was returned (the adapter stamps every answer
        with the URL that reached it) vs the model's `runTrace` from the store the consolidation left.
(b) direct oracle on the implementation, independent of the model:
      * every read through the consolidated session equals the read through a plain `requests.Session`, through an
        unconsolidated CachedSession, and the file's own values (numpy indexing of the generated arrays);
        EXCLUDED, and counted separately, are only reads that are themselves a declared constraint of the REFERENCE
        declaration (computed here: `d[0:1:n-1]` for the root dimensions (d, n ≥ 1) of the first file) in a collection
        whose files do not all answer that constraint identically (the explicit hypothesis of
        `C18_consolidated_transparent`); in those the read must still be some file's answer to that constraint;
      * two probe requests with the same real key have the same unpatched key, or carry the same reference-declared
        constraint on one scheme/host under the reference base (common directory by path segments).

      * (oracle only) `consolidate_metadata` called twice on one session for two collections in disjoint directory trees
        (the second call wraps the key function of the first), then reads from both: the same judgement.

`replay_case(case) -> bool` re-runs one recorded collection + history on the implementation (True = property holds).
"""
import contextlib
import io
import sys
import warnings
from urllib.parse import unquote, urlsplit

import numpy as np

from oracle import refdap4
from props import c18_cachekey as ck
from props import clientsim as cs

HOST = "dap.test"
MAXSIZE = 9223372036854775807


# ------------------------------------------------------------------------------------------------
# the multi-file server


class FileServer(refdap4.RefServer):
    """the reference server of one file; additionally a hyperslab starting at 0 on an axis of length 0 names the whole
    (empty) axis — how pydap's client asks for an empty array (`v[0:1:9223372036854775806]`)"""

    def dap(self, query):
        if not query.startswith("dap4.ce="):
            raise ValueError("no dap4.ce: %r" % query)
        name, slices = refdap4.parse_dap4_ce(query[len("dap4.ce="):])
        key = name if name.startswith("/") else "/" + name
        arr = self.arrays[key]
        if 0 in arr.shape and len(slices) <= arr.ndim and all(
                (s.start == 0 and s.stop > 0 and s.step >= 1) if n == 0 else
                (0 <= s.start < n and s.start < s.stop and s.step >= 1) for s, n in zip(slices, arr.shape)):
            return self._answer(key, arr[tuple(slices)])
        return super().dap(query)

    def _answer(self, key, sel):
        parts = [p for p in key.split("/") if p]
        decl = [v for path, v in refdap4.walk_vars(self.root) if refdap4.fqn(path, v["name"]) == key][-1]
        node = {"k": "var", "type": decl["type"], "name": parts[-1], "dims": [{"size": int(n)} for n in sel.shape],
                "attrs": [], "maps": []}
        for g in reversed(parts[:-1]):
            node = {"k": "group", "name": g, "items": [node]}
        return refdap4.encode_response(refdap4.render_dmr({"name": self.root["name"], "items": [node]}), [sel],
                                       self.little)


def build_files(coll):
    """collection (JSON) -> {path: (FileServer, arrays)}"""
    out = {}
    for f in coll["files"]:
        items = [{"k": "dim", "name": d, "size": n} for d, n in f["dims"]]
        arrays = {}
        for v in f["vars"]:
            items.append({"k": "var", "type": v["type"], "name": v["name"], "dims": [{"ref": "/" + d} for d in v["dims"]],
                          "attrs": [], "maps": []})
            sizes = dict((d, n) for d, n in f["dims"])
            shape = tuple(sizes[d] for d in v["dims"])
            arrays["/" + v["name"]] = np.array(v["values"], dtype=refdap4.NUMERIC[v["type"]]).reshape(shape)
        g = f.get("group")
        if g:
            gitems = [{"k": "dim", "name": g["dim"], "size": g["size"]},
                      {"k": "var", "type": "Int32", "name": g["dim"], "dims": [{"ref": "/%s/%s" % (g["name"], g["dim"])}],
                       "attrs": [], "maps": []}]
            items.append({"k": "group", "name": g["name"], "items": gitems})
            arrays["/%s/%s" % (g["name"], g["dim"])] = np.arange(g["size"], dtype="i4") + g["offset"]
        root = {"name": f["path"].split("/")[-1], "items": items}
        out[f["path"]] = (FileServer(root, arrays), arrays, f.get("host", HOST))
    return out


def make_app(files):
    def app(env, sr):
        p = env["PATH_INFO"]
        for k, (srv, _, host) in files.items():
            if env.get("SERVER_NAME") == host and p in (k + ".dmr", k + ".dap"):
                return srv(env, sr)
        sr("404 Not Found", [("Content-Type", "text/plain"), ("Content-Length", "4")])
        return [b"nope"]
    return app


class OriginAdapter(cs.WSGIAdapter):
    """the WSGI adapter of clientsim; every answer carries the URL that reached the wire"""

    def send(self, request, **kw):
        r = super().send(request, **kw)
        r.headers["X-Origin"] = request.url
        return r


def new_session(kind, files, wire, handed):
    """kind: plain | cached.  `handed` receives (prepared url, from_cache, origin url) per GET given to the session"""
    import requests
    import requests_cache

    if kind == "plain":
        s = requests.Session()
    else:
        # caching sessions come from pydap's own factory, all on the SAME cache settings (as the default settings
        # are): sessions created side by side are still separate sessions
        from pydap.net import create_session
        s = create_session(use_cache=True, cache_kwargs={"cache_name": "c18_cache", "backend": "memory"})
        if not isinstance(s, requests_cache.CachedSession):
            raise TypeError("create_session(use_cache=True) did not return a CachedSession")
    s.mount("http://", OriginAdapter(make_app(files), wire))
    s.mount("https://", OriginAdapter(make_app(files), wire))
    inner = s.send

    def send(request, **kw):
        r = inner(request, **kw)
        handed.append((request.url, bool(getattr(r, "from_cache", False)), r.headers.get("X-Origin")))
        return r
    s.send = send
    return s


def user_url(f, scheme="dap4"):
    return "%s://%s%s%s" % (f.get("scheme", scheme), f.get("host", HOST), f["path"], "?" + f["query"] if f.get("query") else "")


# ------------------------------------------------------------------------------------------------
# reads


def norm_axis(spec, n):
    """independent normal form of one index on an axis of length n: (start, step, last) as DAP writes it, and the
    numpy index.  Only forms whose DAP rendering is unambiguous are generated: int, all, a:b with 0 <= a < b <= n,
    a:b:s with b <= n"""
    if spec[0] == "all":
        return ((0, 1, n - 1) if n > 0 else (0, 1, MAXSIZE - 1)), slice(None)
    if spec[0] == "int":
        return (spec[1], 1, spec[1]), slice(spec[1], spec[1] + 1)
    a, b, s = spec[1:]
    return (a, s, b - 1), slice(a, b, s)


def gen_axis(rng, n):
    if n == 0:
        return ["all"]
    r = rng.random()
    if r < 0.3:
        return ["all"]
    if r < 0.5:
        return ["int", 0]
    if r < 0.65:
        return ["int", rng.randrange(n)]
    a = rng.randrange(n)
    b = rng.randint(a + 1, n)
    if rng.random() < 0.45:
        a = 0
    return ["sl", a, b, 1 if rng.random() < 0.75 else rng.randint(1, 3)]


def shape_of(f, v):
    if "shape" in v:
        return tuple(v["shape"])
    sizes = dict((d, n) for d, n in f["dims"])
    return tuple(sizes[d] for d in v["dims"])


def all_vars(f):
    """root variables + the group's dimension array (id `/g/d`, as pydap's proxy names it)"""
    out = list(f["vars"])
    g = f.get("group")
    if g:
        out.append({"name": "/%s/%s" % (g["name"], g["dim"]), "shape": [g["size"]], "group": g["name"], "leaf": g["dim"]})
    return out


def find_var(f, name):
    return [x for x in all_vars(f) if x["name"] == name][0]


def proxy_of(ds, v):
    return ds[v["group"]][v["leaf"]].data if "group" in v else ds[v["name"]].data


def gen_reads(rng, coll, n):
    ops = []
    files = coll["files"]
    dimnames = sorted({d for f in files for d, _ in f["dims"]})
    for _ in range(n):
        i = rng.randrange(len(files))
        f = files[i]
        vs = all_vars(f)
        if not vs:
            continue
        r = rng.random()
        cand = [v for v in vs if v["name"] in dimnames or "group" in v] if r < 0.6 else vs
        v = rng.choice(cand or vs)
        shape = shape_of(f, v)
        if 0 in shape:
            idx = [["all"] for _ in shape]
        else:
            idx = [gen_axis(rng, m) for m in shape]
        ops.append([i, v["name"], idx])
    # the pairs the property is about: the same request from two files, element 0 and the whole dimension array
    for d in dimnames:
        have = [i for i, f in enumerate(files) if any(v["name"] == d for v in f["vars"]) and dict(map(tuple, f["dims"])).get(d, 0) > 0]
        if len(have) >= 2 and rng.random() < 0.8:
            for spec in (["int", 0], ["all"]):
                for i in rng.sample(have, 2):
                    ops.append([i, d, [spec]])
    rng.shuffle(ops)
    return ops


def run_reads(kind, coll, files, ops, session=None, handed=None):
    """-> list of results: ('ok', dtype, values list) | ('exc', class)"""
    from pydap.client import open_url

    if session is None:
        session = new_session(kind, files, [], [] if handed is None else handed)
    opened = {}
    out = []
    for i, name, idx in ops:
        f = coll["files"][i]
        try:
            ds = opened.get(i)
            if ds is None:
                # (a query string in the URL is taken for a constraint expression by open_url: open the bare file)
                ds = opened[i] = open_url(user_url(dict(f, query=None)), session=session)
            v = find_var(f, name)
            key = tuple(norm_axis(a, m)[1] for a, m in zip(idx, shape_of(f, v)))
            got = np.asarray(proxy_of(ds, v)[key])
            out.append(("ok", got.dtype.str.lstrip("<>=|"), got.ravel().tolist(), list(got.shape)))
        except Exception as e:  # the oracle compares outcomes; an escaping request dies on name resolution
            out.append(("exc", type(e).__name__, str(e)[:120]))
    return out


def own_values(coll, files, ops):
    out = []
    for i, name, idx in ops:
        f = coll["files"][i]
        v = find_var(f, name)
        arr = files[f["path"]][1][name if name.startswith("/") else "/" + name]
        key = tuple(norm_axis(a, m)[1] for a, m in zip(idx, shape_of(f, v)))
        sel = arr[key]
        out.append(("ok", sel.dtype.str.lstrip("<>=|"), sel.ravel().tolist(), list(sel.shape)))
    return out


def ce_of(name, idx, shape):
    return name + "".join("[%d:%d:%d]" % norm_axis(a, m)[0] for a, m in zip(idx, shape))


# ------------------------------------------------------------------------------------------------
# reference declaration (independent of pydap and of the model)


def ref_declared(coll):
    """what the property lets consolidation declare: `d[0:1:n-1]` for the root dimensions (d, n) of the FIRST file.  For
    n = 0 that is the text `d[0:1:-1]`, which no read of existing elements produces (reads print non-negative numbers)"""
    if not coll["files"]:
        return {}
    f0 = coll["files"][0]
    return {"%s[0:1:%d]" % (d, n - 1): (d, n) for d, n in f0["dims"]}


def ref_base_path(coll):
    """deepest common directory of the file paths, by segments; None when it is the root"""
    dirs = [f["path"].split("/")[:-1] for f in coll["files"]]
    common = []
    for segs in zip(*dirs):
        if len(set(segs)) != 1:
            break
        common.append(segs[0])
    p = "/".join(common)
    return p if p not in ("", "/") else None


def share_group(coll, i):
    """which files may share an entry for a declared constraint: the files on the first file's host (all lie under the
    common directory), or, on the Earthdata host, the files of one provider/collection; any other file shares with nobody"""
    f = coll["files"][i]
    host = f.get("host", HOST)
    if host == ck.EARTHDATA and ck.collection_of(f["path"]) is not None:
        return ("earthdata", ck.collection_of(f["path"]))
    if host == coll["files"][0].get("host", HOST):
        return ("base",)
    return ("alone", i)


def answers_identically(coll, files, d, n, group):
    """the explicit hypothesis for one declared constraint and one sharing group: every file of the group holds a 1-D
    variable d whose first n values equal (same type)"""
    ref = None
    for i, f in enumerate(coll["files"]):
        if share_group(coll, i) != group:
            continue
        arr = files[f["path"]][1].get("/" + d)
        if arr is None or arr.ndim != 1 or arr.shape[0] < n:
            return False
        a = (arr.dtype.str, arr[:n].tolist())
        if ref is None:
            ref = a
        elif a != ref:
            return False
    return True


# ------------------------------------------------------------------------------------------------
# one collection


def probes_for(coll):
    if not coll["files"]:
        return ["http://%s/data/A.nc.dap?dap4.ce=t%%5B0:1:1%%5D" % HOST]
    fs = coll["files"]
    dimnames = sorted({d for f in fs for d, _ in f["dims"]} | {f["group"]["dim"] for f in fs[:1] if f.get("group")})
    top = max([n for f in fs for _, n in f["dims"]] + [1])
    hp = [(f.get("host", HOST), f["path"]) for f in fs]
    h0, p0 = hp[0]
    first_dir = p0.rsplit("/", 1)[0]
    extra = [(h0, first_dir + "2/z.nc"), (h0, "/elsewhere/z.nc"), (h0, first_dir + "/deeper/z.nc"),
             ("other.test", hp[-1][1]), (h0 + ":8080", p0)]
    if any(h == ck.EARTHDATA for h, _ in hp):
        extra += [(ck.EARTHDATA, "/providers/P/collections/C1/granules/zz"), (ck.EARTHDATA, "/providers/P/collections/C9/granules/zz")]
    urls = []
    for d in dimnames:
        for k in range(-1, top + 1):
            for lead in ("", "/"):
                ce = "%s%s%%5B0:1:%d%%5D" % (lead, d, k)
                for h, p in hp + extra:
                    urls.append("http://%s%s.dap?dap4.ce=%s" % (h, p, ce))
                urls.append("https://%s%s.dap?dap4.ce=%s" % (hp[-1][0], hp[-1][1], ce))
    urls.append("http://%s%s.dap?dap4.ce=%s" % (h0, p0, "v%5B0:1:0%5D"))
    urls.append("http://%s%s.dmr" % (h0, p0))
    return urls


def req_sexp(url):
    sch, host, path, ce = ck.parts(url)
    return "(%s %s %s %s %s)" % (ck.tx(sch), ck.tx(host), ck.tx(path), "none" if ce is None else ck.tx(ce), ck.tx(url))


def req_show(url):
    sch, host, path, ce = ck.parts(url)
    return "(%s %s %s %s)" % (ck.tx(sch), ck.tx(host), ck.tx(path), "none" if ce is None else ck.tx(ce))


def file_sexp(f):
    from urllib.parse import parse_qs
    q = f.get("query")
    qce = None
    if q:
        qce = parse_qs(q).get("dap4.ce", [None])[0]
        if qce:
            qce = unquote(qce)
    return "(%s %s %s %s %s (%s))" % (
        ck.tx(f.get("scheme", "dap4")), ck.tx(f.get("host", HOST)), ck.tx(f["path"]), ck.tx(q) if q else "none",
        ck.tx(qce) if qce else "none", " ".join("(%s %d)" % (ck.tx(d), n) for d, n in f["parsed_dims"]))


def parsed_dims(files, f):
    """what pydap's DMR parser makes of this file's DMR (`dataset.dimensions`) — the model's input; the DMR text ->
    dict step is C11's"""
    from pydap.parsers.dmr import DMRParser

    text = refdap4.render_dmr(files[f["path"]][0].root)
    return [[k, int(v)] for k, v in DMRParser(text).init_dataset().dimensions.items()]


def consolidate_real(coll, files):
    """-> (session, handed log of the consolidation, outcome text)"""
    from pydap.client import consolidate_metadata

    handed = []
    kind = "plain" if coll.get("session") == "plain" else "cached"
    s = new_session(kind, files, [], handed)
    urls = [user_url(f) for f in coll["files"]]
    if coll.get("urls_arg") == "tuple":
        urls = tuple(urls)
    with contextlib.redirect_stdout(io.StringIO()), warnings.catch_warnings():
        warnings.simplefilter("ignore")
        try:
            consolidate_metadata(urls, s)
            res = "ok"
        except (TypeError, ValueError, KeyError) as e:
            res = "(err %s)" % type(e).__name__
    # `with session` inside closed the adapters; ours ignore close()
    return s, handed, res


def check_collection(ctx, coll, ops, corr, how="generated"):
    import requests_cache

    files = build_files(coll)
    for f in coll["files"]:
        f["parsed_dims"] = parsed_dims(files, f)
    case = {"collection": coll, "reads": ops, "how": how}
    size = 1000 * len(coll["files"]) + 50 * len(ops) + len(repr(coll))
    ok = True
    # a bystander: another caching session on the same cache settings, created before the consolidation and never
    # consolidated itself; it must keep behaving like any unconsolidated caching session
    by_handed = []
    bystander = new_session("cached", files, [], by_handed)
    s, handed, res = consolidate_real(coll, files)
    cons_log = list(handed)
    del handed[:]
    dmr = sorted(req_show(u) for u, _, _ in cons_log if urlsplit(u).path.endswith(".dmr"))
    dim = sorted(req_show(u) for u, _, _ in cons_log if not urlsplit(u).path.endswith(".dmr"))
    # keys of the probes
    twin = requests_cache.CachedSession(backend="memory")
    import requests
    probes = []
    keys = []
    if coll.get("session") != "plain":
        for u in probes_for(coll):
            p = requests.Request("GET", u).prepare()
            probes.append(p.url)
            keys.append((p.url, s.cache.create_key(p), twin.cache.create_key(p)))
    # the read history through the consolidated session
    got = run_reads("cached", coll, files, ops, session=s)
    trace = ["%s=%s" % (req_show(u), "h:" + req_show(o) if hit else "m") for u, hit, o in handed]
    steps = []
    seen = set()
    for (i, name, idx) in ops:
        f = coll["files"][i]
        if i not in seen:
            seen.add(i)
            du = "http://%s%s.dmr" % (f.get("host", HOST), f["path"])
            steps.append("(get %s)" % req_sexp(requests.Request("GET", du).prepare().url))
        v = find_var(f, name)
        steps.append("(read %d %s (%s))" % (i, ck.tx(name), " ".join(
            "(%d %d %d)" % norm_axis(a, m)[0] for a, m in zip(idx, shape_of(f, v)))))
    line = "cons-run %d (%s) (%s) (%s)" % (0 if coll.get("session") == "plain" else 1,
                                           " ".join(file_sexp(f) for f in coll["files"]),
                                           " ".join(req_sexp(u) for u in probes), " ".join(steps))
    impl = "dmr=(%s) dim=(%s) res=%s keys=(%s) trace=(%s)" % (
        " ".join(dmr), " ".join(dim), res, " ".join(ck.impl_canon(k, pk) for _, k, pk in keys), " ".join(trace))
    meta = dict(case)
    corr.append((line, impl, meta))

    # ---- direct oracle --------------------------------------------------------------------------
    decl = ref_declared(coll)
    base = ref_base_path(coll)
    patched = res == "ok" and coll.get("session") != "plain" and base is not None and \
        all(f.get("scheme", "dap4") == "dap4" for f in coll["files"])
    declares = patched    # (a collection without a common directory raises before anything is declared)
    groups_ = {share_group(coll, i) for i in range(len(coll["files"]))}
    agree = {(c, g): n == 0 or answers_identically(coll, files, d, n, g) for c, (d, n) in decl.items() for g in groups_}
    plain = run_reads("plain", coll, files, ops)
    cached = run_reads("cached", coll, files, ops)
    own = own_values(coll, files, ops)
    if coll.get("session") != "plain":
        by = run_reads("cached", coll, files, ops, session=bystander)
        if by != plain:
            j = next(k for k in range(len(ops)) if by[k] != plain[k])
            ctx.oracle_fail("a read through a caching session that was never consolidated differs from the plain session's "
                            "read after ANOTHER session was consolidated", case,
                            {"read": j, "op": ops[j], "bystander": by[j]}, {"plain": plain[j]}, size=size)
            ok = False
        for u, k, pk in keys[:200]:
            bk = bystander.cache.create_key(requests.Request("GET", u).prepare())
            if bk != pk:
                ctx.oracle_fail("the cache key of a session that was never consolidated changed when another session was "
                                "consolidated", case, {"url": u, "key": bk}, {"plain key": pk}, size=size)
                ok = False
                break
    n_shared_reads = n_excluded = 0
    for j, (i, name, idx) in enumerate(ops):
        f = coll["files"][i]
        v = find_var(f, name)
        ce = ce_of(name, idx, shape_of(f, v))
        if own[j] != plain[j][:4] or plain[j] != cached[j]:
            # my own server / generator, or the unconsolidated cache: not this module's subject, but never silent
            ctx.oracle_fail("a read through a plain or an unconsolidated caching session differs from the file's own values",
                            case, {"read": j, "op": ops[j], "plain": plain[j], "cached": cached[j]}, {"own": own[j]}, size=size)
            ok = False
            continue
        if ce in decl:
            n_shared_reads += 1
        if ce in decl and not agree[(ce, share_group(coll, i))]:
            # excluded by the explicit hypothesis; still: some file's answer to that constraint
            n_excluded += 1
            d, n = decl[ce]
            answers = []
            for gi, g in enumerate(coll["files"]):
                if share_group(coll, gi) != share_group(coll, i):
                    continue
                arr = files[g["path"]][1].get("/" + d)
                if arr is not None and arr.ndim == 1 and arr.shape[0] >= n:
                    answers.append(("ok", arr.dtype.str.lstrip("<>=|"), arr[:n].tolist(), [n]))
            if got[j] not in answers:
                ctx.oracle_fail("a declared shared-dimension read returns what no file of the collection holds", case,
                                {"read": j, "op": ops[j], "ce": ce, "got": got[j]}, {"one of": answers[:4]}, size=size)
                ok = False
            continue
        if got[j] != own[j]:
            ctx.oracle_fail("a read through the consolidated caching session differs from the plain session's read and "
                            "from the file's own values", case,
                            {"read": j, "file": f["path"], "op": ops[j], "ce": ce, "got": got[j]},
                            {"plain": plain[j], "own": own[j], "reference_declared": sorted(decl)}, size=size)
            ok = False
    # keys: share only if same URL or same reference-declared constraint under the reference base
    groups = {}
    for u, k, pk in keys:
        groups.setdefault(k, []).append((u, pk))
    for k, members in groups.items():
        if len({pk for _, pk in members}) < 2:
            continue
        ps = [ck.parts(u) for u, _ in members]
        host0 = coll["files"][0].get("host", HOST)
        same = len({(p[0], p[1], p[3]) for p in ps}) == 1 and ps[0][3] in decl
        good = same and ((patched and ps[0][1] == host0 and all(ck.under_segments(p[2], base) for p in ps)) or
                         (declares and ps[0][1] == ck.EARTHDATA and
                          len({ck.collection_of(p[2]) for p in ps}) == 1 and ck.collection_of(ps[0][2]) is not None))
        if not good:
            ctx.oracle_fail("two requests share a cache key without the same URL or the same declared shared-dimension "
                            "constraint under the declared base", case, {"key": k, "urls": [u for u, _ in members][:4]},
                            {"reference_declared": sorted(decl), "reference_base": base}, size=size)
            ok = False
            break
    n_norm = sum(1 for _, k, pk in keys if k != pk)
    hits_other = sum(1 for u, hit, o in handed if hit and o != u)
    sizes0 = sorted({min(n, 3) for f in coll["files"][:1] for _, n in f["dims"]})
    ctx.count(("cons", repr(coll), repr(ops)), nontrivial=bool(cons_log),
              tag="cons:%s:files=%d:first-dim-sizes=%s:%s:shared-reads=%s:other-file-hits=%s" % (
                  res.strip("()").replace(" ", "-") if cons_log or res != "ok" else "no-op", len(coll["files"]),
                  "".join(str(x) if x < 3 else "3+" for x in sizes0) or "none",
                  "agree" if all(agree.values()) else "disagree",
                  "0" if n_shared_reads == 0 else "1+", "0" if hits_other == 0 else "1+"),
              sample={"files": [f["path"] for f in coll["files"]], "dims0": [f["dims"] for f in coll["files"][:1]], "res": res,
                      "normalised_probe_keys": n_norm, "excluded_reads": n_excluded} if hits_other else None)
    check_collection.last = {
        "res": res, "first_sizes": sizes0, "agree": all(agree.values()), "reads": len(ops), "declared_reads": n_shared_reads,
        "excluded_reads": n_excluded, "other_file_hits": hits_other, "hits": sum(1 for _, hit, _ in handed if hit),
        "probes": len(keys), "normalised_probe_keys": n_norm, "gets": len(cons_log),
        "earthdata": any(f.get("host") == ck.EARTHDATA for f in coll["files"]),
        "other_host": any(f.get("host") == "other.test" for f in coll["files"]),
        "group_reads": sum(1 for o in ops if o[1].startswith("/"))}
    return ok


# ------------------------------------------------------------------------------------------------
# two consolidations on one session (oracle only: the model has one declaration)


def check_double(ctx, coll_a, coll_b, ops_a, ops_b, how="generated"):
    """consolidate_metadata twice on ONE CachedSession, for two collections in disjoint directory trees (the second call
    wraps the key function the first installed), then reads from both, interleaved: every read must still equal the
    file's own values (reads that are a reference-declared constraint of their own collection in a sharing group that does
    not answer it identically are excluded, as above)"""
    from pydap.client import consolidate_metadata

    coll_b = dict(coll_b, files=[dict(f, path="/arch" + f["path"]) for f in coll_b["files"]])
    both = {"files": coll_a["files"] + coll_b["files"]}
    files = build_files(both)
    handed = []
    s = new_session("cached", files, [], handed)
    case = {"collection": coll_a, "second_collection": coll_b, "reads": ops_a, "second_reads": ops_b, "how": how}
    with contextlib.redirect_stdout(io.StringIO()), warnings.catch_warnings():
        warnings.simplefilter("ignore")
        for c in (coll_a, coll_b):
            try:
                consolidate_metadata([user_url(f) for f in c["files"]], s)
            except (TypeError, ValueError, KeyError):
                pass
    na = len(coll_a["files"])
    ops = [(0, o) for o in ops_a] + [(1, o) for o in ops_b]
    ctx.rng("double/%d" % len(repr(case))).shuffle(ops)
    merged = [[o[0] + (na if w else 0), o[1], o[2]] for w, o in ops]
    got = run_reads("cached", both, files, merged, session=s)
    own = own_values(both, files, merged)
    ok = True
    for j, (w, o) in enumerate(ops):
        c = coll_b if w else coll_a
        f = c["files"][o[0]]
        decl = ref_declared(c)
        ce = ce_of(o[1], o[2], shape_of(f, find_var(f, o[1])))
        if ce in decl and decl[ce][1] > 0 and not answers_identically(c, files, decl[ce][0], decl[ce][1], share_group(c, o[0])):
            continue
        if got[j] != own[j]:
            ok = False
            ctx.oracle_fail("after two consolidations on one session a read differs from the file's own values", case,
                            {"read": j, "file": f["path"], "op": o, "ce": ce, "got": got[j]}, {"own": own[j]},
                            size=2000 * len(both["files"]) + len(repr(case)))
    ctx.count(("double", repr(case)), nontrivial=True, tag="cons-twice")
    return ok


def replay_case(case):
    import common

    cs.block_network()
    ctx = common.Ctx("C18", "quick", 0)
    ctx.findings = []
    if "second_collection" in case:
        b = dict(case["second_collection"], files=[dict(f, path=f["path"][len("/arch"):]) for f in case["second_collection"]["files"]])
        ok = check_double(ctx, case["collection"], b, case["reads"], case["second_reads"], how="replay")
    else:
        ok = check_collection(ctx, case["collection"], case["reads"], [], how="replay")
    for fl in ctx.oracle_failures[:3]:
        print(fl["what"], "observed", fl["observed"], "expected", fl["expected"])
    return ok


# ------------------------------------------------------------------------------------------------
# generators

DIMNAMES = ["t", "x", "time", "lat", "d-1", "n_3", "z.9"]
DIRS = ["/data/cube", "/data/cube/sub", "/data/cube/sub/deep", "/data/cube2", "/data/other", "/d"]
TYPES = ["Int32", "Int16", "Float64", "UInt8"]


def make_var(name, typ, dims, shape, offset):
    n = int(np.prod(shape)) if shape else 1
    vals = [(offset + k) % 120 if typ == "UInt8" else offset + k for k in range(n)]
    return {"name": name, "type": typ, "dims": list(dims), "values": vals}


def gen_collection(rng, mode=None):
    """mode: agree | disagree-values | disagree-size | missing-later | only-later | None (drawn)"""
    mode = mode or rng.choice(["agree"] * 5 + ["disagree-values", "disagree-size", "missing-later", "only-later"])
    nfiles = rng.randint(2, 5)
    ndims = rng.randint(1, 3)
    names = rng.sample(DIMNAMES, ndims)
    sizes = [rng.choice([0, 1, 1, 2, 3, 3, 4, 5, 7]) for _ in names]
    types = [rng.choice(TYPES[:3]) for _ in names]
    offs = [rng.choice([0, 5, 40]) for _ in names]
    r = rng.random()
    if r < 0.55:
        dirs = ["/data/cube"] * nfiles
    elif r < 0.9:
        dirs = [rng.choice(DIRS[:5]) for _ in range(nfiles)]
    elif r < 0.95:
        dirs = [rng.choice(DIRS) for _ in range(nfiles)]
    else:
        dirs = [""] * nfiles                       # files at the root: no common base
    vtype = rng.choice(TYPES)
    files = []
    for i in range(nfiles):
        fsizes = list(sizes)
        fnames = list(names)
        foffs = list(offs)
        if i > 0 and mode == "disagree-size":
            k = rng.randrange(ndims)
            fsizes[k] = rng.choice([s for s in (0, 1, 2, 3, 5, 8) if s != sizes[k]])
        if i > 0 and mode == "disagree-values":
            k = rng.randrange(ndims)
            foffs[k] = offs[k] + 10 * i
        dims = [[d, n] for d, n in zip(fnames, fsizes)]
        vs = [make_var(d, ty, [d], (n,), o) for d, n, ty, o in zip(fnames, fsizes, types, foffs)]
        if i > 0 and mode == "missing-later" and rng.random() < 0.7:
            k = rng.randrange(ndims)
            del vs[k]
            if rng.random() < 0.5:
                del dims[k]
        if i > 0 and mode == "only-later" and rng.random() < 0.7:
            dims.append(["extra", 2])
            vs.append(make_var("extra", "Int32", ["extra"], (2,), 0))
        # in the first file a dimension of size 0 next to longer arrays elsewhere: the numeric edge of the declaration
        if i > 0 and mode == "agree":
            for k in range(len(dims)):
                if sizes[k] == 0 and rng.random() < 0.8:
                    dims[k][1] = n = rng.choice([1, 2, 3])
                    vs[k] = make_var(dims[k][0], types[k], [dims[k][0]], (n,), offs[k] + 10 * i)
        dd = dict(map(tuple, dims))
        vd = [d for d in dd][:rng.randint(1, 2)]
        shape = tuple(dd[d] for d in vd)
        vs.append(make_var("v", vtype, vd, shape, 50 * (i + 1)))
        f = {"path": "%s/f%d.nc" % (dirs[i], i), "dims": dims, "vars": vs}
        if rng.random() < 0.1:
            f["query"] = rng.choice(["dap4.checksum=true", "a=1"])
        if rng.random() < 0.15:
            f["group"] = {"name": "g", "dim": rng.choice(["gd", names[0]]), "size": rng.choice([1, 2, 3]), "offset": 7 * i}
        files.append(f)
    r = rng.random()
    if r < 0.06:
        # one file of the collection lives on another host: never under the base (which is on the first file's host)
        files[rng.randrange(nfiles)]["host"] = "other.test"
    elif r < 0.12:
        # an Earthdata collection: grouped by provider/collection, whatever the base
        for i, f in enumerate(files):
            f["host"] = ck.EARTHDATA
            f["path"] = "/providers/P/collections/%s/granules/g%d" % ("C1" if (i < 2 or rng.random() < 0.7) else "C2", i)
    return {"files": files, "mode": mode}


def _f(path, dims, vars_, **kw):
    d = {"path": path, "dims": [list(x) for x in dims], "vars": vars_}
    d.update(kw)
    return d


def fixed_collections():
    t = lambda n, o: make_var("t", "Int32", ["t"], (n,), o)   # noqa: E731
    x2 = make_var("x", "Int32", ["x"], (2,), 0)
    out = []
    # first file: t of size 0 (no records yet); B and C hold different t: nothing of t may be shared
    out.append(({"files": [_f("/data/A.nc", [("t", 0)], [t(0, 0)]), _f("/data/B.nc", [("t", 3)], [t(3, 10)]),
                           _f("/data/C.nc", [("t", 3)], [t(3, 20)])], "mode": "agree"},
                [[1, "t", [["int", 0]]], [2, "t", [["int", 0]]], [1, "t", [["all"]]], [2, "t", [["all"]]],
                 [0, "t", [["all"]]], [2, "t", [["sl", 0, 1, 1]]], [1, "t", [["sl", 0, 1, 1]]]]))
    # size 1: the declared constraint IS element 0
    out.append(({"files": [_f("/data/A.nc", [("t", 1), ("x", 2)], [t(1, 5), x2]),
                           _f("/data/sub/B.nc", [("t", 1), ("x", 2)], [t(1, 5), x2])], "mode": "agree"},
                [[1, "t", [["int", 0]]], [0, "t", [["int", 0]]], [1, "x", [["all"]]], [0, "x", [["int", 0]]],
                 [1, "x", [["int", 0]]], [1, "x", [["sl", 0, 2, 1]]]]))
    # later files are longer but agree on the declared part
    out.append(({"files": [_f("/data/A.nc", [("t", 2)], [t(2, 0)]), _f("/data/B.nc", [("t", 4)], [t(4, 0)])],
                 "mode": "agree"},
                [[1, "t", [["sl", 0, 2, 1]]], [0, "t", [["all"]]], [1, "t", [["all"]]], [1, "t", [["int", 0]]],
                 [0, "t", [["int", 0]]], [1, "t", [["int", 1]]], [0, "t", [["int", 1]]]]))
    # ... and a collection that violates the hypothesis (judged separately)
    out.append(({"files": [_f("/data/A.nc", [("t", 2)], [t(2, 0)]), _f("/data/B.nc", [("t", 2)], [t(2, 30)])],
                 "mode": "disagree-values"},
                [[0, "t", [["all"]]], [1, "t", [["all"]]], [1, "t", [["int", 0]]], [0, "t", [["int", 0]]]]))
    # a dimension only in the second file: KeyError, session left unpatched
    out.append(({"files": [_f("/data/A.nc", [("t", 2)], [t(2, 0)]), _f("/data/B.nc", [("t", 2), ("x", 2)], [t(2, 0), x2])],
                 "mode": "only-later"}, [[0, "t", [["all"]]], [1, "t", [["all"]]], [1, "x", [["all"]]]]))
    # no common directory: ValueError from compute_base_url_prefix, after the DMRs were fetched
    out.append(({"files": [_f("/A.nc", [("t", 2)], [t(2, 0)]), _f("/B.nc", [("t", 2)], [t(2, 9)])], "mode": "agree"},
                [[0, "t", [["all"]]], [1, "t", [["all"]]]]))
    out.append(({"files": [_f("/a/A.nc", [("t", 2)], [t(2, 0)]), _f("/b/B.nc", [("t", 2)], [t(2, 9)])], "mode": "agree"},
                [[0, "t", [["all"]]], [1, "t", [["all"]]]]))
    # the early exits
    out.append(({"files": [_f("/data/A.nc", [("t", 2)], [t(2, 0)])], "mode": "agree"}, [[0, "t", [["all"]]]]))
    out.append(({"files": [_f("/data/A.nc", [("t", 2)], [t(2, 0)], scheme="http"),
                           _f("/data/B.nc", [("t", 2)], [t(2, 9)], scheme="http")], "mode": "agree"}, []))
    out.append(({"files": [_f("/data/A.nc", [("t", 2)], [t(2, 0)], scheme="http"),
                           _f("/data/B.nc", [("t", 2)], [t(2, 9)])], "mode": "agree"}, []))
    out.append(({"files": [_f("/data/A.nc", [("t", 2)], [t(2, 0)]), _f("/data/B.nc", [("t", 2)], [t(2, 0)])],
                 "mode": "agree", "session": "plain"}, []))
    out.append(({"files": [], "mode": "agree"}, []))
    # no dimensions at all: nothing declared, DMRs cached
    out.append(({"files": [_f("/data/A.nc", [], []), _f("/data/B.nc", [], [])], "mode": "agree"}, []))
    # an Earthdata collection (grouped by provider/collection) with a granule of another collection
    ed = lambda c, g: "/providers/P/collections/%s/granules/%s" % (c, g)   # noqa: E731
    out.append(({"files": [_f(ed("C1", "g1"), [("t", 2)], [t(2, 0)], host=ck.EARTHDATA),
                           _f(ed("C1", "g2"), [("t", 2)], [t(2, 0)], host=ck.EARTHDATA),
                           _f(ed("C2", "g3"), [("t", 2)], [t(2, 0)], host=ck.EARTHDATA)], "mode": "agree"},
                [[1, "t", [["all"]]], [2, "t", [["all"]]], [0, "t", [["all"]]], [1, "t", [["int", 0]]], [2, "t", [["int", 0]]]]))
    # the second file on another host: outside the base
    out.append(({"files": [_f("/data/A.nc", [("t", 2)], [t(2, 0)]), _f("/data/B.nc", [("t", 2)], [t(2, 50)], host="other.test"),
                           _f("/data/C.nc", [("t", 2)], [t(2, 0)])], "mode": "agree"},
                [[1, "t", [["all"]]], [2, "t", [["all"]]], [0, "t", [["all"]]], [1, "t", [["int", 0]]]]))
    # a group with a dimension named like the root one, longer: `/g/t[0:1:1]` is not `t[0:1:1]`
    out.append(({"files": [_f("/data/A.nc", [("t", 2)], [t(2, 0)], group={"name": "g", "dim": "t", "size": 3, "offset": 7}),
                           _f("/data/B.nc", [("t", 2)], [t(2, 0)], group={"name": "g", "dim": "t", "size": 3, "offset": 70})],
                 "mode": "agree"},
                [[0, "/g/t", [["sl", 0, 2, 1]]], [1, "/g/t", [["sl", 0, 2, 1]]], [1, "t", [["all"]]], [0, "/g/t", [["all"]]],
                 [1, "/g/t", [["all"]]], [1, "/g/t", [["int", 0]]], [0, "/g/t", [["int", 0]]]]))
    # query strings; a sibling directory: the base is their parent
    out.append(({"files": [_f("/data/cube/A.nc", [("t", 3)], [t(3, 0)], query="dap4.checksum=true"),
                           _f("/data/cube2/B.nc", [("t", 3)], [t(3, 0)])], "mode": "agree"},
                [[0, "t", [["all"]]], [1, "t", [["all"]]], [1, "t", [["int", 0]]], [0, "t", [["int", 0]]]]))
    return out


def explore(ctx, tier):
    cs.block_network()
    corr = []
    from collections import Counter
    st = Counter()

    def tally():
        i = check_collection.last
        st["collections"] += 1
        st["outcome " + i["res"]] += 1
        for z in i["first_sizes"]:
            st["first file has a dimension of size %s" % (z if z < 3 else "3+")] += 1
        st["files agree on the declared arrays" if i["agree"] else "files disagree (outside the hypothesis)"] += 1
        for k in ("reads", "declared_reads", "excluded_reads", "hits", "other_file_hits", "probes", "normalised_probe_keys", "gets",
                  "group_reads"):
            st[k] += i[k]
        st["earthdata collections"] += i["earthdata"]
        st["collections with a file on another host"] += i["other_host"]

    for coll, ops in fixed_collections():
        check_collection(ctx, coll, ops, corr, how="fixed")
        tally()
    rng = ctx.rng("consolidate")
    n = 1200 if ctx.tier == "thorough" else 250 if tier == "thorough" else 60
    for i in range(n):
        coll = gen_collection(rng)
        ops = gen_reads(rng, coll, rng.randint(2, 10))
        check_collection(ctx, coll, ops, corr)
        tally()
    nd = 250 if ctx.tier == "thorough" else 60 if tier == "thorough" else 12
    for i in range(nd):
        a, b = gen_collection(rng), gen_collection(rng)
        for c in (a, b):
            for f in c["files"]:
                f.pop("host", None)
                if f["path"].startswith("/providers/"):
                    f["path"] = "/data/cube" + f["path"]
        check_double(ctx, a, b, gen_reads(rng, a, rng.randint(2, 6)), gen_reads(rng, b, rng.randint(2, 6)))
    st["two consolidations on one session"] = nd
    ctx.notes.append("consolidate_metadata runs: " + ", ".join("%s=%d" % kv for kv in sorted(st.items())))
    ctx.correspond("consolidate_metadata on a CachedSession: GETs, outcome, keys afterwards, read-history trace vs model cons-run",
                   corr)
    return {"collections": n + len(fixed_collections()), "correspondence_cases": len(corr)}
