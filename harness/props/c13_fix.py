"""C13 fixtures: dataset specs -> pydap datasets, request generators, canonical outcomes, deep snapshots.

A dataset *spec* is plain JSON-able data (so that it can go into replays and to the Lean model):
  ["base", name, dtype, shape, attrs]            numpy array np.arange-like content derived from the name
  ["struct", name, attrs, [children]]
  ["grid", name, attrs, dtype, [[dimname, n], ...]]
  ["seq", name, attrs, [[colname, dtype, axis|None], ...], nrows]
  ["lseq", name, attrs, [[colname, dtype, axis|None], ...], nrows, ranged]
        a LAZY sequence: data = pydap.handlers.lib.IterData(rows, seq); with `ranged` the served data object already
        carries a record range: IterData([rows[0]] + rows, seq)[1:]
"""
import re
import zlib

import numpy as np

import common  # noqa: F401  (puts $VERIF_REPO/src on sys.path)

RESPONSES = ["dds", "das", "dods", "ascii", "asc", "ver", "html", "dmr"]


# ---------------------------------------------------------------------------------------------
def _vals(name, dtype, n):
    base = zlib.crc32(name.encode()) % 7
    if dtype.startswith("S"):
        words = ["", "a", "bc", "def", "ghij", "klmno"]
        return np.array([words[(base + i) % len(words)] for i in range(n)])
    return ((np.arange(n) * 3 + base) % 11).astype(dtype)


def build_var(spec):
    from pydap.model import BaseType, GridType, SequenceType, StructureType

    kind = spec[0]
    if kind == "base":
        _, name, dtype, shape, attrs = spec
        n = int(np.prod(shape)) if shape else 1
        data = _vals(name, dtype, n)
        data = data.reshape(shape) if shape else data[0]
        dims = tuple("%s_d%d" % (name, i) for i in range(len(shape)))
        return BaseType(name, data, dims=dims, attributes=_attrs(attrs))
    if kind == "struct":
        _, name, attrs, children = spec
        out = StructureType(name, attributes=_attrs(attrs))
        for c in children:
            out[c[1]] = build_var(c)
        return out
    if kind == "grid":
        _, name, attrs, dtype, dims = spec
        out = GridType(name, attributes=_attrs(attrs))
        shape = [n for _, n in dims]
        out[name] = BaseType(name, _vals(name, dtype, int(np.prod(shape))).reshape(shape),
                             dims=tuple(d for d, _ in dims))
        for d, n in dims:
            out[d] = BaseType(d, np.arange(n, dtype="f4") * 2 + 1, dims=(d,), attributes={"axis": d[-1].upper()})
        return out
    if kind == "seq":
        _, name, attrs, cols, nrows = spec
        out = SequenceType(name, attributes=_attrs(attrs))
        for cname, dtype, axis in cols:
            out[cname] = BaseType(cname, attributes=({"axis": axis} if axis else {}))
        arr = np.zeros(nrows, dtype=[(c, ("S5" if dt.startswith("S") else dt)) for c, dt, _ in cols])
        for cname, dtype, _ in cols:
            arr[cname] = _vals(cname, dtype, nrows)
        out.data = arr
        return out
    if kind == "lseq":
        from pydap.handlers.lib import IterData

        _, name, attrs, cols, nrows, ranged = spec
        out = SequenceType(name, attributes=_attrs(attrs))
        for cname, dtype, axis in cols:
            out[cname] = BaseType(cname, attributes=({"axis": axis} if axis else {}))
        columns = [_vals(cname, dtype, nrows).tolist() for cname, dtype, _ in cols]
        rows = [tuple(c[i] for c in columns) for i in range(nrows)]
        out.data = IterData([rows[0]] + rows, out)[1:] if (ranged and rows) else IterData(rows, out)
        return out
    raise ValueError(kind)


def is_seq(v):
    return v[0] in ("seq", "lseq")


def _attrs(a):
    # fresh containers on every build (nested dict and list included)
    out = {}
    for k, v in (a or {}).items():
        out[k] = {kk: (list(vv) if isinstance(vv, list) else vv) for kk, vv in v.items()} if isinstance(v, dict) \
            else list(v) if isinstance(v, list) else v
    return out


def build_dataset(spec):
    from pydap.model import DatasetType

    ds = DatasetType(spec["name"], attributes=_attrs(spec.get("attrs")))
    for v in spec["vars"]:
        ds[v[1]] = build_var(v)
    return ds


def freeze(ds):
    """make every numpy array of the served dataset read-only: an in-place write raises"""
    from pydap.lib import walk
    from pydap.model import BaseType, SequenceType

    for var in walk(ds):
        if isinstance(var, (BaseType, SequenceType)) and isinstance(var.data, np.ndarray):
            var.data.flags.writeable = False
    return ds


def make_app(spec, frozen=True):
    from pydap.handlers.lib import BaseHandler
    from pydap.wsgi.ssf import ServerSideFunctions

    ds = build_dataset(spec)
    if frozen:
        freeze(ds)
    handler = BaseHandler(ds)
    return ServerSideFunctions(handler), handler, ds


# ---------------------------------------------------------------------------------------------
FIXED_SPEC = {
    "name": "d", "attrs": {"title": "t", "NC_GLOBAL": {"history": "h", "n": [1, 2]}},
    "vars": [
        ["base", "a", "i4", [10], {"units": "m", "nested": {"k": 1}}],
        ["base", "b", "f8", [3, 4], {}],
        ["base", "u", "u1", [5], {}],
        ["base", "t", "S", [3], {}],
        ["base", "k", "i2", [], {"scalar": 1}],
        ["grid", "g", {"long_name": "grid"}, "i2", [["gx", 2], ["gy", 3]]],
        ["struct", "st", {"foo": "bar"}, [["base", "p", "i4", [], {}], ["base", "q", "f4", [3], {}],
                                           ["struct", "in", {}, [["base", "r", "i4", [2], {}]]]]],
        ["seq", "s", {"note": "seq"}, [["i", "i4", "x"], ["f", "f8", "y"], ["w", "S", None]], 5],
    ],
}

FIXED_REQUESTS = [
    "/d.dds", "/d.das", "/d.dods", "/d.ascii", "/d.asc", "/d.ver", "/d.dmr", "/d.html",
    "/d.dods?a", "/d.dods?a[1:2:7]", "/d.dods?b[0:1][1:2]", "/d.ascii?b[0:1][1:2]", "/d.dods?g", "/d.dods?g[0:1][1:2]",
    "/d.dods?g.g[0][0:2]", "/d.dods?st.p", "/d.dods?st", "/d.dds?st.q[0:1]", "/d.dods?st.in.r[1]", "/d.dods?s",
    "/d.dods?s.i,s.w", "/d.dods?s&s.i>1", "/d.ascii?s.w&s.i>=2&s.f<3", "/d.dods?s[0:2:3]", "/d.dods?s.i[1:2]", "/d.dds?p",
    "/d.dods?i", "/d.dods?mean(b,0)", "/d.dods?mean(g,1)", "/d.dods?mean(a)", "/d.ascii?a,mean(b,1)",
    "/d.dods?s&bounds(0,5,0,5,0,5,00Z01JAN1970,00Z01JAN1970)", "/d.dods?s.i&bounds(1,1,0,9,0,9,00Z01JAN1970,00Z01JAN1970)",
    "/d.dods?a[x]", "/d.dods?nope", "/d", "/d.foo", "/d.dods?a[1:2:3:4]", "/d.dods?s&s.zz>1", "/d.dods?s&s.i>",
    "/d.dods?nofunc(a)", "/d.dods?a[20:30]", "/d.dods?t", "/d.ascii?t[0:1]", "/d.das?a", "/d.dods?u[1:3]", "/d.dods?k",
    "/d.dods?mean(s,0)", "/d.dods?s.w&s.w=\"bc\"", "/d.dods?a,a", "/d.dods?g.gx,g.g", "/d.ascii?s&s.i<4&s.i>0",
    # shorthand names (a nested variable named without its container) beside a function call
    "/d.dods?p,mean(b,0)", "/d.dds?q,mean(g,1)", "/d.ascii?r,mean(a)", "/d.dods?i,mean(b,1)",
]


# lazy sequences (IterData): a plain one and one whose served data object already carries a record range
LAZY_SPEC = {
    "name": "d", "attrs": {"title": "lazy"},
    "vars": [
        ["base", "a", "i4", [6], {"units": "m"}],
        ["lseq", "s", {"note": "lazy"}, [["i", "i4", "x"], ["f", "f8", "y"], ["w", "S", None]], 9, False],
        ["lseq", "r", {"note": "ranged"}, [["j", "i4", "x"], ["g", "f8", None]], 7, True],
    ],
}

LAZY_REQUESTS = [
    "/d.dds", "/d.das", "/d.dods", "/d.ascii", "/d.asc", "/d.ver", "/d.dmr", "/d.html",
    "/d.dods?s", "/d.dods?r", "/d.ascii?s", "/d.ascii?r", "/d.dods?s[1:1:8]", "/d.dods?r[1:1:8]", "/d.ascii?s[1:1:8]",
    "/d.ascii?r[0:2:5]", "/d.dods?s[2:3]", "/d.dods?r[3]", "/d.dods?s.i", "/d.dods?s.i,s.w", "/d.ascii?r.g", "/d.dods?r.j[1:2]",
    "/d.ascii?s.w[1:1:8]", "/d.dods?s&s.i>1", "/d.ascii?s.w&s.i>=2&s.f<9", "/d.dods?r&r.j<7", "/d.ascii?r.g&r.j!=3",
    "/d.dds?s[1:1:8]", "/d.das?s", "/d.dods?i", "/d.dods?s&bounds(0,9,0,9,0,9,00Z01JAN1970,00Z01JAN1970)",
    "/d.dods?a[1:2:5]", "/d.dods?s[x]", "/d.dods?s&s.zz>1", "/d.dods?r.nope", "/d.dods?mean(s,0)",
]


def rand_spec(rng):
    """a random dataset: 2..6 top-level variables, nesting to depth 2, globally unique names"""
    names = iter(["v%d" % i for i in range(100)])
    ints = ["i4", "i2", "u1", "f4", "f8", "u2", "u4"]

    def attrs():
        r = rng.random()
        if r < 0.4:
            return {}
        if r < 0.7:
            return {"units": "m"}
        return {"units": "m", "meta": {"k": 1, "l": [1, 2]}, "flags": [0, 1]}

    def base(depth):
        rank = rng.choice([0, 1, 1, 2, 3])
        shape = [rng.randint(1, 4) for _ in range(rank)]
        return ["base", next(names), rng.choice(ints + ["S"]), shape, attrs()]

    def var(depth):
        r = rng.random()
        if r < 0.45 or depth >= 2:
            return base(depth)
        if r < 0.65:
            return ["struct", next(names), attrs(), [var(depth + 1) for _ in range(rng.randint(1, 3))]]
        if r < 0.8:
            n = next(names)
            return ["grid", n, attrs(), rng.choice(ints), [[n + "x", rng.randint(1, 3)], [n + "y", rng.randint(1, 4)]][:rng.randint(1, 2)]]
        cols = [[next(names), rng.choice(["i4", "f8", "i2", "S"]), ax] for ax in
                rng.sample(["x", "y", "z", None, None], rng.randint(1, 4))]
        if rng.random() < 0.25:
            return ["lseq", next(names), attrs(), cols, rng.randint(1, 6), rng.random() < 0.5]
        return ["seq", next(names), attrs(), cols, rng.randint(0, 6)]

    return {"name": "d", "attrs": attrs(), "vars": [var(0) for _ in range(rng.randint(2, 6))]}


def leaves(spec):
    """[(path tuple, spec)] of every variable (containers included)"""
    out = []

    def go(v, path):
        p = path + (v[1],)
        out.append((p, v))
        if v[0] == "struct":
            for c in v[3]:
                go(c, p)
    for v in spec["vars"]:
        go(v, ())
    return out


def hyperslab(rng, shape):
    out = ""
    for n in shape:
        a = rng.randint(0, n - 1)
        b = rng.randint(a, n - 1)
        k = rng.randint(1, 3)
        out += rng.choice(["[%d:%d:%d]" % (a, k, b), "[%d:%d]" % (a, b), "[%d]" % a])
    return out


MALFORMED_CE = ["a[x]", "nope", "v0[1:2:3:4]", "v1[", "&&", "v0&v0.zz>1", "v1>", "nofunc(v0)", "v0[90:99]", "mean(v0,9)",
                "mean()", "v0[0:1][0:1][0:1][0:1][0:1]", "dap4.ce=v0", "v0.nope", "%", "v0,v0", "mean(nope)", "v1.v2.v3"]


def rand_request(rng, spec, kind=None):
    """(url, kind) with kind in plain|proj|slab|sel|func|malformed"""
    kind = kind or rng.choice(["plain", "proj", "proj", "slab", "slab", "sel", "sel", "func", "func", "malformed"])
    resp = rng.choice(["dods", "dods", "dods", "ascii", "dds", "das", "asc"] + RESPONSES)
    lv = leaves(spec)
    if kind == "plain":
        return "/d.%s" % resp, kind
    if kind == "malformed":
        if rng.random() < 0.25:
            return rng.choice(["/d", "/d.foo", "/d.", "/.dods", "/d.dods.x"]), kind
        return "/d.%s?%s" % (resp, rng.choice(MALFORMED_CE)), kind
    seqs = [(p, v) for p, v in lv if is_seq(v)]
    if kind == "sel" and not seqs:
        kind = "proj"
    if kind in ("proj", "slab"):
        parts = []
        for p, v in rng.sample(lv, rng.randint(1, min(3, len(lv)))):
            name = ".".join(p) if rng.random() < 0.8 else p[-1]          # full id or shorthand
            if is_seq(v) and rng.random() < 0.6:
                col = rng.choice(v[3])[0]
                name = ".".join(p + (col,))
                if kind == "slab" and v[4] > 0 and rng.random() < 0.5:
                    name += hyperslab(rng, [v[4]])
            elif v[0] == "grid" and rng.random() < 0.4:
                name = ".".join(p + (rng.choice([v[1]] + [d for d, _ in v[4]]),))
            elif kind == "slab":
                if v[0] == "base" and v[3]:
                    name += hyperslab(rng, v[3])
                elif v[0] == "grid":
                    name += hyperslab(rng, [n for _, n in v[4]])
                elif is_seq(v) and v[4] > 0:
                    name += hyperslab(rng, [v[4]])
            parts.append(name)
        return "/d.%s?%s" % (resp, ",".join(parts)), kind
    if kind == "sel":
        p, v = rng.choice(seqs)
        sid = ".".join(p)
        proj = rng.choice([sid, sid, ".".join(p + (rng.choice(v[3])[0],)), ""])
        clauses = []
        for _ in range(rng.randint(1, 3)):
            c = rng.choice(v[3])
            if c[1] == "S":
                clauses.append('%s.%s%s"%s"' % (sid, c[0], rng.choice(["=", "!="]), rng.choice(["a", "bc", ""])))
            else:
                clauses.append("%s.%s%s%d" % (sid, c[0], rng.choice(["<", "<=", ">", ">=", "=", "!="]), rng.randint(0, 10)))
        return "/d.%s?%s&%s" % (resp, proj, "&".join(clauses)), kind
    # server-side functions
    arrays = [(p, v) for p, v in lv if (v[0] == "base" and v[3] and v[2] != "S" and len(p) == 1) or (v[0] == "grid" and len(p) == 1)]
    if seqs and (not arrays or rng.random() < 0.4):
        p, v = rng.choice(seqs)
        sid = ".".join(p)
        lo, hi = sorted([rng.randint(0, 10), rng.randint(0, 10)])
        args = "%d,%d,%d,%d,0,10,00Z01JAN1970,00Z01JAN1970" % (lo, hi, rng.randint(0, 3), rng.randint(4, 10))
        proj = rng.choice([sid, ".".join(p + (rng.choice(v[3])[0],))])
        extra = ""
        if rng.random() < 0.3:
            c = [c for c in v[3] if c[1] != "S"]
            if c:
                extra = "&%s.%s>%d" % (sid, c[0][0], rng.randint(0, 5))
        return "/d.%s?%s&bounds(%s)%s" % (resp, proj, args, extra), "func"
    if arrays:
        p, v = rng.choice(arrays)
        rank = len(v[3]) if v[0] == "base" else len(v[4])
        call = "mean(%s,%d)" % (p[0], rng.randint(0, rank - 1))
        if rng.random() < 0.2 and rank > 1:
            call = "mean(%s,0)" % call
        others = [pp[0] for pp, vv in lv if len(pp) == 1 and pp[0] != p[0]]
        if others and rng.random() < 0.5:
            call = rng.choice(others) + "," + call
        return "/d.%s?%s" % (resp, call), "func"
    return "/d.%s" % resp, "plain"


# ---------------------------------------------------------------------------------------------
_ADDR = re.compile(r"0x[0-9a-fA-F]+")


def call(app, url):
    """canonical outcome of one request: (status, sorted headers, body) or ('escaped', class, message)"""
    from webob import Request

    req = Request.blank(url)
    try:
        res = req.get_response(app)
        body = res.body
        status = res.status
        if not status.startswith("200"):
            body = _ADDR.sub("0x", body.decode("latin-1")).encode("latin-1")
        return (status, tuple(sorted((k, v) for k, v in res.headerlist)), body)
    except Exception as e:
        return ("escaped", type(e).__name__, _ADDR.sub("0x", str(e))[:300])


def show(outcome):
    s, h, b = outcome
    if s == "escaped":
        return "escaped:%s:%s" % (h, b[:80])
    return "%s len=%d crc=%08x head=%r" % (s, len(b), zlib.crc32(b), b[:40])


def snapshot(ds):
    """deep, order-sensitive snapshot of a served dataset: structure, hidden children, ids, attributes, data"""
    from pydap.model import BaseType, SequenceType, StructureType

    from props import c13_modstate as M

    def data(d):
        if isinstance(d, np.ndarray):
            return ("nd", str(d.dtype), d.shape, d.tobytes())
        # any other data object (IterData: stream, template, ifilter/imap/islice lists, level): its whole state,
        # address-free, and for a lazy stream the records it yields now
        rows = None
        if hasattr(d, "islice") and hasattr(d, "stream"):
            try:
                rows = repr(list(iter(d)))
            except Exception as e:
                rows = "raises %s" % type(e).__name__
        return ("obj", type(d).__name__, repr(M.fp(d)), rows)

    def attrs(a):
        return repr(a)

    def go(v):
        head = (type(v).__name__, v.name, v.id, attrs(v.attributes), tuple(sorted(k for k in v.__dict__)))
        if isinstance(v, BaseType):
            return head + (data(v.data), tuple(v.dims))
        if isinstance(v, StructureType):
            extra = data(v.data) if isinstance(v, SequenceType) else None
            return head + (tuple(v._visible_keys), tuple(v._dict.keys()), extra,
                           tuple(go(c) for c in v._dict.values()))
        return head
    return go(ds)
