"""C13 fixtures: dataset specs -> pydap datasets, request generators, canonical outcomes, deep snapshots.

A dataset *spec* is plain JSON-able data (so that it can go into replays and to the Lean model):
  ["base", name, dtype, shape, attrs]            numpy array np.arange-like content derived from the name
  ["struct", name, attrs, [children]]
  ["grid", name, attrs, dtype, [[dimname, n], ...]]
  ["seq", name, attrs, [[colname, dtype, axis|None], ...], nrows]
  ["lseq", name, attrs, [[colname, dtype, axis|None], ...], nrows, ranged]
        a LAZY sequence: data = pydap.handlers.lib.IterData(rows, seq); with `ranged` the served data object already
        carries a record range: IterData([rows[0]] + rows, seq)[1:]
  ["nseq", name, attrs, [[colname, dtype, axis|None], ...], nrows, rep, [inner name, [[colname, dtype], ...], pos], ranged]
        a NESTED lazy sequence (one inner level): the outer sequence has the base columns and, at child position
        `pos`, an inner sequence of base columns; data = IterData(rows, seq) where every row carries the list of its
        inner records.  `rep` says how the SOURCE holds the records (all legal for an IterData stream):
          "tuple"     rows are tuples, inner records a list of tuples   (what pydap's own tests use)
          "list"      rows are lists (csv.reader / json.load), inner records a list of tuples
          "listlist"  rows are lists, inner records a list of lists
          "nprec"     rows are the records (numpy.void) of a structured array whose inner column has dtype object
          "tlist"     rows are tuples, inner records a list of lists
  ["alias", name, of]      the very BaseType OBJECT of the top-level variable `of` placed a second time, inside a
                           structure (only as a child of a "struct"): one object reachable through two containers
  ["view", name, of, start, step]   a BaseType whose array is a strided VIEW of the buffer of top-level array `of`
  a "grid" may carry a 6th element {dim: other grid}: that map's BaseType data is the SAME ndarray as the other grid's
  "attrs" values may be {"__nd__": [dtype, [values]]}: a (writeable) numpy array as attribute value
"""
import re
import zlib

import numpy as np

import common  # noqa: F401  (puts $VERIF_REPO/src on sys.path)

RESPONSES = ["dds", "das", "dods", "ascii", "asc", "ver", "html", "dmr"]


# ---------------------------------------------------------------------------------------------
def _vals(name, dtype, n):
    base = zlib.crc32(name.encode()) % 7
    if dtype.startswith("S"):
        words = ["", "a", "bc", "def", "ghij", "klmno"]
        return np.array([words[(base + i) % len(words)] for i in range(n)])
    return ((np.arange(n) * 3 + base) % 11).astype(dtype)


def build_var(spec, top=None):
    """`top`: the top-level variables built so far (name -> object), for alias / view / shared maps"""
    from pydap.model import BaseType, GridType, SequenceType, StructureType

    kind = spec[0]
    top = top if top is not None else {}
    if kind == "alias":
        return top[spec[2]]
    if kind == "view":
        _, name, of, start, step = spec
        return BaseType(name, top[of].data[start::step], dims=("%s_d0" % name,))
    if kind == "base":
        _, name, dtype, shape, attrs = spec
        n = int(np.prod(shape)) if shape else 1
        data = _vals(name, dtype, n)
        data = data.reshape(shape) if shape else data[0]
        dims = tuple("%s_d%d" % (name, i) for i in range(len(shape)))
        return BaseType(name, data, dims=dims, attributes=_attrs(attrs))
    if kind == "struct":
        _, name, attrs, children = spec
        out = StructureType(name, attributes=_attrs(attrs))
        for c in children:
            out[c[1] if c[0] != "alias" else c[2]] = build_var(c, top)
        return out
    if kind == "grid":
        _, name, attrs, dtype, dims = spec[:5]
        shared = spec[5] if len(spec) > 5 else {}
        out = GridType(name, attributes=_attrs(attrs))
        shape = [n for _, n in dims]
        out[name] = BaseType(name, _vals(name, dtype, int(np.prod(shape))).reshape(shape),
                             dims=tuple(d for d, _ in dims))
        for d, n in dims:
            data = top[shared[d]][d].data if d in shared else np.arange(n, dtype="f4") * 2 + 1
            out[d] = BaseType(d, data, dims=(d,), attributes={"axis": d[-1].upper()})
        return out
    if kind == "seq":
        _, name, attrs, cols, nrows = spec
        out = SequenceType(name, attributes=_attrs(attrs))
        for cname, dtype, axis in cols:
            out[cname] = BaseType(cname, attributes=({"axis": axis} if axis else {}))
        arr = np.zeros(nrows, dtype=[(c, ("S5" if dt.startswith("S") else dt)) for c, dt, _ in cols])
        for cname, dtype, _ in cols:
            arr[cname] = _vals(cname, dtype, nrows)
        out.data = arr
        return out
    if kind == "nseq":
        return build_nested(spec)
    if kind == "lseq":
        from pydap.handlers.lib import IterData

        _, name, attrs, cols, nrows, ranged = spec
        out = SequenceType(name, attributes=_attrs(attrs))
        for cname, dtype, axis in cols:
            out[cname] = BaseType(cname, attributes=({"axis": axis} if axis else {}))
        columns = [_vals(cname, dtype, nrows).tolist() for cname, dtype, _ in cols]
        rows = [tuple(c[i] for c in columns) for i in range(nrows)]
        out.data = IterData([rows[0]] + rows, out)[1:] if (ranged and rows) else IterData(rows, out)
        return out
    raise ValueError(kind)


REPS = ["tuple", "list", "listlist", "nprec", "tlist"]


def nested_rows(spec):
    """the source records of a nested lazy sequence in the representation its spec names (fresh objects on every call)"""
    _, name, attrs, cols, nrows, rep, inner = spec[:7]
    iname, icols, pos = inner
    columns = [_vals(cname, dtype, nrows).tolist() for cname, dtype, _ in cols]
    rows = []
    for i in range(nrows):
        k = (zlib.crc32(("%s.%s" % (name, iname)).encode()) + 3 * i) % 4
        icolumns = [_vals("%s%d" % (cname, i), dtype, k).tolist() for cname, dtype in icols]
        irecs = [tuple(c[j] for c in icolumns) for j in range(k)]
        if rep in ("listlist", "tlist"):
            irecs = [list(r) for r in irecs]
        row = [c[i] for c in columns]
        row.insert(pos, irecs)
        rows.append(row)
    if rep in ("tuple", "tlist"):
        return [tuple(r) for r in rows]
    if rep in ("list", "listlist"):
        return rows
    if rep == "nprec":
        names = [c for c, _, _ in cols]
        names.insert(pos, iname)
        kinds = [("U5" if dt.startswith("S") else dt) for _, dt, _ in cols]
        kinds.insert(pos, "O")
        arr = np.empty(nrows, dtype=list(zip(names, kinds)))
        for i, r in enumerate(rows):
            for n, v in zip(names, r):
                arr[n][i] = v
        return arr
    raise ValueError(rep)


def build_nested(spec):
    from pydap.handlers.lib import IterData
    from pydap.model import BaseType, SequenceType

    _, name, attrs, cols, nrows, rep, inner = spec[:7]
    ranged = len(spec) > 7 and spec[7]
    iname, icols, pos = inner
    out = SequenceType(name, attributes=_attrs(attrs))
    kids = [BaseType(cname, attributes=({"axis": axis} if axis else {})) for cname, dtype, axis in cols]
    isq = SequenceType(iname, attributes={"note": "inner"})
    for cname, dtype in icols:
        isq[cname] = BaseType(cname)
    kids.insert(pos, isq)
    for k in kids:
        out[k.name] = k
    rows = nested_rows(spec)
    if ranged and nrows:
        first = rows[:1]
        rows = np.concatenate([first, rows]) if rep == "nprec" else list(first) + list(rows)
        out.data = IterData(rows, out)[1:]
    else:
        out.data = IterData(rows, out)
    return out


def is_seq(v):
    return v[0] in ("seq", "lseq", "nseq")


def is_lazy(v):
    return v[0] in ("lseq", "nseq")


def _attrs(a):
    # fresh containers on every build (nested dict and list included)
    out = {}
    for k, v in (a or {}).items():
        if isinstance(v, dict) and "__nd__" in v:
            out[k] = np.array(v["__nd__"][1], dtype=v["__nd__"][0])      # a writeable array as attribute value
            continue
        out[k] = {kk: (list(vv) if isinstance(vv, list) else vv) for kk, vv in v.items()} if isinstance(v, dict) \
            else list(v) if isinstance(v, list) else v
    return out


def build_dataset(spec):
    from pydap.model import DatasetType

    ds = DatasetType(spec["name"], attributes=_attrs(spec.get("attrs")))
    top = {}
    for v in spec["vars"]:
        top[v[1]] = build_var(v, top)
        ds[v[1]] = top[v[1]]
    return ds


def freeze(ds):
    """make every numpy array of the served dataset read-only: an in-place write raises"""
    from pydap.lib import walk
    from pydap.model import BaseType, SequenceType

    for var in walk(ds):
        if isinstance(var, (BaseType, SequenceType)) and isinstance(var.data, np.ndarray):
            var.data.flags.writeable = False
    return ds


_CSV_DIR = []


def csv_path(spec):
    """the CSV file of a {"csv": True} spec (written once per process into a private directory; the handler re-opens it
    for every iteration, so every request reads its own, freshly allocated, list records)"""
    import csv
    import os
    import tempfile

    if not _CSV_DIR:
        import atexit
        import shutil

        _CSV_DIR.append(tempfile.mkdtemp(prefix="c13csv-"))
        owner = os.getpid()
        atexit.register(lambda d=_CSV_DIR[0]: shutil.rmtree(d, ignore_errors=True) if os.getpid() == owner else None)
    _, name, attrs, cols, nrows, _ = spec["vars"][0]
    path = os.path.join(_CSV_DIR[0], "%08x.csv" % zlib.crc32(repr(spec).encode()))
    if not os.path.exists(path):
        columns = [_vals(c, dt, nrows).tolist() for c, dt, _ in cols]
        with open(path + ".tmp", "w", newline="") as f:
            w = csv.writer(f, quoting=csv.QUOTE_NONNUMERIC)
            w.writerow([c for c, _, _ in cols])
            for i in range(nrows):
                w.writerow([float(c[i]) if not isinstance(c[i], str) else c[i] for c in columns])
        os.replace(path + ".tmp", path)
    return path


def make_app(spec, frozen=True):
    from pydap.handlers.lib import BaseHandler
    from pydap.wsgi.ssf import ServerSideFunctions

    if spec.get("csv"):
        from pydap.handlers.csv import CSVHandler

        handler = CSVHandler(csv_path(spec))
        return ServerSideFunctions(handler), handler, handler.dataset
    ds = build_dataset(spec)
    if frozen:
        freeze(ds)
    handler = BaseHandler(ds)
    return ServerSideFunctions(handler), handler, ds


# ---------------------------------------------------------------------------------------------
FIXED_SPEC = {
    "name": "d", "attrs": {"title": "t", "NC_GLOBAL": {"history": "h", "n": [1, 2]}},
    "vars": [
        ["base", "a", "i4", [10], {"units": "m", "nested": {"k": 1}}],
        ["base", "b", "f8", [3, 4], {}],
        ["base", "u", "u1", [5], {}],
        ["base", "t", "S", [3], {}],
        ["base", "k", "i2", [], {"scalar": 1}],
        ["grid", "g", {"long_name": "grid"}, "i2", [["gx", 2], ["gy", 3]]],
        ["struct", "st", {"foo": "bar"}, [["base", "p", "i4", [], {}], ["base", "q", "f4", [3], {}],
                                           ["struct", "in", {}, [["base", "r", "i4", [2], {}]]]]],
        ["seq", "s", {"note": "seq"}, [["i", "i4", "x"], ["f", "f8", "y"], ["w", "S", None]], 5],
    ],
}

FIXED_REQUESTS = [
    "/d.dds", "/d.das", "/d.dods", "/d.ascii", "/d.asc", "/d.ver", "/d.dmr", "/d.html",
    "/d.dods?a", "/d.dods?a[1:2:7]", "/d.dods?b[0:1][1:2]", "/d.ascii?b[0:1][1:2]", "/d.dods?g", "/d.dods?g[0:1][1:2]",
    "/d.dods?g.g[0][0:2]", "/d.dods?st.p", "/d.dods?st", "/d.dds?st.q[0:1]", "/d.dods?st.in.r[1]", "/d.dods?s",
    "/d.dods?s.i,s.w", "/d.dods?s&s.i>1", "/d.ascii?s.w&s.i>=2&s.f<3", "/d.dods?s[0:2:3]", "/d.dods?s.i[1:2]", "/d.dds?p",
    "/d.dods?i", "/d.dods?mean(b,0)", "/d.dods?mean(g,1)", "/d.dods?mean(a)", "/d.ascii?a,mean(b,1)",
    "/d.dods?s&bounds(0,5,0,5,0,5,00Z01JAN1970,00Z01JAN1970)", "/d.dods?s.i&bounds(1,1,0,9,0,9,00Z01JAN1970,00Z01JAN1970)",
    "/d.dods?a[x]", "/d.dods?nope", "/d", "/d.foo", "/d.dods?a[1:2:3:4]", "/d.dods?s&s.zz>1", "/d.dods?s&s.i>",
    "/d.dods?nofunc(a)", "/d.dods?a[20:30]", "/d.dods?t", "/d.ascii?t[0:1]", "/d.das?a", "/d.dods?u[1:3]", "/d.dods?k",
    "/d.dods?mean(s,0)", "/d.dods?s.w&s.w=\"bc\"", "/d.dods?a,a", "/d.dods?g.gx,g.g", "/d.ascii?s&s.i<4&s.i>0",
    # shorthand names (a nested variable named without its container) beside a function call
    "/d.dods?p,mean(b,0)", "/d.dds?q,mean(g,1)", "/d.ascii?r,mean(a)", "/d.dods?i,mean(b,1)",
    # the DMR of a constrained dataset
    "/d.dmr?a[1:2:7]", "/d.dmr?s.i&s.i>1", "/d.dmr?g.gx,st.in", "/d.dmr?mean(b,0)", "/d.dmr?nope",
    # a member of a grid named again after (before) the whole grid: after fix e9f11ba apply_projection leaves it where
    # it is (no del / __setitem__ on the grid); the member-first order builds a degenerate Structure
    "/d.dods?g,g.gy", "/d.dods?g,g.g", "/d.dods?g[0:1][1:2],g.gx", "/d.dds?g.gx,g", "/d.ascii?g,g.gx,g.gy",
]


# lazy sequences (IterData): a plain one and one whose served data object already carries a record range
LAZY_SPEC = {
    "name": "d", "attrs": {"title": "lazy"},
    "vars": [
        ["base", "a", "i4", [6], {"units": "m"}],
        ["lseq", "s", {"note": "lazy"}, [["i", "i4", "x"], ["f", "f8", "y"], ["w", "S", None]], 9, False],
        ["lseq", "r", {"note": "ranged"}, [["j", "i4", "x"], ["g", "f8", None]], 7, True],
    ],
}

LAZY_REQUESTS = [
    "/d.dds", "/d.das", "/d.dods", "/d.ascii", "/d.asc", "/d.ver", "/d.dmr", "/d.html",
    "/d.dods?s", "/d.dods?r", "/d.ascii?s", "/d.ascii?r", "/d.dods?s[1:1:8]", "/d.dods?r[1:1:8]", "/d.ascii?s[1:1:8]",
    "/d.ascii?r[0:2:5]", "/d.dods?s[2:3]", "/d.dods?r[3]", "/d.dods?s.i", "/d.dods?s.i,s.w", "/d.ascii?r.g", "/d.dods?r.j[1:2]",
    "/d.ascii?s.w[1:1:8]", "/d.dods?s&s.i>1", "/d.ascii?s.w&s.i>=2&s.f<9", "/d.dods?r&r.j<7", "/d.ascii?r.g&r.j!=3",
    "/d.dds?s[1:1:8]", "/d.das?s", "/d.dods?i", "/d.dods?s&bounds(0,9,0,9,0,9,00Z01JAN1970,00Z01JAN1970)",
    "/d.dods?a[1:2:5]", "/d.dods?s[x]", "/d.dods?s&s.zz>1", "/d.dods?r.nope", "/d.dods?mean(s,0)",
]


# nested lazy sequences (one inner level), one per representation of the source records; `ntl` is served already ranged
NEST_SPEC = {
    "name": "d", "attrs": {"title": "nested"},
    "vars": [
        ["base", "a", "i4", [4], {"units": "m"}],
        ["nseq", "nt", {"note": "tuples"}, [["i", "i4", "x"], ["f", "f8", "y"]], 5, "tuple", ["mt", [["t", "i4"], ["p", "f8"]], 2]],
        ["nseq", "nl", {"note": "lists"}, [["j", "i4", "x"], ["w", "S", None]], 5, "list", ["ml", [["u", "i4"], ["q", "i2"]], 1]],
        ["nseq", "nll", {"note": "lists of lists"}, [["k", "i2", None]], 4, "listlist", ["mll", [["v", "i4"], ["r", "f8"], ["z", "S"]], 0]],
        ["nseq", "nr", {"note": "numpy records"}, [["h", "i4", "x"], ["e", "f8", None]], 5, "nprec", ["mr", [["c", "i4"], ["o", "f8"]], 2]],
        ["nseq", "ntl", {"note": "ranged"}, [["n", "i4", None]], 4, "tlist", ["mtl", [["b", "i4"], ["y", "i4"]], 1], True],
    ],
}


def nested_requests(spec, per_seq=None, rng=None):
    """requests on every nested lazy sequence of `spec`: plain, selections on outer and on inner columns, projections
    of inner columns, record ranges, combinations"""
    out = []
    for p, v in leaves(spec):
        if v[0] != "nseq":
            continue
        s = ".".join(p)
        cols, nrows, inner = v[3], v[4], v[6]
        m, icols = inner[0], inner[1]
        num = [c[0] for c in cols if c[1] != "S"]
        inum = [c[0] for c in icols if c[1] != "S"]
        o = num[0] if num else None
        x = inum[0]
        y = inum[-1]
        hi = max(nrows - 1, 0)
        rs = ["/d.dods?%s" % s, "/d.ascii?%s" % s, "/d.dds?%s" % s,
              "/d.dods?%s&%s.%s.%s>4" % (s, s, m, x), "/d.dods?%s.%s.%s>4" % (s, m, x), "/d.dds?%s.%s.%s<7" % (s, m, x),
              "/d.ascii?%s.%s.%s&%s.%s.%s<7" % (s, m, y, s, m, x), "/d.dods?%s&%s.%s.%s>2&%s.%s.%s<9" % (s, s, m, x, s, m, y),
              "/d.ascii?%s&%s.%s.%s>=3" % (s, s, m, x),
              "/d.dods?%s.%s" % (s, m), "/d.ascii?%s.%s.%s" % (s, m, x), "/d.dods?%s.%s.%s,%s.%s.%s" % (s, m, y, s, m, x),
              "/d.dods?%s[1:%d]" % (s, hi), "/d.ascii?%s[0:2:%d]" % (s, hi), "/d.dods?%s.%s[0:1]" % (s, m),
              "/d.ascii?%s[1:%d]&%s.%s.%s>4" % (s, hi, s, m, x), "/d.ascii?%s.%s.%s[0:2]&%s.%s.%s!=5" % (s, m, x, s, m, y),
              "/d.dods?%s.%s.%s=~1" % (s, m, x), "/d.dods?%s&%s.%s.nope>1" % (s, s, m)]
        if o:
            rs += ["/d.dods?%s&%s.%s>3" % (s, s, o), "/d.ascii?%s.%s&%s.%s<=6" % (s, m, s, o),
                   "/d.dods?%s.%s,%s.%s.%s" % (s, o, s, m, y), "/d.dods?%s.%s,%s.%s.%s&%s.%s>2&%s.%s.%s>=3" % (s, o, s, m, x, s, o, s, m, x),
                   "/d.ascii?%s.%s[1:%d]" % (s, o, hi)]
        if rng is not None and per_seq is not None:
            rs = rng.sample(rs, min(per_seq, len(rs)))
        out += rs
    return out


# the CSV handler: a file-backed lazy sequence named "sequence"; `CSVData.stream` re-opens the file per iteration and
# csv.reader yields LISTS
CSV_SPEC = {"name": "d", "attrs": {"title": "csv"}, "csv": True,
            "vars": [["lseq", "sequence", {}, [["index", "f8", None], ["temperature", "f8", None], ["site", "S", None]], 7, False]]}

CSV_REQUESTS = [
    "/d.dds", "/d.das", "/d.dods", "/d.ascii", "/d.dmr", "/d.ver", "/d.dods?sequence.index", "/d.ascii?sequence.site,sequence.index",
    "/d.dods?sequence&sequence.index>3", "/d.ascii?sequence.site&sequence.temperature<7&sequence.index>=2",
    "/d.dods?sequence[1:2:5]", "/d.ascii?sequence.site[0:2]", "/d.dods?sequence&sequence.nope>1", "/d.dods?sequence.site&sequence.site=\"bc\"",
    "/d.dods?sequence&sequence.index>sequence.temperature", "/d.dds?sequence.temperature", "/d.dods?sequence[x]", "/d.dods?index",
    "/d.dods?sequence&bounds(0,9,0,9,0,9,00Z01JAN1970,00Z01JAN1970)",
]


# aliasing that immutable fixtures cannot show: two arrays that are strided views of a third one's buffer, two grids
# whose maps are the same ndarray objects, one BaseType object placed in two containers, attribute values that are
# (writeable) numpy arrays, lists and dicts of lists
SHARED_SPEC = {
    "name": "d", "attrs": {"title": "shared", "levels": {"__nd__": ["f8", [1.5, 2.5, 3.5]]}, "history": ["a", "b"]},
    "vars": [
        ["base", "buf", "i4", [12], {"valid_range": {"__nd__": ["i4", [11, 0]]}, "flags": [1, 0], "meta": {"k": [2, 1]}}],
        ["view", "ev", "buf", 0, 2],
        ["view", "od", "buf", 1, 3],
        ["grid", "g1", {"long_name": "one"}, "i2", [["x", 2], ["y", 3]]],
        ["grid", "g2", {"long_name": "two"}, "f4", [["x", 2], ["y", 3]], {"x": "g1", "y": "g1"}],
        ["struct", "st", {"foo": "bar"}, [["alias", "buf", "buf"], ["base", "p", "i4", [], {}]]],
    ],
}

SHARED_REQUESTS = [
    "/d.dds", "/d.das", "/d.dods", "/d.ascii", "/d.dmr", "/d.html", "/d.ver", "/d.dods?buf[1:2:9]", "/d.dods?ev", "/d.ascii?od[1:2]",
    "/d.dods?ev,od,buf", "/d.dods?g1", "/d.dods?g2[0:1][1:2]", "/d.dods?g2.x,g1.x", "/d.ascii?g1.g1[0][0:2]", "/d.dods?g2.y[1:2]",
    "/d.dods?st", "/d.dods?st.buf[0:3]", "/d.ascii?st.buf,buf", "/d.dods?mean(buf)", "/d.dods?mean(g2,1)", "/d.ascii?ev,mean(g1,0)",
    "/d.dods?mean(ev,0)", "/d.dds?st.p", "/d.das?buf", "/d.dods?buf[20:30]", "/d.dods?g1[x]",
]


def rand_spec(rng):
    """a random dataset: 2..6 top-level variables, nesting to depth 2, globally unique names"""
    names = iter(["v%d" % i for i in range(100)])
    ints = ["i4", "i2", "u1", "f4", "f8", "u2", "u4"]

    def attrs():
        r = rng.random()
        if r < 0.4:
            return {}
        if r < 0.7:
            return {"units": "m"}
        if r < 0.8:
            return {"units": "m", "valid_range": {"__nd__": ["f4", [9.5, 0.5]]}, "flags": [1, 0]}
        return {"units": "m", "meta": {"k": 1, "l": [1, 2]}, "flags": [0, 1]}

    def base(depth):
        rank = rng.choice([0, 1, 1, 2, 3])
        shape = [rng.randint(1, 4) for _ in range(rank)]
        return ["base", next(names), rng.choice(ints + ["S"]), shape, attrs()]

    def var(depth):
        r = rng.random()
        if r < 0.45 or depth >= 2:
            return base(depth)
        if r < 0.65:
            return ["struct", next(names), attrs(), [var(depth + 1) for _ in range(rng.randint(1, 3))]]
        if r < 0.8:
            n = next(names)
            return ["grid", n, attrs(), rng.choice(ints), [[n + "x", rng.randint(1, 3)], [n + "y", rng.randint(1, 4)]][:rng.randint(1, 2)]]
        cols = [[next(names), rng.choice(["i4", "f8", "i2", "S"]), ax] for ax in
                rng.sample(["x", "y", "z", None, None], rng.randint(1, 4))]
        if depth == 0 and rng.random() < 0.3:
            icols = [[next(names), rng.choice(["i4", "f8", "i2", "S"] if i else ["i4", "i2"])] for i in range(rng.randint(1, 3))]
            return ["nseq", next(names), attrs(), cols, rng.randint(1, 5), rng.choice(REPS),
                    [next(names), icols, rng.randint(0, len(cols))], rng.random() < 0.3]
        if rng.random() < 0.25:
            return ["lseq", next(names), attrs(), cols, rng.randint(1, 6), rng.random() < 0.5]
        return ["seq", next(names), attrs(), cols, rng.randint(0, 6)]

    return {"name": "d", "attrs": attrs(), "vars": [var(0) for _ in range(rng.randint(2, 6))]}


def leaves(spec):
    """[(path tuple, spec)] of every variable (containers included)"""
    out = []

    def go(v, path):
        p = path + (v[1],)
        out.append((p, v))
        if v[0] == "struct":
            for c in v[3]:
                go(c, p)
    for v in spec["vars"]:
        go(v, ())
    return out


NEST_REQUESTS = ["/d.dds", "/d.das", "/d.dods", "/d.ascii", "/d.asc", "/d.ver", "/d.dmr", "/d.html", "/d.dods?a[1:2]"] \
    + nested_requests(NEST_SPEC)


def hyperslab(rng, shape):
    out = ""
    for n in shape:
        a = rng.randint(0, n - 1)
        b = rng.randint(a, n - 1)
        k = rng.randint(1, 3)
        out += rng.choice(["[%d:%d:%d]" % (a, k, b), "[%d:%d]" % (a, b), "[%d]" % a])
    return out


MALFORMED_CE = ["a[x]", "nope", "v0[1:2:3:4]", "v1[", "&&", "v0&v0.zz>1", "v1>", "nofunc(v0)", "v0[90:99]", "mean(v0,9)",
                "mean()", "v0[0:1][0:1][0:1][0:1][0:1]", "dap4.ce=v0", "v0.nope", "%", "v0,v0", "mean(nope)", "v1.v2.v3"]


def rand_request(rng, spec, kind=None):
    """(url, kind) with kind in plain|proj|slab|sel|func|malformed"""
    kind = kind or rng.choice(["plain", "proj", "proj", "slab", "slab", "sel", "sel", "func", "func", "malformed"])
    resp = rng.choice(["dods", "dods", "dods", "ascii", "dds", "das", "asc"] + RESPONSES)
    lv = leaves(spec)
    if any(v[0] == "nseq" for _, v in lv) and rng.random() < 0.4:
        return rng.choice(nested_requests(spec)), "nested"
    if kind == "plain":
        return "/d.%s" % resp, kind
    if kind == "malformed":
        if rng.random() < 0.25:
            return rng.choice(["/d", "/d.foo", "/d.", "/.dods", "/d.dods.x"]), kind
        return "/d.%s?%s" % (resp, rng.choice(MALFORMED_CE)), kind
    seqs = [(p, v) for p, v in lv if is_seq(v)]
    if kind == "sel" and not seqs:
        kind = "proj"
    if kind in ("proj", "slab"):
        parts = []
        for p, v in rng.sample(lv, rng.randint(1, min(3, len(lv)))):
            name = ".".join(p) if rng.random() < 0.8 else p[-1]          # full id or shorthand
            if is_seq(v) and rng.random() < 0.6:
                col = rng.choice(v[3])[0]
                name = ".".join(p + (col,))
                if kind == "slab" and v[4] > 0 and rng.random() < 0.5:
                    name += hyperslab(rng, [v[4]])
            elif v[0] == "grid" and rng.random() < 0.4:
                name = ".".join(p + (rng.choice([v[1]] + [d for d, _ in v[4]]),))
            elif kind == "slab":
                if v[0] == "base" and v[3]:
                    name += hyperslab(rng, v[3])
                elif v[0] == "grid":
                    name += hyperslab(rng, [n for _, n in v[4]])
                elif is_seq(v) and v[4] > 0:
                    name += hyperslab(rng, [v[4]])
            parts.append(name)
        return "/d.%s?%s" % (resp, ",".join(parts)), kind
    if kind == "sel":
        p, v = rng.choice(seqs)
        sid = ".".join(p)
        proj = rng.choice([sid, sid, ".".join(p + (rng.choice(v[3])[0],)), ""])
        clauses = []
        for _ in range(rng.randint(1, 3)):
            c = rng.choice(v[3])
            if c[1] == "S":
                clauses.append('%s.%s%s"%s"' % (sid, c[0], rng.choice(["=", "!="]), rng.choice(["a", "bc", ""])))
            else:
                clauses.append("%s.%s%s%d" % (sid, c[0], rng.choice(["<", "<=", ">", ">=", "=", "!="]), rng.randint(0, 10)))
        return "/d.%s?%s&%s" % (resp, proj, "&".join(clauses)), kind
    # server-side functions
    arrays = [(p, v) for p, v in lv if (v[0] == "base" and v[3] and v[2] != "S" and len(p) == 1) or (v[0] == "grid" and len(p) == 1)]
    if seqs and (not arrays or rng.random() < 0.4):
        p, v = rng.choice(seqs)
        sid = ".".join(p)
        lo, hi = sorted([rng.randint(0, 10), rng.randint(0, 10)])
        args = "%d,%d,%d,%d,0,10,00Z01JAN1970,00Z01JAN1970" % (lo, hi, rng.randint(0, 3), rng.randint(4, 10))
        proj = rng.choice([sid, ".".join(p + (rng.choice(v[3])[0],))])
        extra = ""
        if rng.random() < 0.3:
            c = [c for c in v[3] if c[1] != "S"]
            if c:
                extra = "&%s.%s>%d" % (sid, c[0][0], rng.randint(0, 5))
        return "/d.%s?%s&bounds(%s)%s" % (resp, proj, args, extra), "func"
    if arrays:
        p, v = rng.choice(arrays)
        rank = len(v[3]) if v[0] == "base" else len(v[4])
        call = "mean(%s,%d)" % (p[0], rng.randint(0, rank - 1))
        if rng.random() < 0.2 and rank > 1:
            call = "mean(%s,0)" % call
        others = [pp[0] for pp, vv in lv if len(pp) == 1 and pp[0] != p[0]]
        if others and rng.random() < 0.5:
            call = rng.choice(others) + "," + call
        return "/d.%s?%s" % (resp, call), "func"
    return "/d.%s" % resp, "plain"


# ---------------------------------------------------------------------------------------------
_ADDR = re.compile(r"0x[0-9a-fA-F]+")


def call(app, url):
    """canonical outcome of one request: (status, sorted headers, body) or ('escaped', class, message)"""
    from webob import Request

    req = Request.blank(url)
    try:
        res = req.get_response(app)
        body = res.body
        status = res.status
        if not status.startswith("200"):
            body = _ADDR.sub("0x", body.decode("latin-1")).encode("latin-1")
        return (status, tuple(sorted((k, v) for k, v in res.headerlist)), body)
    except Exception as e:
        return ("escaped", type(e).__name__, _ADDR.sub("0x", str(e))[:300])


def show(outcome):
    s, h, b = outcome
    if s == "escaped":
        return "escaped:%s:%s" % (h, b[:80])
    return "%s len=%d crc=%08x head=%r" % (s, len(b), zlib.crc32(b), b[:40])


def deep_value(v, depth=0):
    """address-free value of anything a stream, an attribute or a data slot can hold, with the TYPE of every container
    (a tuple turned into a list, a record array into a list of rows is a change), no depth cut for plain containers"""
    from props import c13_modstate as M

    if v is None or isinstance(v, (bool, int, str, bytes)):
        return v
    if isinstance(v, float):
        return ("f", repr(v))
    if isinstance(v, np.ndarray):
        if v.dtype.hasobject:
            return ("nd-obj", str(v.dtype), v.shape, tuple(deep_value(x, depth + 1) for x in v.ravel().tolist()))
        return ("nd", str(v.dtype), v.shape, v.tobytes())
    if isinstance(v, np.void):
        return ("np.void", str(v.dtype), tuple(deep_value(x, depth + 1) for x in v.tolist()))
    if isinstance(v, np.generic):
        return ("np", str(v.dtype), v.tobytes())
    if depth > 40:
        return ("deep", type(v).__name__)
    if isinstance(v, (list, tuple)):
        kind = "list" if isinstance(v, list) else "tuple"
        return (kind, tuple(deep_value(x, depth + 1) for x in v))
    if isinstance(v, dict):
        return ("dict", tuple((deep_value(k, depth + 1), deep_value(x, depth + 1)) for k, x in list(v.items())))
    return M.fp(v)


def snapshot(ds):
    """deep, order-sensitive snapshot of a served dataset: structure, hidden children, ids, attributes (values by
    content, arrays included), data; for a lazy data object its whole state, THE RECORDS ITS SOURCE HOLDS (every
    container with its type, to any depth: tuples, lists, lists of lists, record arrays, object columns) and the
    records it yields now.  Each part is labelled so that two snapshots can be compared part by part."""
    from pydap.model import BaseType, SequenceType, StructureType

    from props import c13_modstate as M

    out = []

    def data(where, d):
        if isinstance(d, np.ndarray):
            out.append((where + " data", ("nd", str(d.dtype), d.shape, d.tobytes() if not d.dtype.hasobject
                                          else deep_value(d))))
            # a view: the buffer it looks into is reachable through it
            if d.base is not None and isinstance(d.base, np.ndarray) and not d.base.dtype.hasobject:
                out.append((where + " data.base", ("nd", str(d.base.dtype), d.base.shape, d.base.tobytes())))
            return
        rows = None
        if hasattr(d, "islice") and hasattr(d, "stream"):
            out.append((where + " source records", deep_value(d.stream)
                        if isinstance(d.stream, (list, tuple, np.ndarray)) else ("opaque", type(d.stream).__name__)))
            out.append((where + " filters/maps/slices", (len(d.ifilter), len(d.imap), repr(d.islice), d.level)))
            try:
                rows = repr(list(iter(d)))
            except Exception as e:
                rows = "raises %s" % type(e).__name__
            out.append((where + " records yielded", rows))
        if rows is not None:
            # (the template and root are DAP objects of the served tree or clones: their state by name, id and keys)
            t, r = d.template, d.root
            out.append((where + " data object state",
                        (type(d).__name__, tuple(sorted(d.__dict__)), type(t).__name__, t.id,
                         tuple(getattr(t, "_visible_keys", ())), tuple(getattr(t, "_dict", {}).keys()), r.id,
                         tuple(getattr(r, "_visible_keys", ())))))
        else:
            out.append((where + " data object state", (type(d).__name__, repr(M.fp(d)))))

    def go(v):
        where = "%s %r (id %r)" % (type(v).__name__, v.name, v.id)
        out.append((where + " attributes", deep_value(dict(v.attributes))))
        out.append((where + " instance fields", tuple(sorted(k for k in v.__dict__))))
        if isinstance(v, BaseType):
            data(where, v.data)
            out.append((where + " dims", tuple(v.dims)))
        if isinstance(v, StructureType):
            if isinstance(v, SequenceType):
                data(where, v.data)
            out.append((where + " keys", (tuple(v._visible_keys), tuple(v._dict.keys()))))
            for c in v._dict.values():
                go(c)
    go(ds)
    return tuple(out)


def snapshot_diff(a, b, limit=4):
    """the labelled parts in which two snapshots differ"""
    out = []
    da, db = dict(a), dict(b)
    for k, _ in list(a) + [kv for kv in b if kv[0] not in da]:
        if da.get(k, "<absent>") != db.get(k, "<absent>") and k not in [o.split(":")[0] for o in out]:
            out.append("%s: %s -> %s" % (k, _short(da.get(k, "<absent>")), _short(db.get(k, "<absent>"))))
    return out[:limit]


def _short(x):
    r = repr(x)
    return r if len(r) <= 300 else r[:300] + "..."
